"""Print the markdown table of seeded changes (section 11.6 of DESIGN.md) from seeded/*/meta.json + result.json."""
import json
from pathlib import Path

ROOT = Path(__file__).resolve().parent.parent
rows = []
for d in sorted((ROOT / "seeded").glob("C*_*")):
    try:
        m = json.loads((d / "meta.json").read_text())
    except Exception:
        continue
    r = json.loads((d / "result.json").read_text()) if (d / "result.json").exists() else {}
    caught = []
    for cp, c in r.get("checks", {}).items():
        if c.get("rc") == 1 and c.get("violations", 0) > 0:
            first = (c.get("first") or [""])[0]
            sig = first.split("sig=")[1].split(" ::")[0] if "sig=" in first else ""
            caught.append(f"{cp}: `{sig[:90]}`")
    note = (d / "NOTE.txt").read_text().strip() if (d / "NOTE.txt").exists() else ""
    title = str(m.get("title", "")).replace("|", "/")[:110]
    needs = " ".join(str(m.get("needs", "")).split()).replace("|", "/")[:160]
    ok = "yes" if r.get("detected") else "NO"
    rows.append(f"| {d.name} | {title} | {needs} | {ok} | {'; '.join(caught)[:220]} {note} |")
print("| seed | change | needs | caught | by (first signature) / note |")
print("|------|--------|-------|--------|------------------------------|")
print("\n".join(rows))
