"""Regenerate MANIFEST.json from the table below:  /venv/bin/python tools/gen_manifest.py"""
import json
from pathlib import Path

ROOT = Path(__file__).resolve().parent.parent

TECHNIQUE = {
    "C01": "exhaustive frame-graph exploration (edges, paths <= 2/3, anchors, complete n in [1,4096] lattice) of real Grid/Cube maps vs float64 reference",
    "C02": "exhaustive enumeration of oriented geometries (all signed permutations + rotations) x continuous-index lattice x header chains, and all construct/query/setter histories (depth <= 2 pairs) on live grids, vs SimpleITK",
    "C03": "bounded explicit-state exploration of Grid derivation chains on the real objects, float64 reference grid in lock step",
    "C04": "bounded explicit-state exploration of image operation chains, receiver / same-target / copy histories on live objects, on ramp-carrying images with a reference grid + validity mask in lock step",
    "C05": "exhaustive enumeration of (source grid, target grid, mode, padding, batch form, API) with impulse-basis images vs ITK resampler / numpy interpolator",
    "C06": "exhaustive enumeration of transform class x parameter menu x grid x view transitions; all views must denote one reference world map",
    "C07": "bounded exploration of all histories (make-inverse forms, edits, replacements, updates, evaluations) on (transform, inverse) pairs sharing parameters",
    "C08": "exhaustive enumeration of operand-form / batch-shape / order-string / angle-lattice products vs float64 4x4 and quaternion algebra",
    "C09": "state-dedup breadth-first search over all operation histories of live transforms (+ inverse, + copy) against a reference record",
    "C10": "exhaustive path exploration of the 4-node vector-representation graph (paths <= 3), all live-grid derivation and relabel histories (depth <= 3), representation-independence of warp/sample/exp",
    "C11": "exhaustive enumeration of (shape, align_corners, generator, steps 0..8, scale, dtype, batch, API) vs closed form (I+H/2^k)^(2^k)",
    "C12": "exhaustive enumeration of (D, shape, spacing form, mode, key subset, function) on polynomial basis fields vs analytic derivatives",
    "C13": "exhaustive enumeration of field menus x {compose, bracket, BCH terms 0..5, logv o expv} x align_corners vs closed forms and algebraic relations",
    "C14": "complete ranges stride 1..16 x derivative 0..3 x sizes 1..64 and impulse-basis coefficients vs exact rational cubic B-spline basis; subdivision chains; weight-table call histories and FFD/SVFFD object histories (depth 3)",
    "C15": "exhaustive sweep of the functional API surface x aliasing-sensitive argument forms, all copy/mutate histories and derivation chains <= 3, with bitwise + _version fingerprints of every earlier live object",
    "C16": "exhaustive enumeration of input-transformation edges (swap, a*x+b, edits outside mask, mask forms, norm, reduction, module vs functional) per loss",
    "C17": "exhaustive enumeration of field-transformation edges (add affine, scale, respace), analytic values, all six elastic-constant pairs, inverse-consistency units",
    "C18": "complete enumeration of format x D x channels x dtype x grid x compress x direction x entry point write/read chains vs exact equality and SimpleITK cross-read",
    "C19": "exhaustive enumeration of all programs of torch operations up to length 2/3 (plus the length-4 observe/copy/in-place/observe family and two-object alias histories) on batches with tagged items and distinct grids; provenance decoded from data",
    "C20": "exhaustive enumeration of differentiable operations x every scalar input coordinate: autograd vs central differences with measured precision mode",
}


def claimed_table():
    """Texts come from the check modules themselves (RULE / EXPLANATION / ASSUMPTIONS)."""
    import importlib
    import sys

    sys.path.insert(0, str(ROOT))
    from mc.runner import CHECKS, setup_env

    setup_env()
    table = {}
    for pid, modname in sorted(CHECKS.items()):
        if pid in EXCLUDE:
            continue
        try:
            mod = importlib.import_module(modname)
        except ModuleNotFoundError:
            continue
        rule = " ".join(str(getattr(mod, "RULE", "")).split())
        expl = " ".join(str(getattr(mod, "EXPLANATION", "")).split())
        assum = [" ".join(str(a).split()) for a in getattr(mod, "ASSUMPTIONS", [])]
        text = (expl + ". " if expl else "") + "Every case of the space described here is executed on the real code and judged: " + rule
        note = "Trusted: the reference models under /verif/ref (float64 / exact rationals, written from docstrings and textbook formulas), SimpleITK where named, the tolerance and knife-edge rules of DESIGN.md section 3. " + " ".join(a.rstrip(".") + "." for a in assum) + " Nothing is claimed beyond the menus, lattices and depths reported in the evidence."
        table[pid] = (TECHNIQUE[pid], text[:3000], note[:3000])
    return table


# properties deliberately not claimed: id -> reason
EXCLUDE = {}

NOT_YET = {}

DESIGN_REF = {f"C{i:02d}": f"DESIGN.md section 4, C{i:02d}" for i in range(1, 21)}


def main():
    props = [json.loads(l) for l in (ROOT / "properties.jsonl").read_text().splitlines() if l.strip()]
    checks = []
    na = []
    CLAIMED = claimed_table()
    for p in props:
        pid = p["id"]
        if pid in CLAIMED:
            tech, text, note = CLAIMED[pid]
            checks.append(
                {
                    "property_id": pid,
                    "quick_cmd": f"./vcheck {pid} --tier quick",
                    "thorough_cmd": f"./vcheck {pid} --tier thorough",
                    "evidence_file": f"/verif/evidence/{pid}.json",
                    "replay_cmd_template": f"./vcheck {pid} --replay {{path}}",
                    "engine": "mc",
                    "level_claimed": {"category": "model_checking", "text": text, "design_ref": DESIGN_REF[pid]},
                    "level_note": note,
                    "technique": tech,
                }
            )
        else:
            na.append({"property_id": pid, "reason": EXCLUDE.get(pid, NOT_YET.get(pid, "check not built yet in this round (planned in DESIGN.md section 4); nothing is claimed for it"))})
    manifest = {
        "version": 1,
        "setup_cmd": "/venv/bin/python -m mc.selftest",
        "hooks": {
            "guard": "DEEPALI_VERIF",
            "enable": "no source hooks are needed: checks import deepali from /repo/src (editable install) in a fresh process; DEEPALI_VERIF=1 is exported by vcheck but guards nothing",
            "baseline_off_cmd": "cd /repo && /venv/bin/python -m pytest -ra -q -p no:cacheprovider --timeout=900 --continue-on-collection-errors",
            "source_commits": [],
            "add_only": True,
        },
        "engines": [
            {
                "name": "mc",
                "path": "/verif/mc",
                "serves_properties": sorted(CLAIMED),
                "kind_free_text": "hand-written bounded explicit-state / path-exhaustive explorer running the real deepali objects against float64 reference models (ref/), fork pool of 16 single-threaded workers, determinism probe, vacuity guard, replay files",
            }
        ],
        "checks": checks,
        "notes": "Every check enumerates a finite, explicitly listed space completely (no sampling, no solver); see DESIGN.md. VERIF_SEED rotates shard order and selects one of four fixed tables for generic float entries.",
        "not_applicable": na,
    }
    (ROOT / "MANIFEST.json").write_text(json.dumps(manifest, indent=1) + "\n")
    print(f"MANIFEST.json: {len(checks)} claimed, {len(na)} not claimed")


if __name__ == "__main__":
    main()
