"""Regenerate MANIFEST.json from the table below:  /venv/bin/python tools/gen_manifest.py"""
import json
from pathlib import Path

ROOT = Path(__file__).resolve().parent.parent

# id -> (technique, level text, level note)
CLAIMED = {
    "C03": (
        "bounded explicit-state exploration of Grid derivation chains on the real objects, float64 reference grid in lock step",
        "All chains of derivation calls (resize/reshape/down/upsample/pyramid/resample/crop/pad/narrow/roi/center_crop/center_pad/pool/"
        "Cube.grid/align_corners; ~75 argument forms) of length <= 2 (quick) or <= 3 (thorough, reduced alphabet at depth 3) from every "
        "initial grid of a lattice (D 2/3, odd/even sizes, anisotropic spacing, origin 0 and large, identity/permuted/rotated, both flags) are "
        "executed on real Grid objects; every reached state is compared with a reference grid derived from the promises of the property "
        "(center/direction kept, corners or extent kept, retained samples keep their world position, no exception).",
        "Trusted: ref/grid.py (numpy float64 semantics written from the docstrings), float32 tolerance rule of DESIGN 3.4, knife-edge rule 3.6. "
        "Nothing is claimed beyond the lattice, alphabet and depth reported in the evidence.",
    ),
}

NOT_YET = {}

DESIGN_REF = {f"C{i:02d}": f"DESIGN.md section 4, C{i:02d}" for i in range(1, 21)}


def main():
    props = [json.loads(l) for l in (ROOT / "properties.jsonl").read_text().splitlines() if l.strip()]
    checks = []
    na = []
    for p in props:
        pid = p["id"]
        if pid in CLAIMED:
            tech, text, note = CLAIMED[pid]
            checks.append(
                {
                    "property_id": pid,
                    "quick_cmd": f"./vcheck {pid} --tier quick",
                    "thorough_cmd": f"./vcheck {pid} --tier thorough",
                    "evidence_file": f"/verif/evidence/{pid}.json",
                    "replay_cmd_template": f"./vcheck {pid} --replay {{path}}",
                    "engine": "mc",
                    "level_claimed": {"category": "model_checking", "text": text, "design_ref": DESIGN_REF[pid]},
                    "level_note": note,
                    "technique": tech,
                }
            )
        else:
            na.append({"property_id": pid, "reason": NOT_YET.get(pid, "check not built yet in this round (planned in DESIGN.md section 4); nothing is claimed for it")})
    manifest = {
        "version": 1,
        "setup_cmd": "/venv/bin/python -m mc.selftest",
        "hooks": {
            "guard": "DEEPALI_VERIF",
            "enable": "no source hooks are needed: checks import deepali from /repo/src (editable install) in a fresh process; DEEPALI_VERIF=1 is exported by vcheck but guards nothing",
            "baseline_off_cmd": "cd /repo && /venv/bin/python -m pytest -ra -q -p no:cacheprovider --timeout=900 --continue-on-collection-errors",
            "source_commits": [],
            "add_only": True,
        },
        "engines": [
            {
                "name": "mc",
                "path": "/verif/mc",
                "serves_properties": sorted(CLAIMED),
                "kind_free_text": "hand-written bounded explicit-state / path-exhaustive explorer running the real deepali objects against float64 reference models (ref/), fork pool of 16 single-threaded workers, determinism probe, vacuity guard, replay files",
            }
        ],
        "checks": checks,
        "notes": "Every check enumerates a finite, explicitly listed space completely (no sampling, no solver); see DESIGN.md. VERIF_SEED rotates shard order and selects one of four fixed tables for generic float entries.",
        "not_applicable": na,
    }
    (ROOT / "MANIFEST.json").write_text(json.dumps(manifest, indent=1) + "\n")
    print(f"MANIFEST.json: {len(checks)} claimed, {len(na)} not claimed")


if __name__ == "__main__":
    main()
