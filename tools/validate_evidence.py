"""python3-vt tools/validate_evidence.py [files...]  -- validate evidence + MANIFEST against the schemas."""
import json
import sys
from pathlib import Path

import jsonschema

ROOT = Path(__file__).resolve().parent.parent
schema = json.loads(Path("/root/.vp/EVIDENCE.schema.json").read_text()) if Path("/root/.vp/EVIDENCE.schema.json").exists() else None
files = [Path(p) for p in sys.argv[1:]] or sorted((ROOT / "evidence").glob("C*.json"))
bad = 0
if schema is not None:
    for f in files:
        try:
            jsonschema.validate(json.loads(f.read_text()), schema)
        except Exception as e:  # noqa: BLE001
            bad += 1
            print(f"INVALID {f}: {str(e)[:300]}")
ms = Path("/root/.vp/MANIFEST.schema.json")
if ms.exists() and (ROOT / "MANIFEST.json").exists():
    try:
        jsonschema.validate(json.loads((ROOT / "MANIFEST.json").read_text()), json.loads(ms.read_text()))
    except Exception as e:  # noqa: BLE001
        bad += 1
        print(f"INVALID MANIFEST.json: {str(e)[:300]}")
print(f"validated {len(files)} evidence file(s) and MANIFEST.json: {bad} invalid")
sys.exit(1 if bad else 0)
