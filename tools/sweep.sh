#!/bin/sh
# tools/sweep.sh <tier> "<seeds>" [props...]   - run checks one after the other, print one summary block per run
tier=$1; seeds=$2; shift 2
props="$@"; [ -z "$props" ] && props="C01 C02 C03 C04 C05 C06 C07 C08 C09 C10 C11 C12 C13 C14 C15 C16 C17 C18 C19 C20"
cd "$(dirname "$0")/.." || exit 2
for p in $props; do for s in $seeds; do
  start=$(date +%s)
  VERIF_SEED=$s ./vcheck $p --tier $tier > /tmp/sweep_$$.log 2>&1; rc=$?
  end=$(date +%s)
  echo "== $p tier=$tier seed=$s rc=$rc wall=$((end-start))s"
  grep -E "^\[C|^VIOLATION|^HARNESS|^CAP|^KNOWN" /tmp/sweep_$$.log | cut -c1-300 | head -12
done; done
rm -f /tmp/sweep_$$.log
