"""Evaluate seeded property-breaking changes against the checks.

  /venv/bin/python tools/seed_eval.py [--tests] [--tier quick] seeded/<id> [...]

For each seeded/<id>/ (patch.diff, demo.py, meta.json) this script
  1. creates a scratch git worktree of /repo HEAD under $VERIF_TMP (default /var/tmp),
  2. runs demo.py against the clean worktree (must exit 0),
  3. applies patch.diff, runs demo.py (must exit non-zero),
  4. with --tests: runs the pinned test suite in the patched worktree (must pass),
  5. runs the check(s) of the property with VERIF_REPO=<worktree> (expected: exit 1 with VIOLATION lines),
  6. removes the worktree, and records the outcome in seeded/<id>/result.json.
Nothing is ever applied to /repo itself.
A directory whose meta.json says "benign": true holds a property-PRESERVING change (benign/<id>/): there the expected
outcome is exit 0 of the check (result.json gets "alarm": false); an alarm is a false alarm of the check.
"""
from __future__ import annotations

import argparse
import json
import os
import shutil
import subprocess
import sys
import time
from pathlib import Path

ROOT = Path(__file__).resolve().parent.parent
TMP = Path(os.environ.get("VERIF_TMP", "/var/tmp"))


def run(cmd, cwd=None, env=None, timeout=3600):
    e = dict(os.environ)
    if env:
        e.update(env)
    try:
        p = subprocess.run(cmd, cwd=cwd, env=e, capture_output=True, text=True, timeout=timeout)
        return p.returncode, p.stdout + p.stderr
    except subprocess.TimeoutExpired as ex:
        return 124, f"timeout: {ex}"


def evaluate(seed_dir: Path, tier: str, tests: bool, props=None):
    meta = json.loads((seed_dir / "meta.json").read_text())
    prop = meta["property"]
    check_props = props or meta.get("checks", [prop])
    wt = TMP / f"deepali-seed-{seed_dir.name}-{os.getpid()}"
    res = {"seed": seed_dir.name, "property": prop, "at": time.strftime("%Y-%m-%dT%H:%M:%S")}
    rc, out = run(["git", "-C", "/repo", "worktree", "add", "--detach", "-f", str(wt), "HEAD"])
    if rc != 0:
        res["error"] = out[-500:]
        return res
    try:
        res["repo_head"] = run(["git", "-C", "/repo", "rev-parse", "--short", "HEAD"])[1].strip()
        env = {"PYTHONPATH": str(wt / "src"), "OMP_NUM_THREADS": "1", "MKL_NUM_THREADS": "1"}
        demo = seed_dir / "demo.py"
        if demo.exists():
            rc0, out0 = run(["/venv/bin/python", str(demo)], cwd=str(wt), env=env, timeout=900)
            res["demo_clean_rc"] = rc0
            if rc0 != 0:
                res["demo_clean_out"] = out0[-800:]
        rc, out = run(["git", "apply", "--whitespace=nowarn", str(seed_dir / "patch.diff")], cwd=str(wt))
        if rc != 0:
            rc, out = run(["git", "apply", "--3way", "--whitespace=nowarn", str(seed_dir / "patch.diff")], cwd=str(wt))
        res["apply_rc"] = rc
        if rc != 0:
            res["error"] = "patch does not apply: " + out[-500:]
            return res
        if demo.exists():
            rc1, out1 = run(["/venv/bin/python", str(demo)], cwd=str(wt), env=env, timeout=900)
            res["demo_patched_rc"] = rc1
            res["demo_patched_tail"] = out1[-400:]
        if tests:
            rct, outt = run(
                ["/venv/bin/python", "-m", "pytest", "-q", "-p", "no:cacheprovider", "--timeout=1800", "tests"],
                cwd=str(wt), env=env, timeout=3600,
            )
            res["tests_rc"] = rct
            res["tests_tail"] = outt.strip().splitlines()[-1] if outt.strip() else ""
        res["checks"] = {}
        for cp in check_props:
            t0 = time.time()
            rcc, outc = run([str(ROOT / "vcheck"), cp, "--tier", tier], cwd=str(ROOT), env={"VERIF_REPO": str(wt)}, timeout=7200)
            lines = outc.splitlines()
            viol = [l for l in lines if l.startswith("VIOLATION")]
            res["checks"][cp] = {
                "rc": rcc,
                "violations": len(viol),
                "first": [v[:300] for v in viol[:3]],
                "harness": [l[:300] for l in lines if l.startswith("HARNESS-ERROR")][:3],
                "wall_s": round(time.time() - t0, 1),
            }
        res["detected"] = any(c["rc"] == 1 and c["violations"] > 0 for c in res["checks"].values())
        if meta.get("benign"):
            # a benign (property-preserving) change: the expected outcome is exit 0 of every check
            res["benign"] = True
            res["alarm"] = any(c["rc"] != 0 for c in res["checks"].values())
    finally:
        run(["git", "-C", "/repo", "worktree", "remove", "--force", str(wt)])
        shutil.rmtree(wt, ignore_errors=True)
        run(["git", "-C", "/repo", "worktree", "prune"])
    (seed_dir / "result.json").write_text(json.dumps(res, indent=1) + "\n")
    return res


def main():
    ap = argparse.ArgumentParser()
    ap.add_argument("seeds", nargs="+")
    ap.add_argument("--tier", default="quick")
    ap.add_argument("--tests", action="store_true")
    ap.add_argument("--props", default="")
    a = ap.parse_args()
    rc = 0
    for s in a.seeds:
        r = evaluate(Path(s).resolve(), a.tier, a.tests, [p for p in a.props.split(",") if p] or None)
        print(json.dumps({k: v for k, v in r.items() if k in ("seed", "property", "demo_clean_rc", "demo_patched_rc", "tests_rc", "detected", "benign", "alarm", "error", "checks")}))
        if r.get("benign"):
            if r.get("alarm") or r.get("error"):
                rc = 1
        elif not r.get("detected"):
            rc = 1
    return rc


if __name__ == "__main__":
    sys.exit(main())
