"""Replace the seeded-changes table of DESIGN.md section 11.6 by the output of tools/seed_table.py."""
import subprocess, sys
from pathlib import Path

ROOT = Path(__file__).resolve().parent.parent
d = (ROOT / "DESIGN.md").read_text().splitlines()
start = next(i for i, l in enumerate(d) if l.startswith("| seed | change | needs | caught |"))
end = start
while end < len(d) and d[end].startswith("|"):
    end += 1
table = subprocess.run([sys.executable, str(ROOT / "tools/seed_table.py")], capture_output=True, text=True, check=True).stdout.rstrip("\n").splitlines()
(ROOT / "DESIGN.md").write_text("\n".join(d[:start] + table + d[end:]) + "\n")
print(f"table: {end - start} -> {len(table)} lines")
