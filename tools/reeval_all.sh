#!/bin/sh
# tools/reeval_all.sh <streams> <procs-per-stream> [--tests]  - re-evaluate every seeded/ and benign/ change against the current checks
# (each evaluation: scratch worktree of /repo HEAD under /var/tmp, patch, [pinned tests,] VERIF_REPO=<wt> ./vcheck <property>)
streams=${1:-3}; procs=${2:-5}; shift 2 2>/dev/null
cd "$(dirname "$0")/.." || exit 2
ls -d seeded/C*_* benign/C*_* | awk -v n="$streams" '{print > ("/var/tmp/reeval_list_" (NR % n))}'
for i in $(seq 0 $((streams-1))); do
  ( for d in $(cat /var/tmp/reeval_list_$i); do VERIF_PROCS=$procs /venv/bin/python tools/seed_eval.py "$@" "$d" 2>&1 | tail -1 | cut -c1-400; done > /var/tmp/reeval_$i.log 2>&1 ) &
done
wait
cat /var/tmp/reeval_*.log | grep -c '"seed"'
rm -f /var/tmp/reeval_list_*
