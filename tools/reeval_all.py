"""Re-evaluate seeded/ and benign/ changes against the current checks, in priority order, in parallel streams.

  /venv/bin/python tools/reeval_all.py <streams> <procs-per-stream> [--since 2026-09-27T15:40] [--deadline HH:MM]

Order: round 4, then properties whose checks were restructured last, then rounds 1-3, then benign. Directories whose
result.json is newer than --since are skipped.  Each evaluation is tools/seed_eval.py (scratch worktree under /var/tmp).
"""
import json, subprocess, sys, time, os
from pathlib import Path
from concurrent.futures import ThreadPoolExecutor

ROOT = Path(__file__).resolve().parent.parent
streams, procs = int(sys.argv[1]), sys.argv[2]
since = sys.argv[sys.argv.index("--since") + 1] if "--since" in sys.argv else ""
deadline = sys.argv[sys.argv.index("--deadline") + 1] if "--deadline" in sys.argv else ""

def prio(d: Path):
    n = d.name
    if d.parent.name == "seeded" and "_4" in n: return (0, n)
    if d.parent.name == "seeded" and n[:3] in ("C04", "C05", "C09", "C19", "C15", "C06", "C07"): return (1, n)
    if d.parent.name == "seeded": return (2, n)
    return (3, n)

todo = []
for d in sorted(list((ROOT / "seeded").glob("C*_*")) + list((ROOT / "benign").glob("C*_*")), key=prio):
    r = d / "result.json"
    if since and r.exists():
        try:
            if json.loads(r.read_text()).get("at", "") >= since: continue
        except Exception: pass
    todo.append(d)
print(len(todo), "to do", flush=True)

def one(d):
    if deadline and time.strftime("%H:%M") >= deadline: return f"{d.name} skipped (deadline)"
    env = dict(os.environ, VERIF_PROCS=procs)
    p = subprocess.run(["/venv/bin/python", str(ROOT / "tools/seed_eval.py"), str(d)], capture_output=True, text=True, env=env)
    return (p.stdout.strip().splitlines() or [p.stderr[-200:]])[-1][:300]

with ThreadPoolExecutor(streams) as ex:
    for line in ex.map(one, todo): print(line, flush=True)
