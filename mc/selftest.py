"""setup_cmd: verifies the toolchain offline and that the explorer finds a planted bug in a toy system,
reproduces it twice identically, and that written evidence validates against the schema (if jsonschema
is available under python3-vt)."""
from __future__ import annotations

import json
import subprocess
import sys
from pathlib import Path

ROOT = Path(__file__).resolve().parent.parent


def toy_explore(bug: bool):
    """Toy: a bounded counter with ops inc/dec/reset; planted bug: reset after two incs keeps 1."""
    from mc.core import Acc

    acc = Acc()

    def step(s, op, hist):
        if op == "inc":
            return s + 1
        if op == "dec":
            return s - 1
        if bug and hist[-2:] == ["inc", "inc"]:
            return 1
        return 0

    def ref(s, op):
        return {"inc": s + 1, "dec": s - 1, "reset": 0}[op]

    frontier = [([], 0, 0)]
    for depth in range(3):
        nxt = []
        for hist, s, r in frontier:
            for op in ("inc", "dec", "reset"):
                s2, r2 = step(s, op, hist), ref(r, op)
                acc.trans()
                acc.state(s2)
                acc.trace("toy", depth=depth + 1)
                acc.outcome(s2)
                if s2 != r2:
                    acc.violation("T/reset/stale", {"ops": hist + [op]}, f"{s2} != {r2}", size=depth + 1)
                nxt.append((hist + [op], s2, r2))
        frontier = nxt
    return acc


def main():
    from mc.runner import setup_env

    setup_env()
    import nibabel  # noqa: F401
    import SimpleITK  # noqa: F401
    import torch

    import deepali.core.functional  # noqa: F401
    import deepali.losses.functional  # noqa: F401
    import deepali.spatial  # noqa: F401

    good, bad = toy_explore(False), toy_explore(True)
    assert not good.violations, "toy system without bug must be silent"
    assert "T/reset/stale" in bad.violations, "planted bug not found"
    v = bad.violations["T/reset/stale"][0]
    assert v.case["ops"] == ["inc", "inc", "reset"], v.case  # shortest counterexample first
    assert toy_explore(True).digest() == bad.digest(), "toy exploration not deterministic"
    assert good.traces == 3 + 9 + 27
    # evidence schema validation (python3-vt has jsonschema)
    ev = sorted((ROOT / "evidence").glob("C*.json"))
    if ev:
        r = subprocess.run(["python3-vt", str(ROOT / "tools" / "validate_evidence.py")] + [str(p) for p in ev], capture_output=True, text=True)
        print(r.stdout.strip())
        if r.returncode != 0:
            print(r.stderr)
            sys.exit(1)
    print(f"selftest ok: torch {torch.__version__}, toy states={len(bad.states)} traces={bad.traces}")


if __name__ == "__main__":
    main()
