"""vcheck runner: shards -> fork pool -> merge -> findings -> evidence -> exit code."""
from __future__ import annotations

import argparse
import fnmatch
import hashlib
import importlib
import json
import os
import sys
import time
from pathlib import Path

ROOT = Path(__file__).resolve().parent.parent

CHECKS = {
    "C01": "checks.c01_grid_frames",
    "C02": "checks.c02_itk_convention",
    "C03": "checks.c03_derived_grids",
    "C04": "checks.c04_image_lockstep",
    "C05": "checks.c05_resampling",
    "C06": "checks.c06_transform_views",
    "C07": "checks.c07_inverse",
    "C08": "checks.c08_linalg",
    "C09": "checks.c09_stale_state",
    "C10": "checks.c10_flow_axes",
    "C11": "checks.c11_expv",
    "C12": "checks.c12_derivatives",
    "C13": "checks.c13_composition",
    "C14": "checks.c14_bspline",
    "C15": "checks.c15_mutation",
    "C16": "checks.c16_image_losses",
    "C17": "checks.c17_regularisers",
    "C18": "checks.c18_io_roundtrip",
    "C19": "checks.c19_batch_grids",
    "C20": "checks.c20_gradients",
}

EXIT_OK, EXIT_VIOLATION, EXIT_HARNESS = 0, 1, 2


def setup_env():
    """Own the environment before torch is imported."""
    os.environ.setdefault("PYTHONHASHSEED", "0")
    for k in ("OMP_NUM_THREADS", "MKL_NUM_THREADS", "OPENBLAS_NUM_THREADS", "NUMEXPR_NUM_THREADS"):
        os.environ[k] = "1"
    os.environ.setdefault("DEEPALI_VERIF", "1")
    repo = os.environ.get("VERIF_REPO", "/repo")
    src = str(Path(repo) / "src")
    if src not in sys.path:
        sys.path.insert(0, src)
    if str(ROOT) not in sys.path:
        sys.path.insert(0, str(ROOT))
    import warnings

    warnings.filterwarnings("ignore")
    import torch

    torch.set_num_threads(1)
    try:
        torch.set_num_interop_threads(1)
    except RuntimeError:
        pass
    import deepali.core.grid as g

    f = str(Path(g.__file__).resolve())
    if not f.startswith(str(Path(repo).resolve())):
        print(f"HARNESS-ERROR: deepali imported from {f}, expected under {repo}")
        sys.exit(EXIT_HARNESS)
    return repo


# ---------------------------------------------------------------------------
# known findings
def load_findings(prop: str):
    known, fixed = [], []
    paths = [ROOT / "known_findings.txt"]
    if os.environ.get("VERIF_KNOWN_EXTRA"):  # development aid only (BUILDING.md); never set by MANIFEST commands
        paths.append(Path(os.environ["VERIF_KNOWN_EXTRA"]))
    lines = []
    for path in paths:
        if path.exists():
            lines += path.read_text().splitlines()
    for line in lines:
        line = line.strip()
        if not line or line.startswith("#"):
            continue
        head, _, text = line.partition("::")
        toks = head.split()
        kind = toks[0].rstrip(":")
        fields = dict(t.split("=", 1) for t in toks[1:] if "=" in t)
        if fields.get("property") != prop:
            continue
        entry = {"sig": fields.get("sig", ""), "text": text.strip(), "line": line}
        (known if kind == "known" else fixed).append(entry)
    return known, fixed


def match_known(sig: str, known):
    for k in known:
        if fnmatch.fnmatchcase(sig, k["sig"]):
            return k
    return None


# ---------------------------------------------------------------------------
def _worker(args):
    modname, shard = args
    import torch

    torch.set_num_threads(1)
    mod = importlib.import_module(modname)
    t0 = time.time()
    acc = mod.run_shard(shard)
    acc.info["_shard_s"] = time.time() - t0
    for lst in acc.violations.values():
        for v in lst:
            v.shard = shard  # context for violations that depend on state built up within the shard
    return acc


def _pair_digest(args):
    """Hidden-state probe: run shard A, then shard B in the SAME fresh process; return the digest of B."""
    modname, a, b = args
    if a is not None:
        _worker((modname, a))
    return _worker((modname, b)).digest()


def _shard_sigs(args):
    """Run one shard in a fresh process and return the violation signatures it produces."""
    acc = _worker(args)
    return sorted(acc.violations)


def _child(conn, modname, shard):
    try:
        acc = _worker((modname, shard))
        conn.send(("ok", acc))
    except BaseException as e:  # noqa: BLE001
        import traceback

        try:
            conn.send(("err", f"crashed: {type(e).__name__}: {e} :: {traceback.format_exc()[-600:]}"))
        except Exception:
            pass
    finally:
        conn.close()


def _run_jobs(ctx, modname, jobs, procs, deadline):
    """Run every job (kind, index, shard) in its own forked process, at most `procs` at a time.
    Yields (kind, index, Acc | error string); yields ("cap", None, None) when the deadline passes."""
    from multiprocessing.connection import wait

    pending = list(reversed(jobs))
    active = {}  # conn -> (proc, kind, idx)
    while pending or active:
        while pending and len(active) < procs:
            kind, idx, shard = pending.pop()
            parent, child = ctx.Pipe(duplex=False)
            p = ctx.Process(target=_child, args=(child, modname, shard), daemon=True)
            p.start()
            child.close()
            active[parent] = (p, kind, idx)
        remaining = deadline - time.time()
        if remaining <= 0:
            for conn, (p, _, _) in active.items():
                p.kill()
            yield ("cap", None, None)
            return
        ready = wait(list(active.keys()), timeout=min(remaining, 5.0))
        for conn in ready:
            p, kind, idx = active.pop(conn)
            try:
                status, payload = conn.recv()
            except (EOFError, OSError):
                p.join(5)
                status, payload = "err", f"worker died without a result (exit code {p.exitcode})"
            conn.close()
            p.join(30)
            yield (kind, idx, payload if status == "ok" else str(payload))


def run_check(prop: str, tier: str, seed: int, only: str = "", budget: float = 0.0, procs: int = 0):
    from mc.core import Acc

    modname = CHECKS[prop]
    mod = importlib.import_module(modname)
    t0 = time.time()
    shards = list(mod.shards(tier, seed))
    if only:
        shards = [s for s in shards if only in repr(s)]
    if not shards:
        print("HARNESS-ERROR: no shards")
        return EXIT_HARNESS
    # VERIF_SEED rotates traversal order (never decides a verdict by chance)
    rot = seed % len(shards)
    order = shards[rot:] + shards[:rot]
    if not budget:
        budget = float(os.environ.get("VERIF_BUDGET_S", 900 if tier == "quick" else 5400))
    procs = procs or int(os.environ.get("VERIF_PROCS", os.cpu_count() or 4))
    import multiprocessing as mp

    ctx = mp.get_context("fork")
    total = Acc()
    done = 0
    probe = [order[0], order[-1]] if len(order) > 1 else [order[0]]
    digests = {}
    harness_errors = []
    # Every shard runs in a freshly forked process (own process management instead of a Pool: a worker that dies,
    # e.g. from a segfault inside a native library, is detected at once and reported as a harness error instead of
    # blocking the run). State hidden in the implementation (module-level caches, objects corrupted in place) can
    # therefore never leak from one shard into another.
    jobs = [("shard", i, s) for i, s in enumerate(order)] + [("probe", j, s) for j, s in enumerate(probe)]
    results = {}
    capped = False
    for kind, idx, payload in _run_jobs(ctx, modname, jobs, procs, t0 + budget):
        if kind == "cap":
            capped = True
            break
        results[(kind, idx)] = payload
    next_merge = 0
    for i in range(len(order)):
        r = results.get(("shard", i))
        if r is None:
            continue
        if isinstance(r, str):
            harness_errors.append(f"shard {order[i]!r}: {r}")
            continue
        digests[i] = r.digest()
        total.merge(r)
        done += 1
    if capped:
        total.cap(f"wall-clock budget {budget:.0f}s hit after {done}/{len(order)} shards")
        if tier == "quick":
            # the quick tier is sized to finish well inside its budget; not finishing means something is stuck
            harness_errors.append(f"quick tier did not finish within its budget of {budget:.0f}s ({done}/{len(order)} shards)")
    else:
        # determinism probe: the same shard executed twice in different processes
        for j in range(len(probe)):
            r = results.get(("probe", j))
            idx = 0 if j == 0 else len(order) - 1
            if r is None or isinstance(r, str):
                harness_errors.append(f"determinism probe failed to run: {r}")
            elif idx in digests and digests[idx] != r.digest():
                harness_errors.append(f"nondeterminism: shard {probe[j]!r} gave different results in two executions")
    # Sequence probe for state hidden in the implementation (module-level caches, scratch buffers hoisted out of
    # a function, objects shared between calls): a shard must give bit-identical outcomes whether it runs in a
    # fresh process or right after its neighbouring shard (which typically differs in one factor, e.g. the
    # align_corners flag or the dtype, on the same shapes). Depth-2 exploration over the shard list.
    pair_violations = []
    if done == len(order) and len(order) > 1 and not only and not os.environ.get("VERIF_NO_PAIRS"):
        frac = 0.1 if tier == "quick" else 0.2
        npairs = max(4, min(int(len(order) * frac), 48 if tier == "quick" else 160))
        step = max(1, len(order) // npairs)
        idxs = list(range((seed % step), len(order), step))[:npairs]
        jobs = [(i, order[i - 1], order[i]) for i in idxs]  # order[-1] precedes order[0]
        with ctx.Pool(min(procs, len(jobs)), maxtasksperchild=1) as pool:
            res = pool.map(_pair_digest, [(modname, a, b) for _, a, b in jobs], chunksize=1)
            suspects = [(i, a, b) for (i, a, b), d in zip(jobs, res) if d != digests.get(i)]
            for i, a, b in suspects[:6]:
                # confirm: B alone twice (fresh) identical, and A;B twice identical but different from B alone
                alone = pool.map(_pair_digest, [(modname, None, b)] * 2, chunksize=1)
                after = pool.map(_pair_digest, [(modname, a, b)] * 2, chunksize=1)
                if alone[0] == alone[1] and after[0] == after[1] and alone[0] != after[0]:
                    pair_violations.append((a, b))
                else:
                    harness_errors.append(f"sequence probe unstable for shard {b!r} after {a!r}")
        total.info["sequence_probe_pairs"] = len(jobs)
        total.transitions += 0
    for a, b in pair_violations:
        v_case = {"mode": "pair", "first": a, "then": b}
        total.violation(
            f"{prop}/history-dependence/shard-after-shard",
            v_case,
            f"shard {b!r} gives different outcomes when it runs right after shard {a!r} in the same process than in a fresh process: "
            "results depend on state kept inside the implementation between calls",
            size=0,
        )
    wall = time.time() - t0
    return finish(prop, mod, tier, seed, total, wall, len(order), done, harness_errors)


def finish(prop, mod, tier, seed, total, wall, nshards, done, harness_errors):
    known, fixed = load_findings(prop)
    foreign = os.path.realpath(os.environ.get("VERIF_REPO", "/repo")) != "/repo"
    rep_dir = (Path(os.environ.get("VERIF_TMP", "/var/tmp")) / "deepali-verif-foreign" / "replays" / prop) if foreign else ROOT / "replays" / prop
    unlisted, listed = [], {}
    for sig in sorted(total.violations, key=lambda s: (total.violations[s][0].size, s)):
        v = total.violations[sig][0]
        k = match_known(sig, known)
        rep_dir.mkdir(parents=True, exist_ok=True)
        name = hashlib.sha1(sig.encode()).hexdigest()[:12] + ".json"
        path = rep_dir / name
        path.write_text(
            json.dumps(
                {"property": prop, "sig": sig, "case": v.case, "detail": v.detail, "count": total.viol_count[sig]},
                indent=1,
            )
        )
        if k is None:
            unlisted.append((sig, v, path))
        else:
            listed.setdefault(k["line"], (k, []))[1].append((sig, v, path))

    # Replay every distinct violation twice from its recorded case on fresh objects.
    # - deterministic and reproduced        -> confirmed violation (VIOLATION line, exit 1)
    # - deterministic but not reproduced    -> the violation depended on state carried over from earlier cases of
    #   the same shard (e.g. the implementation corrupted a shared object). It is reported as UNCONFIRMED. If no
    #   violation of this run is confirmed, the run is a harness error (exit 2), never a silent pass.
    # - non-deterministic replay or crash   -> harness error (exit 2)
    confirmed, unconfirmed = [], []
    to_replay = [(x, False) for x in unlisted[:60]] + [(x, True) for _, (_, l) in listed.items() for x in l[:2]]
    for (sig, v, path), is_known in to_replay:
        try:
            if isinstance(v.case, dict) and v.case.get("mode") == "pair":
                r1 = sorted(s for s, _ in replay_pair(prop, v.case))
                r2 = sorted(s for s, _ in replay_pair(prop, v.case))
            else:
                r1 = sorted(s for s, _ in mod.replay(v.case))
                r2 = sorted(s for s, _ in mod.replay(v.case))
        except Exception as e:  # noqa: BLE001
            import traceback

            traceback.print_exc()
            harness_errors.append(f"replay of {sig} crashed: {type(e).__name__}: {e}")
            continue
        if r1 != r2:
            harness_errors.append(f"replay of {sig} not deterministic: {r1} vs {r2}")
        elif sig not in r1:
            if is_known:
                harness_errors.append(f"replay of known finding {sig} did not reproduce it (got {r1[:3]})")
            else:
                unconfirmed.append((sig, v, path))
        elif not is_known:
            confirmed.append((sig, v, path))
    # Violations that need the state built up by earlier cases of their shard: re-run the whole shard in a
    # fresh process (a shard is a deterministic program on fresh objects); if the signature appears again it is
    # confirmed, and its replay file replays the shard.
    if unconfirmed:
        import multiprocessing as mp

        still = []
        by_shard = {}
        for item in unconfirmed:
            sh = getattr(item[1], "shard", None)
            if sh is None:
                still.append(item)
            else:
                by_shard.setdefault(json.dumps(sh, sort_keys=True, default=str), (sh, []))[1].append(item)
        ctx = mp.get_context("fork")
        for key, (sh, items) in list(by_shard.items())[:8]:
            try:
                with ctx.Pool(1, maxtasksperchild=1) as pool:
                    s1 = pool.apply(_shard_sigs, ((CHECKS[prop], sh),))
                with ctx.Pool(1, maxtasksperchild=1) as pool:
                    s2 = pool.apply(_shard_sigs, ((CHECKS[prop], sh),))
            except Exception as e:  # noqa: BLE001
                harness_errors.append(f"shard replay crashed: {type(e).__name__}: {e}")
                still.extend(items)
                continue
            if s1 != s2:
                harness_errors.append(f"shard {sh!r} not deterministic in fresh processes")
                still.extend(items)
                continue
            for sig, v, path in items:
                if sig in s1:
                    data = json.loads(Path(path).read_text())
                    data["shard"] = sh
                    data["mode"] = "shard"
                    Path(path).write_text(json.dumps(data, indent=1, default=str))
                    confirmed.append((sig, v, path))
                else:
                    still.append((sig, v, path))
        for key, (sh, items) in list(by_shard.items())[8:]:
            still.extend(items)
        unconfirmed = still
    if unconfirmed and not confirmed:
        for sig, v, path in unconfirmed[:5]:
            harness_errors.append(f"replay of {sig} did not reproduce it and no other violation was confirmed")
    not_replayed = unlisted[60:]

    for line, (k, lst) in listed.items():
        print(f"KNOWN-FINDING: property={prop} {k['sig']} ({len(lst)} signature(s), e.g. {lst[0][1].detail[:160]}) :: {k['text']}")
    for sig, v, path in (confirmed + not_replayed)[:20]:
        print(f"VIOLATION property={prop} replay={path} sig={sig} :: {v.detail[:300]}")
    if len(confirmed) + len(not_replayed) > 20:
        print(f"... and {len(confirmed) + len(not_replayed) - 20} more distinct violation signatures")
    for sig, v, path in unconfirmed[:10]:
        print(f"UNCONFIRMED (seen during exploration, not reproduced from a fresh state; state carried between cases): sig={sig} :: {v.detail[:200]}")

    # vacuity guard
    min_nt = getattr(mod, "MIN_NONTRIVIAL", {}).get(tier, 2) if isinstance(getattr(mod, "MIN_NONTRIVIAL", 2), dict) else getattr(mod, "MIN_NONTRIVIAL", 2)
    min_out = getattr(mod, "MIN_OUTCOMES", 2)
    if isinstance(min_out, dict):
        min_out = min_out.get(tier, 2)
    if done == nshards and not os.environ.get("VERIF_ONLY"):
        if len(total.nontrivial) < min_nt:
            harness_errors.append(f"vacuous: {len(total.nontrivial)} distinct non-trivial cases < {min_nt}")
        if len(total.outcomes) < min_out:
            harness_errors.append(f"vacuous: {len(total.outcomes)} distinct outcomes < {min_out}")
        for sub, n in getattr(mod, "MIN_SUB_TRACES", {}).items():
            if total.subs.get(sub, 0) < n:
                harness_errors.append(f"vacuous: sub-check {sub} ran {total.subs.get(sub, 0)} traces < {n}")

    exhaustive = (done == nshards) and not total.caps
    samples = total.samples[:8]
    if not samples:
        samples = [{"note": "no sample recorded"}]
    info = {k: v for k, v in total.info.items() if not k.startswith("_")}
    coverage = {
        "states": max(len(total.states), 1) if total.traces else len(total.states),
        "transitions": total.transitions,
        "traces_validated_against_impl": total.traces,
        "samples": samples,
        "evaluations": total.evaluations,
        "distinct_nontrivial": len(total.nontrivial),
        "rule": getattr(mod, "RULE", ""),
        "exhaustive": exhaustive,
        "bounds": mod.bounds(tier) if hasattr(mod, "bounds") else {},
        "max_depth": total.max_depth,
        "distinct_outcomes": len(total.outcomes),
        "traces_per_subcheck": dict(sorted(total.subs.items())),
        "undefined_by_reference": dict(sorted(total.undefined.items())),
        "caps_hit": total.caps,
        "shards": {"total": nshards, "completed": done},
        "known_findings_matched": sorted({k["sig"] for _, (k, _) in listed.items()}),
        "unlisted_violation_signatures": [s for s, _, _ in unlisted][:50],
        "unconfirmed_on_replay": [s for s, _, _ in unconfirmed][:50],
        "explanation": getattr(mod, "EXPLANATION", ""),
        "harness_errors": harness_errors,
    }
    coverage.update(info)
    evidence = {
        "property_id": prop,
        "tier": tier,
        "seed": seed,
        "level": "model_checking",
        "coverage": coverage,
        "assumptions": list(getattr(mod, "ASSUMPTIONS", [])),
        "wall_s": round(wall, 2),
        "violations": len(unlisted),
    }
    ev_dir = ROOT / "evidence"
    ev_dir.mkdir(exist_ok=True)
    if foreign:
        ev_dir = Path(os.environ.get("VERIF_TMP", "/var/tmp")) / "deepali-verif-foreign" / "evidence"
        ev_dir.mkdir(parents=True, exist_ok=True)
    if not os.environ.get("VERIF_ONLY"):
        (ev_dir / f"{prop}.json").write_text(json.dumps(evidence, indent=1, sort_keys=False) + "\n")
    print(
        f"[{prop} {tier} seed={seed}] shards={done}/{nshards} states={len(total.states)} transitions={total.transitions} "
        f"traces={total.traces} outcomes={len(total.outcomes)} nontrivial={len(total.nontrivial)} "
        f"undefined={sum(total.undefined.values())} violations: unlisted={len(unlisted)} known={sum(len(l) for _, (_, l) in listed.items())} "
        f"exhaustive={exhaustive} wall={wall:.1f}s"
    )
    for c in total.caps:
        print(f"CAP: {c}")
    if confirmed or not_replayed:
        # A violation replayed twice from a fresh state with identical outcome is a sound detection whatever else
        # went wrong on this (broken) tree: vacuity or determinism complaints are consequences and printed as notes.
        for h in harness_errors[:20]:
            print(f"NOTE (harness complaint on a tree with confirmed violations): {h}")
        return EXIT_VIOLATION
    if harness_errors:
        for h in harness_errors[:20]:
            print(f"HARNESS-ERROR: {h}")
        return EXIT_HARNESS
    return EXIT_VIOLATION if unlisted else EXIT_OK


def replay_pair(prop: str, case: dict):
    """Replay of a history-dependence violation: shard B alone vs right after shard A, each in a fresh process."""
    import multiprocessing as mp

    ctx = mp.get_context("fork")
    with ctx.Pool(2, maxtasksperchild=1) as pool:
        alone, after = pool.map(_pair_digest, [(CHECKS[prop], None, case["then"]), (CHECKS[prop], case["first"], case["then"])], chunksize=1)
    if alone != after:
        return [(f"{prop}/history-dependence/shard-after-shard", "outcomes of the second shard depend on the shard executed before it in the same process")]
    return []


def run_replay(prop: str, path: str):
    mod = importlib.import_module(CHECKS[prop])
    data = json.loads(Path(path).read_text())
    case = data["case"] if "case" in data else data
    if data.get("mode") == "shard":
        # the violation needs the state built up by the earlier cases of its shard: replay the whole shard
        acc = mod.run_shard(data["shard"])
        res = [(sig, lst[0].detail) for sig, lst in acc.violations.items() if sig == data.get("sig")]
    elif isinstance(case, dict) and case.get("mode") == "pair":
        res = replay_pair(prop, case)
    else:
        res = mod.replay(case)
    known, _ = load_findings(prop)
    rc = EXIT_OK
    if not res:
        print(f"replay {path}: property held (no violation reproduced)")
    for sig, detail in res:
        k = match_known(sig, known)
        if k is not None:
            print(f"KNOWN-FINDING: property={prop} {sig} :: {k['text']} :: {detail[:300]}")
        else:
            print(f"VIOLATION property={prop} replay={path} sig={sig} :: {detail[:400]}")
            rc = EXIT_VIOLATION
    return rc


def main(argv=None):
    ap = argparse.ArgumentParser(prog="vcheck")
    ap.add_argument("property")
    ap.add_argument("--tier", default=os.environ.get("VERIF_TIER", "quick"), choices=["quick", "thorough"])
    ap.add_argument("--replay", default=None)
    ap.add_argument("--only", default="", help="(debug) run only shards whose repr contains this text; no evidence written")
    ap.add_argument("--budget", type=float, default=0.0)
    ap.add_argument("--procs", type=int, default=0)
    ap.add_argument("--list", action="store_true")
    args = ap.parse_args(argv)
    prop = args.property.upper()
    if prop not in CHECKS:
        print(f"unknown property {prop}")
        return EXIT_HARNESS
    try:
        seed = int(os.environ.get("VERIF_SEED", "0"))
    except ValueError:
        seed = 0
    setup_env()
    if args.only:
        os.environ["VERIF_ONLY"] = "1"
    if args.list:
        mod = importlib.import_module(CHECKS[prop])
        for s in mod.shards(args.tier, seed):
            print(s)
        return 0
    if args.replay:
        return run_replay(prop, args.replay)
    return run_check(prop, args.tier, seed, only=args.only, budget=args.budget, procs=args.procs)


if __name__ == "__main__":
    sys.exit(main())
