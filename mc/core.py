"""Core bookkeeping of the bounded explicit-state explorer.

A *check* (checks/cXX_*.py) is a module with

    PROPERTY   = "C03"
    RULE       = "how cases are enumerated; what makes one non-trivial"
    MIN_NONTRIVIAL, MIN_OUTCOMES   (vacuity guard)
    def shards(tier, seed) -> list[picklable shard descriptor]
    def run_shard(shard)    -> Acc              (executed in a forked worker)
    def replay(case)        -> list[(sig, detail)]   (no explorer; plain re-execution)

`Acc` is the accumulator every shard fills.  Counting conventions (DESIGN 2.1):

    state       a distinct canonical key of (implementation object, reference object)
    transition  one executed real API call on a real object (a step of a path / an edge)
    trace       one completed path / history / program / configuration, executed on the
                implementation and judged by the oracle
    outcome     a distinct observation hash (what the implementation returned)
    nontrivial  a distinct case that is non-trivial by the check's RULE
"""
from __future__ import annotations

import hashlib
import json
import traceback
from collections import Counter
from typing import Any, Iterable, List, Optional

import numpy as np


def h64(*objs: Any) -> int:
    """Stable 64-bit hash of a canonical description (bytes / str / repr of plain data)."""
    h = hashlib.blake2b(digest_size=8)
    for o in objs:
        if isinstance(o, bytes):
            h.update(o)
        elif isinstance(o, str):
            h.update(o.encode())
        elif isinstance(o, np.ndarray):
            h.update(str(o.dtype).encode())
            h.update(str(o.shape).encode())
            h.update(np.ascontiguousarray(o).tobytes())
        else:
            h.update(repr(o).encode())
        h.update(b"\x00")
    return int.from_bytes(h.digest(), "little")


def tensor_bytes(t) -> bytes:
    """Exact bit pattern of a torch tensor (dtype, shape, values)."""
    import torch

    if not isinstance(t, torch.Tensor):
        return repr(t).encode()
    a = t.detach().cpu().contiguous()
    if a.dtype == torch.bool:
        a = a.to(torch.uint8)
    return (str(a.dtype) + str(tuple(a.shape))).encode() + a.numpy().tobytes()


def jsonable(x: Any) -> Any:
    """Convert case descriptions to plain JSON data."""
    import enum

    try:
        import torch
    except Exception:  # pragma: no cover
        torch = None
    if isinstance(x, dict):
        return {str(k): jsonable(v) for k, v in x.items()}
    if isinstance(x, (list, tuple)):
        return [jsonable(v) for v in x]
    if isinstance(x, (str, bool, type(None))):
        return x
    if isinstance(x, (int, np.integer)):
        return int(x)
    if isinstance(x, (float, np.floating)):
        return float(x)
    if isinstance(x, np.ndarray):
        return jsonable(x.tolist())
    if isinstance(x, enum.Enum):
        return x.value
    if torch is not None and isinstance(x, torch.Tensor):
        return jsonable(x.detach().cpu().tolist())
    return repr(x)


class Violation:
    __slots__ = ("sig", "case", "detail", "size", "shard")

    def __init__(self, sig: str, case: dict, detail: str, size: int = 0):
        self.sig = sig
        self.case = jsonable(case)
        self.detail = detail
        self.size = size
        self.shard = None

    def as_dict(self):
        return {"sig": self.sig, "case": self.case, "detail": self.detail, "size": self.size}


class Acc:
    """Per-shard accumulator; merged by the runner in shard order."""

    MAX_VIOL_PER_SIG = 3
    MAX_SAMPLES = 4

    def __init__(self):
        self.states: set = set()
        self.outcomes: set = set()
        self.nontrivial: set = set()
        self.transitions = 0
        self.traces = 0
        self.evaluations = 0
        self.undefined: Counter = Counter()
        self.subs: Counter = Counter()  # traces per sub-check
        self.violations: dict = {}  # sig -> list[Violation] (shortest kept)
        self.viol_count: Counter = Counter()
        self.samples: list = []
        self.caps: list = []
        self.max_depth = 0
        self.info: dict = {}

    # -- recording -------------------------------------------------------
    def state(self, *key):
        self.states.add(h64(*key))

    def outcome(self, *key):
        self.outcomes.add(h64(*key))

    def nontriv(self, *key):
        self.nontrivial.add(h64(*key))

    def trans(self, n: int = 1):
        self.transitions += n

    def trace(self, sub: str = "", n: int = 1, depth: int = 0):
        self.traces += n
        self.evaluations += n
        if sub:
            self.subs[sub] += n
        if depth > self.max_depth:
            self.max_depth = depth

    def undef(self, reason: str, n: int = 1):
        self.undefined[reason] += n

    def sample(self, case: Any, force: bool = False):
        if force or len(self.samples) < self.MAX_SAMPLES:
            self.samples.append(jsonable(case))

    def cap(self, text: str):
        if text not in self.caps:
            self.caps.append(text)

    def violation(self, sig: str, case: dict, detail: str, size: int = 0):
        self.viol_count[sig] += 1
        lst = self.violations.setdefault(sig, [])
        lst.append(Violation(sig, case, detail, size))
        lst.sort(key=lambda v: v.size)
        del lst[self.MAX_VIOL_PER_SIG :]

    # -- merging ---------------------------------------------------------
    def merge(self, other: "Acc"):
        self.states |= other.states
        self.outcomes |= other.outcomes
        self.nontrivial |= other.nontrivial
        self.transitions += other.transitions
        self.traces += other.traces
        self.evaluations += other.evaluations
        self.undefined.update(other.undefined)
        self.subs.update(other.subs)
        self.viol_count.update(other.viol_count)
        for sig, lst in other.violations.items():
            cur = self.violations.setdefault(sig, [])
            cur.extend(lst)
            cur.sort(key=lambda v: v.size)
            del cur[self.MAX_VIOL_PER_SIG :]
        room = 12 - len(self.samples)
        if room > 0:
            self.samples.extend(other.samples[: min(room, 2)])
        for c in other.caps:
            self.cap(c)
        self.max_depth = max(self.max_depth, other.max_depth)
        for k, v in other.info.items():
            if isinstance(v, (int, float)) and isinstance(self.info.get(k, 0), (int, float)):
                self.info[k] = self.info.get(k, 0) + v
            else:
                self.info.setdefault(k, v)

    def digest(self) -> str:
        """Digest used by the determinism probe (same shard run twice)."""
        d = (
            sorted(self.states),
            sorted(self.outcomes),
            sorted(self.nontrivial),
            self.transitions,
            self.traces,
            sorted(self.undefined.items()),
            sorted((s, c) for s, c in self.viol_count.items()),
        )
        return hashlib.sha256(repr(d).encode()).hexdigest()


def guarded(fn, *a, **kw):
    """Call the implementation; return ("ok", value) or ("raises", exc).

    The text / origin of the exception are computed at once and its traceback frames are cleared, so that a caught
    exception does not keep the failed call's locals (tensors, file objects, exported buffers) alive.
    """
    try:
        return "ok", fn(*a, **kw)
    except Exception as e:  # noqa: BLE001 - every exception is an outcome
        try:
            e._verif_text = _exc_text(e)
            e._verif_in_deepali = _raised_in_deepali(e)
            traceback.clear_frames(e.__traceback__)
        except Exception:  # pragma: no cover
            pass
        return "raises", e


def exc_sig(e: BaseException) -> str:
    return type(e).__name__


def _exc_text(e: BaseException, limit: int = 300) -> str:
    s = f"{type(e).__name__}: {e}"
    tb = traceback.extract_tb(e.__traceback__)
    where = ""
    for fr in reversed(tb):
        if "deepali" in fr.filename:
            where = f" @ {fr.filename.split('deepali/')[-1]}:{fr.lineno} {fr.name}"
            break
    return (s[:limit] + where).replace("\n", " ")


def exc_text(e: BaseException, limit: int = 300) -> str:
    t = getattr(e, "_verif_text", None)
    return t if t is not None else _exc_text(e, limit)


def _raised_in_deepali(e: BaseException) -> bool:
    tb = traceback.extract_tb(e.__traceback__)
    return any("/deepali/" in fr.filename for fr in tb)


def raised_in_deepali(e: BaseException) -> bool:
    t = getattr(e, "_verif_in_deepali", None)
    return t if t is not None else _raised_in_deepali(e)
