"""Reference model of flow fields (numpy float64, no torch, no deepali).

A flow field is *denoted* by its world-space displacement u(x) at the sample positions x of its grid.
Every representation (GRID, CUBE, CUBE_CORNERS, WORLD) is the image of that one world vector under the
linear part of the grid's coordinate map (ref/grid.py):  v_axes = M(WORLD -> axes) u.

Also: an independent n-linear interpolator in index space with zeros / border padding (the semantics of
torch.nn.functional.grid_sample for these two padding modes is the same for both align_corners
conventions when expressed in index space), and scaling-and-squaring in index units.

Array conventions: tensors have shape (C, *shape) with shape = size[::-1] (..., Y, X); coordinate / vector
components are ordered (x, y, z) in the last axis of point arrays and in the channel axis of fields.
"""
from __future__ import annotations

import itertools
import math

import numpy as np

from ref.grid import AXES, CORNERS, CUBE, GRID, WORLD, RefGrid  # noqa: F401


# ---------------------------------------------------------------------------
def index_points(r: RefGrid) -> np.ndarray:
    """All sample indices as array (*shape, D), last axis ordered (x, y, ...)."""
    n = [int(v) for v in r.n]
    axes = [np.arange(k, dtype=np.float64) for k in n[::-1]]  # slowest first (.., y, x)
    mesh = np.meshgrid(*axes, indexing="ij")
    return np.stack(mesh[::-1], axis=-1)


def world_points(r: RefGrid) -> np.ndarray:
    return r.index_to_world(index_points(r))


def vec_matrix(r: RefGrid, axes: str, to_axes: str) -> np.ndarray:
    """D x D matrix M with v_to = M v_from (linear part of the coordinate map)."""
    A, _ = r.transform(axes, to_axes)
    return A


def to_channels_first(v: np.ndarray) -> np.ndarray:
    """(*shape, D) -> (D, *shape)"""
    return np.moveaxis(v, -1, 0)


def to_channels_last(v: np.ndarray) -> np.ndarray:
    return np.moveaxis(v, 0, -1)


def represent(r: RefGrid, u_world: np.ndarray, axes: str) -> np.ndarray:
    """World field (D, *shape) -> the same field expressed in `axes` (D, *shape)."""
    M = vec_matrix(r, WORLD, axes)
    return to_channels_first(to_channels_last(u_world) @ M.T)


def to_world(r: RefGrid, v: np.ndarray, axes: str) -> np.ndarray:
    M = vec_matrix(r, axes, WORLD)
    return to_channels_first(to_channels_last(v) @ M.T)


# ---------------------------------------------------------------------------
# field menu: the world displacement as an explicit function of world position
def eval_field(field: dict, x: np.ndarray) -> np.ndarray:
    """Evaluate the world displacement of `field` at world points x (..., D) -> (..., D)."""
    c = np.asarray(field["c"], dtype=np.float64)
    y = np.asarray(x, dtype=np.float64) - c
    kind = field["kind"]
    if kind == "affine":
        A = np.asarray(field["A"], dtype=np.float64)
        t = np.asarray(field["t"], dtype=np.float64)
        return y @ A.T + t
    if kind == "smooth":
        W = np.asarray(field["W"], dtype=np.float64)  # (D, D): row d = wave vector of component d
        p = np.asarray(field["p"], dtype=np.float64)
        a = np.asarray(field["a"], dtype=np.float64)
        return a * np.sin(y @ W.T + p)
    raise ValueError(kind)


def field_on_grid(field: dict, r: RefGrid) -> np.ndarray:
    """World displacement sampled on the grid, (D, *shape)."""
    return to_channels_first(eval_field(field, world_points(r)))


_TAB = (
    dict(A2=[[0.32, -0.20], [0.12, 0.24]], t2=[0.70, -0.45],
         A3=[[0.24, -0.16, 0.08], [0.12, 0.20, -0.12], [-0.08, 0.16, 0.28]], t3=[0.60, -0.50, 0.45],
         W=[[1.3, -0.7, 0.4], [0.6, 1.1, -0.9], [-0.5, 0.8, 1.2]], p=[0.3, 1.1, -0.7], a=[0.75, -0.6, 0.5]),
    dict(A2=[[-0.28, 0.16], [0.20, 0.30]], t2=[-0.55, 0.65],
         A3=[[-0.20, 0.12, 0.16], [0.16, 0.28, 0.08], [0.12, -0.20, 0.24]], t3=[-0.45, 0.55, -0.60],
         W=[[0.9, 1.2, -0.6], [-1.1, 0.5, 0.7], [0.7, -0.4, 1.4]], p=[-0.9, 0.4, 1.3], a=[-0.7, 0.55, 0.65]),
    dict(A2=[[0.18, 0.30], [-0.26, 0.14]], t2=[0.40, 0.75],
         A3=[[0.16, 0.24, -0.12], [-0.20, 0.12, 0.16], [0.08, -0.16, -0.26]], t3=[0.50, 0.35, -0.65],
         W=[[-1.2, 0.8, 0.5], [0.9, 1.3, 0.3], [0.4, -1.0, 0.9]], p=[1.7, -0.2, 0.6], a=[0.6, 0.7, -0.55]),
    dict(A2=[[-0.22, -0.26], [0.30, -0.16]], t2=[-0.65, -0.35],
         A3=[[-0.24, -0.12, 0.20], [0.12, -0.22, 0.16], [0.20, 0.08, 0.18]], t3=[-0.55, -0.40, 0.50],
         W=[[1.0, -1.3, 0.7], [0.5, 0.9, 1.1], [-0.8, 0.6, -1.2]], p=[0.8, 2.1, -1.4], a=[-0.65, -0.5, 0.7]),
)


def make_field(kind: str, r: RefGrid, table: int, amp: float = 1.0) -> dict:
    """Explicit field spec (plain data) scaled to the grid: amplitude ~ `amp` x the smallest spacing.

    kind: "affine" (u = A (x - c) + t), "const" (A = 0), "smooth" (component-wise sines), "zero".
    `table` selects one of four fixed tables of generic coefficients (the only use of VERIF_SEED).
    """
    D = r.D
    T = _TAB[table % 4]
    smin = float(r.s.min()) * amp
    L = float(np.max(r.extent)) / 2.0
    c = [float(v) for v in r.c]
    if kind in ("affine", "const", "zero"):
        A = np.asarray(T["A2"] if D == 2 else T["A3"], dtype=np.float64) * (smin / L)
        t = np.asarray(T["t2"] if D == 2 else T["t3"], dtype=np.float64) * smin
        if kind == "const":
            A = A * 0.0
        if kind == "zero":
            A, t = A * 0.0, t * 0.0
        return {"kind": "affine", "name": kind, "c": c, "A": A.tolist(), "t": t.tolist()}
    if kind == "smooth":
        W = np.asarray(T["W"], dtype=np.float64)[:D, :D] * (1.6 / L)
        return {"kind": "smooth", "name": kind, "c": c, "W": W.tolist(), "p": list(T["p"][:D]),
                "a": (np.asarray(T["a"][:D]) * smin).tolist()}
    raise ValueError(kind)


# ---------------------------------------------------------------------------
def interp_linear(arr: np.ndarray, idx: np.ndarray, padding: str = "zeros") -> np.ndarray:
    """n-linear interpolation of arr (C, *shape) at continuous indices idx (..., D) (x first).

    padding "border": indices are clamped to [0, n-1]; "zeros": samples outside the array count as 0
    (a corner of the interpolation cell that lies outside contributes nothing).
    Returns (C, ...).
    """
    arr = np.asarray(arr, dtype=np.float64)
    idx = np.asarray(idx, dtype=np.float64)
    D = idx.shape[-1]
    assert arr.ndim == D + 1
    shape = arr.shape[1:]  # (.., y, x)
    n = np.array(shape[::-1], dtype=np.float64)  # x first
    if padding == "border":
        idx = np.minimum(np.maximum(idx, 0.0), n - 1)
        a = arr
    elif padding == "zeros":
        a = np.pad(arr, [(0, 0)] + [(1, 1)] * D)
        idx = np.minimum(np.maximum(idx, -1.0), n) + 1.0
        n = n + 2
    else:
        raise ValueError(padding)
    lo = np.floor(idx)
    lo = np.maximum(np.minimum(lo, n - 2), 0)
    w = idx - lo  # in [0, 1]
    lo = lo.astype(np.int64)
    out = np.zeros((a.shape[0],) + idx.shape[:-1], dtype=np.float64)
    for corner in itertools.product((0, 1), repeat=D):
        wt = np.ones(idx.shape[:-1], dtype=np.float64)
        sl = []
        for d in range(D):  # d = x, y, z
            k = lo[..., d] + corner[d]
            k = np.minimum(k, int(n[d]) - 1)
            wt = wt * (w[..., d] if corner[d] else (1.0 - w[..., d]))
            sl.append(k)
        # array axes are (.., y, x): reverse
        out += a[(slice(None),) + tuple(sl[::-1])] * wt
    return out


def warp_reference(img: np.ndarray, r: RefGrid, u_world: np.ndarray, padding: str) -> np.ndarray:
    """Image (C, *shape) on grid r sampled at x_i + u(x_i) for every grid point i."""
    u_idx = to_channels_last(represent(r, u_world, GRID))
    return interp_linear(img, index_points(r) + u_idx, padding)


def sample_reference(u_world: np.ndarray, r: RefGrid, target: RefGrid, padding: str) -> np.ndarray:
    """World field on grid r resampled at the sample positions of `target` -> (D, *target shape), world."""
    x = world_points(target)
    idx = r.world_to_index(x)
    return interp_linear(u_world, idx, padding)


def exp_reference(u_world: np.ndarray, r: RefGrid, scale: float, steps: int) -> np.ndarray:
    """Scaling and squaring with linear interpolation and border padding, world result."""
    d = represent(r, u_world, GRID) * (scale / 2.0 ** steps)
    base = index_points(r)
    for _ in range(steps):
        d = d + interp_linear(d, base + to_channels_last(d), "border")
    return to_world(r, d, GRID)


def inside_mask(r: RefGrid, idx: np.ndarray, margin: float = 1e-3) -> np.ndarray:
    """True where continuous index idx (..., D) lies within the sample hull [0, n-1] by `margin`."""
    n = r.n
    return np.all((idx >= margin) & (idx <= n - 1 - margin), axis=-1)


def cond_spacing(r: RefGrid) -> float:
    return float(r.s.max() / r.s.min())


def ramp_image(r: RefGrid, extra: bool = True) -> np.ndarray:
    """Image (D[+1], *shape): centred world coordinates of every sample (+ one non-linear channel)."""
    x = world_points(r) - r.c
    ch = [x[..., d] for d in range(r.D)]
    if extra:
        i = index_points(r)
        ph = sum((d + 1) * 0.9 * i[..., d] for d in range(r.D))
        ch.append(np.sin(ph) * float(r.s.max()))
    return np.stack(ch, axis=0)


def rot_about(D: int, deg: float) -> np.ndarray:
    """Rotation used to derive differently oriented target grids."""
    a = math.radians(deg)
    R = np.eye(D)
    R[0, 0], R[0, 1], R[1, 0], R[1, 1] = math.cos(a), -math.sin(a), math.sin(a), math.cos(a)
    if D == 3:
        b = a / 2
        Rx = np.array([[1, 0, 0], [0, math.cos(b), -math.sin(b)], [0, math.sin(b), math.cos(b)]])
        R = R @ Rx
    return R
