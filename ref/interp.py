"""Reference interpolation in index space (numpy float64, written from the documented semantics).

Conventions
-----------
* image arrays are in *tensor order*  (C, [Z,] Y, X)      (last axis = grid axis 0 = x)
* points / continuous indices are in *grid order* (x, y[, z]), shape (M, D)

Interpolation semantics (the ones torch documents for ``grid_sample`` and deepali documents for ``padding``)
* linear : D-linear blend of the 2^D neighbouring samples floor(t), floor(t)+1
* nearest: the sample at round-half-to-even(t)   (ties are excluded by callers, see ``near_tie``)
* padding "zeros"    : samples outside the array contribute 0
* padding "constant" : samples outside the array contribute the constant c
* padding "border"   : the coordinate is clamped to [0, n-1] first

Also: footprint helpers used to propagate *validity masks* (which output samples are determined only by
valid input samples) through separable operators.
"""
from __future__ import annotations

import itertools
from typing import List, Sequence

import numpy as np


# ---------------------------------------------------------------------------
def _gather(src: np.ndarray, idx: np.ndarray, fill: float) -> np.ndarray:
    """src (C, *shape) tensor order; idx (M, D) integer indices in grid order. Returns (C, M); `fill` outside."""
    C = src.shape[0]
    shape = src.shape[1:]
    D = len(shape)
    n = np.array(shape[::-1])  # grid order sizes
    inside = np.all((idx >= 0) & (idx < n), axis=1)
    out = np.full((C, idx.shape[0]), float(fill), dtype=np.float64)
    if inside.any():
        ii = idx[inside]
        tidx = tuple(ii[:, D - 1 - a] for a in range(D))  # tensor axis a <-> grid axis D-1-a
        out[:, inside] = src[(slice(None),) + tidx]
    return out


def interp(src: np.ndarray, pts: np.ndarray, mode: str = "linear", padding: str = "zeros", cval: float = 0.0) -> np.ndarray:
    """Interpolate `src` (C, *shape) at continuous indices `pts` (M, D) (grid order). Returns (C, M)."""
    src = np.asarray(src, dtype=np.float64)
    pts = np.asarray(pts, dtype=np.float64)
    D = src.ndim - 1
    assert pts.ndim == 2 and pts.shape[1] == D
    n = np.array(src.shape[1:][::-1], dtype=np.float64)
    if padding == "border":
        pts = np.clip(pts, 0.0, n - 1)
        fill = 0.0
    elif padding == "zeros":
        fill = 0.0
    elif padding == "constant":
        fill = float(cval)
    else:
        raise ValueError(padding)
    if mode == "nearest":
        idx = np.rint(pts).astype(np.int64)  # round half to even
        return _gather(src, idx, fill)
    if mode != "linear":
        raise ValueError(mode)
    lo = np.floor(pts)
    fr = pts - lo
    lo = lo.astype(np.int64)
    out = np.zeros((src.shape[0], pts.shape[0]), dtype=np.float64)
    for corner in itertools.product((0, 1), repeat=D):
        c = np.array(corner)
        w = np.prod(np.where(c == 1, fr, 1.0 - fr), axis=1)
        out += w[None, :] * _gather(src, lo + c, fill)
    return out


def inside_fov(pts: np.ndarray, n: Sequence[float], eps: float = 1e-6) -> np.ndarray:
    """Continuous index inside the hull of the sample centres [0, n-1]^D (closed, with a float slack)."""
    pts = np.asarray(pts, dtype=np.float64)
    n = np.asarray(n, dtype=np.float64)
    return np.all((pts >= -eps) & (pts <= n - 1 + eps), axis=1)


def knife_edge(pts: np.ndarray, n: Sequence[float], eps: float = 1e-6, band: float = 1e-3) -> np.ndarray:
    """Outside [0,n-1]^D by more than eps but less than `band` on some axis: verdict would depend on rounding."""
    pts = np.asarray(pts, dtype=np.float64)
    n = np.asarray(n, dtype=np.float64)
    below = (pts < -eps) & (pts > -band)
    above = (pts > n - 1 + eps) & (pts < n - 1 + band)
    return np.any(below | above, axis=1)


def near_tie(pts: np.ndarray, band: float = 1e-3) -> np.ndarray:
    """Nearest-neighbour tie: some coordinate within `band` of a half-integer."""
    pts = np.asarray(pts, dtype=np.float64)
    fr = pts - np.floor(pts)
    return np.any(np.abs(fr - 0.5) < band, axis=1)


def grid_indices(n: Sequence[int]) -> np.ndarray:
    """All integer indices of a grid of size n (grid order), as (M, D) in *tensor raster order*
    (x fastest), i.e. row m of the result corresponds to flat position m of an array of shape n[::-1]."""
    n = [int(v) for v in n]
    D = len(n)
    axes = [np.arange(n[D - 1 - a]) for a in range(D)]  # tensor axes: (z,) y, x
    mesh = np.meshgrid(*axes, indexing="ij")
    cols = [mesh[D - 1 - d].reshape(-1) for d in range(D)]  # grid axis d <-> tensor axis D-1-d
    return np.stack(cols, axis=1).astype(np.float64)


# ---------------------------------------------------------------------------
# validity-mask propagation
def linear_support(t: np.ndarray, n: int, eps: float = 1e-7):
    """Per output sample of a 1-D linear interpolation at continuous source index t[j] into n samples:
    the list of contributing source indices, or None if the position is outside [0, n-1]."""
    sets = []
    for v in np.asarray(t, dtype=np.float64):
        if v < -eps or v > n - 1 + eps:
            sets.append(None)
            continue
        v = min(max(v, 0.0), float(n - 1))
        lo = int(np.floor(v + eps))
        fr = v - lo
        if abs(fr) <= 1e-6 or lo >= n - 1:
            sets.append([min(lo, n - 1)])
        else:
            sets.append([lo, lo + 1])
    return sets


def axis_all(mask: np.ndarray, axis: int, sets: List) -> np.ndarray:
    """out[..., j, ...] = AND of mask[..., i, ...] for i in sets[j]  (False if sets[j] is None / out of range)."""
    mask = np.asarray(mask, dtype=bool)
    m = np.moveaxis(mask, axis, 0)
    out = np.zeros((len(sets),) + m.shape[1:], dtype=bool)
    for j, s in enumerate(sets):
        if s is None or len(s) == 0:
            continue
        if any(i < 0 or i >= m.shape[0] for i in s):
            continue
        v = m[s[0]].copy()
        for i in s[1:]:
            v &= m[i]
        out[j] = v
    return np.moveaxis(out, 0, axis)


def points_valid(mask: np.ndarray, pts: np.ndarray, eps: float = 1e-7) -> np.ndarray:
    """For D-linear interpolation at continuous indices pts (M, D) (grid order) into an array with validity
    `mask` (tensor order): True where the position is inside [0,n-1]^D and every contributing sample is valid."""
    mask = np.asarray(mask, dtype=bool)
    D = mask.ndim
    n = np.array(mask.shape[::-1], dtype=np.float64)
    pts = np.asarray(pts, dtype=np.float64)
    ok = inside_fov(pts, n, eps)
    p = np.clip(pts, 0.0, n - 1)
    lo = np.floor(p + eps)
    fr = p - lo
    lo = lo.astype(np.int64)
    out = ok.copy()
    src = mask[None].astype(np.float64)
    for corner in itertools.product((0, 1), repeat=D):
        c = np.array(corner)
        used = np.all(np.where(c == 1, fr > 1e-6, True), axis=1)  # a corner with weight 0 does not contribute
        val = _gather(src, lo + c, 0.0)[0] > 0.5
        out &= np.where(used, val, True)
    return out
