"""Reference algebra for flow / velocity fields on the normalised cube (C11, C13).

Boring float64 numpy, written from the property statements, no torch, no deepali:

* sample positions of a lattice in the normalised cube for both ``align_corners`` conventions
  (ac=True: c_i = 2i/(n-1) - 1, ac=False: c_i = (2i+1)/n - 1),
* affine vector fields d(x) = M [x; 1] given by a homogeneous (D+1)x(D+1) matrix M with last row zero,
* the domain predicate "the affine map keeps the sample hull invariant" (the hull is the box spanned by
  the first and last sample of every axis; inside it multilinear interpolation of an affine field is exact),
* closed forms: scaling and squaring ((I+G/2^k)^(2^k) - I), matrix exponential / logarithm,
  composition of affine displacement fields, commutators, documented BCH partial sums,
* a multilinear interpolator with border clamping in index space and, on top of it, reference
  composition and scaling-and-squaring of arbitrary sampled fields,
* deterministic smooth band-limited fields that vanish on the first and last sample of every axis,
  with the amplitude given in samples.

Conventions: tensors of fields are channels-first ``(D, ..., Y, X)`` with channel 0 = x component
(x = LAST tensor dimension), exactly as deepali stores flow fields. Vector quantities that are indexed
by axis (half widths, sizes ``n``) are x-first.
"""
from __future__ import annotations

import itertools
from typing import Sequence, Tuple

import numpy as np


# ---------------------------------------------------------------------------
# lattices
def cube_axis(n: int, ac: bool) -> np.ndarray:
    i = np.arange(n, dtype=np.float64)
    if n == 1:
        return np.zeros(1)
    return 2.0 * i / (n - 1) - 1.0 if ac else (2.0 * i + 1.0) / n - 1.0


def cube_points(shape: Sequence[int], ac: bool) -> np.ndarray:
    """Array ``shape + (D,)`` of sample positions, last dimension ordered (x, y[, z])."""
    axes = [cube_axis(int(n), ac) for n in shape]
    mg = np.meshgrid(*axes, indexing="ij")
    return np.stack(mg[::-1], axis=-1)


def sizes_xfirst(shape: Sequence[int]) -> np.ndarray:
    return np.array([int(n) for n in shape][::-1], dtype=np.float64)


def half_widths(shape: Sequence[int], ac: bool) -> np.ndarray:
    """Half width of the sample hull per axis (x-first): 1 for ac=True, 1 - 1/n for ac=False."""
    n = sizes_xfirst(shape)
    return np.ones_like(n) if ac else 1.0 - 1.0 / n


def samples_per_unit(shape: Sequence[int], ac: bool) -> np.ndarray:
    """Factor that converts a normalised displacement into samples, per axis (x-first)."""
    n = sizes_xfirst(shape)
    return (n - 1.0) / 2.0 if ac else n / 2.0


# ---------------------------------------------------------------------------
# affine fields
def hom(H, t) -> np.ndarray:
    H = np.asarray(H, dtype=np.float64)
    t = np.asarray(t, dtype=np.float64)
    D = H.shape[0]
    G = np.zeros((D + 1, D + 1))
    G[:D, :D] = H
    G[:D, D] = t
    return G


def affine_field(M: np.ndarray, shape: Sequence[int], ac: bool) -> np.ndarray:
    """Displacement field d(x) = (M [x;1])[:D] sampled on the lattice, channels first."""
    X = cube_points(shape, ac)
    D = X.shape[-1]
    Xh = np.concatenate([X, np.ones(X.shape[:-1] + (1,))], axis=-1)
    d = Xh @ np.asarray(M, dtype=np.float64).T
    return np.ascontiguousarray(np.moveaxis(d[..., :D], -1, 0))


def norm_inf(M: np.ndarray) -> float:
    """Bound of |M [x;1]|_inf over the cube |x|_inf <= 1."""
    M = np.asarray(M, dtype=np.float64)
    D = M.shape[0] - 1
    return float(np.abs(M[:D]).sum(axis=1).max())


def maps_hull_into_itself(A: np.ndarray, h: np.ndarray, margin: float = 1e-6) -> bool:
    """y = A [x;1] maps the box |x_j| <= h_j into itself with a relative margin."""
    D = A.shape[0] - 1
    M, m = np.abs(A[:D, :D]), np.abs(A[:D, D])
    return bool(np.all(M @ h + m <= h * (1.0 - margin)))


def ss_admissible(G: np.ndarray, steps: int, shape: Sequence[int], ac: bool) -> bool:
    """Every sampling step of scaling and squaring with generator G stays inside the sample hull."""
    D = G.shape[0] - 1
    h = half_widths(shape, ac)
    A = np.eye(D + 1) + G / 2.0 ** steps
    for _ in range(steps):
        if not maps_hull_into_itself(A, h):
            return False
        A = A @ A
    return True


def ss_closed(G: np.ndarray, steps: int) -> np.ndarray:
    """Displacement matrix (I + G/2^k)^(2^k) - I."""
    D1 = G.shape[0]
    A = np.eye(D1) + G / 2.0 ** steps
    for _ in range(steps):
        A = A @ A
    return A - np.eye(D1)


def expm(G: np.ndarray) -> np.ndarray:
    G = np.asarray(G, dtype=np.float64)
    s = 0
    nrm = np.abs(G).sum(axis=1).max()
    while nrm / 2.0 ** s > 0.25:
        s += 1
    B = G / 2.0 ** s
    E = np.eye(G.shape[0])
    term = np.eye(G.shape[0])
    for k in range(1, 30):
        term = term @ B / k
        E = E + term
    for _ in range(s):
        E = E @ E
    return E


def logm(M: np.ndarray) -> np.ndarray:
    """Principal logarithm of a matrix close to the identity (fixed-point iteration on expm)."""
    M = np.asarray(M, dtype=np.float64)
    n = M.shape[0]
    W = M - np.eye(n)
    for _ in range(200):
        R = M @ expm(-W) - np.eye(n)
        W = W + R
        if np.abs(R).max() < 1e-16:
            break
    if np.abs(expm(W) - M).max() > 1e-12:
        raise ArithmeticError("reference logm did not converge")
    return W


def compose_affine(U: np.ndarray, V: np.ndarray) -> np.ndarray:
    """Displacement matrix of w(x) = u(x) + v(x + u(x)) for displacement matrices U (first), V (second)."""
    D1 = U.shape[0]
    return U + V @ (np.eye(D1) + U)


def comm(A: np.ndarray, B: np.ndarray) -> np.ndarray:
    """Matrix of the affine field Jac(a) b - Jac(b) a for affine fields a = A[x;1], b = B[x;1]."""
    return A @ B - B @ A


def bch_series(U: np.ndarray, V: np.ndarray, terms: int) -> np.ndarray:
    """Documented partial sums of compose_svfs (u applied first): v + u + 1/2[v,u] + 1/12[v,[v,u]]
    - 1/12[u,[v,u]] - 1/48[u,[v,[v,u]]] - 1/48[u,[v,[v,u]]]."""
    W = V + U
    if terms >= 1:
        vu = comm(V, U)
        W = W + vu / 2.0
    if terms >= 2:
        vvu = comm(V, vu)
        W = W + vvu / 12.0
    if terms >= 3:
        W = W - comm(U, vu) / 12.0
    if terms >= 4:
        uvvu = comm(U, vvu)
        W = W - uvvu * ((1.0 if terms == 4 else 2.0) / 48.0)
    return W


# ---------------------------------------------------------------------------
# sampled fields
def interp_linear(f: np.ndarray, idx: np.ndarray) -> np.ndarray:
    """Multilinear interpolation with border clamping.

    f:   (C, ..., Y, X) samples;  idx: (..., D) continuous indices, last dim ordered (x, y[, z]).
    Returns (C,) + idx.shape[:-1].
    """
    f = np.asarray(f, dtype=np.float64)
    shape = f.shape[1:]
    D = len(shape)
    lo, fr = [], []
    for c in range(D):  # c = x-first axis; tensor dim = D-1-c
        n = shape[D - 1 - c]
        p = np.clip(idx[..., c], 0.0, n - 1.0)
        i0 = np.floor(p)
        i0 = np.clip(i0, 0, max(n - 2, 0))
        lo.append(i0.astype(np.int64))
        fr.append(p - i0)
    out = np.zeros((f.shape[0],) + idx.shape[:-1])
    for corner in itertools.product((0, 1), repeat=D):
        w = np.ones(idx.shape[:-1])
        ind = [None] * D
        for c in range(D):
            n = shape[D - 1 - c]
            ii = np.minimum(lo[c] + corner[c], n - 1)
            ind[D - 1 - c] = ii
            w = w * (fr[c] if corner[c] else 1.0 - fr[c])
        out += w * f[(slice(None),) + tuple(ind)]
    return out


def index_points(shape: Sequence[int]) -> np.ndarray:
    axes = [np.arange(int(n), dtype=np.float64) for n in shape]
    mg = np.meshgrid(*axes, indexing="ij")
    return np.stack(mg[::-1], axis=-1)


def to_samples(d: np.ndarray, ac: bool) -> np.ndarray:
    """Normalised displacement field (D, ...) -> displacement in samples."""
    shape = d.shape[1:]
    k = samples_per_unit(shape, ac)
    return d * k.reshape((-1,) + (1,) * len(shape))


def from_samples(d: np.ndarray, ac: bool) -> np.ndarray:
    shape = d.shape[1:]
    k = samples_per_unit(shape, ac)
    return d / k.reshape((-1,) + (1,) * len(shape))


def compose_ref(u: np.ndarray, v: np.ndarray, ac: bool) -> np.ndarray:
    """w(x) = u(x) + v(x + u(x)), v interpolated multilinearly (border clamped)."""
    shape = u.shape[1:]
    idx = index_points(shape) + np.moveaxis(to_samples(u, ac), 0, -1)
    return u + interp_linear(v, idx)


def expv_ref(v: np.ndarray, steps: int, ac: bool, scale: float = 1.0) -> np.ndarray:
    d = np.asarray(v, dtype=np.float64) * (scale / 2.0 ** steps)
    for _ in range(steps):
        d = compose_ref(d, d, ac)
    return d


_SMOOTH_TABLES = [
    # per component: (relative weight, frequencies per axis x,y,z, second-term weight, frequencies)
    [(1.0, (1, 1, 1), 0.35, (2, 1, 1)), (-0.8, (1, 2, 1), 0.3, (1, 1, 2)), (0.7, (1, 1, 2), -0.4, (2, 2, 1))],
    [(0.9, (1, 1, 1), -0.4, (1, 2, 1)), (1.0, (2, 1, 1), 0.25, (1, 1, 1)), (-0.6, (1, 2, 1), 0.5, (1, 1, 1))],
    [(-1.0, (1, 1, 1), 0.3, (2, 2, 1)), (0.75, (1, 1, 1), -0.45, (2, 1, 1)), (0.8, (2, 1, 1), 0.2, (1, 2, 2))],
    [(0.85, (1, 1, 1), 0.45, (1, 1, 2)), (-1.0, (1, 2, 1), -0.3, (2, 1, 1)), (0.65, (1, 1, 1), 0.35, (2, 1, 2))],
]
_SMOOTH_TABLES_B = [
    [(0.7, (2, 1, 1), -0.5, (1, 1, 1)), (1.0, (1, 1, 1), 0.4, (1, 2, 1)), (-0.9, (2, 1, 1), 0.3, (1, 1, 1))],
    [(-0.8, (1, 2, 1), 0.5, (1, 1, 1)), (0.6, (1, 1, 1), 0.5, (2, 2, 1)), (1.0, (1, 1, 1), -0.3, (1, 2, 1))],
    [(1.0, (2, 1, 1), 0.3, (1, 2, 1)), (-0.7, (1, 2, 1), 0.45, (1, 1, 1)), (0.6, (1, 1, 1), 0.4, (1, 1, 2))],
    [(-0.9, (1, 1, 1), 0.5, (2, 1, 1)), (0.8, (2, 2, 1), 0.3, (1, 1, 1)), (1.0, (1, 2, 1), -0.25, (1, 1, 1))],
]


def smooth_field_samples(shape: Sequence[int], which: str, table: int, amplitude: float) -> np.ndarray:
    """Band-limited field (sum of two sine products per component) that vanishes on the first and last
    sample of every axis; max |component| == amplitude (in samples). which in {"a", "b"}."""
    D = len(shape)
    tab = (_SMOOTH_TABLES if which == "a" else _SMOOTH_TABLES_B)[table % 4]
    t = [np.arange(int(n), dtype=np.float64) / (int(n) - 1) for n in shape]  # tensor order
    mg = np.meshgrid(*t, indexing="ij")
    tx = mg[::-1]  # x-first
    comps = []
    for c in range(D):
        w1, f1, w2, f2 = tab[c]
        a = np.ones(tuple(int(n) for n in shape))
        b = np.ones(tuple(int(n) for n in shape))
        for j in range(D):
            a = a * np.sin(np.pi * f1[j] * tx[j])
            b = b * np.sin(np.pi * f2[j] * tx[j])
        comps.append(w1 * a + w2 * b)
    f = np.stack(comps, axis=0)
    # exact zeros on the boundary samples (sin(pi*f) is 1e-16, not 0)
    for d in range(D):
        sl0 = [slice(None)] * (D + 1)
        sl1 = [slice(None)] * (D + 1)
        sl0[d + 1] = 0
        sl1[d + 1] = -1
        f[tuple(sl0)] = 0.0
        f[tuple(sl1)] = 0.0
    return f * (amplitude / np.abs(f).max())


def smooth_field(shape: Sequence[int], ac: bool, which: str, table: int, amplitude: float) -> np.ndarray:
    """The same field in normalised units of the given convention."""
    return from_samples(smooth_field_samples(shape, which, table, amplitude), ac)


_GENERIC_FIELD = [
    ((1.3, 0.7, -0.9), (0.9, -1.1, 0.6), (0.4, 1.7, 2.3)),
    ((-1.1, 0.8, 1.2), (1.4, 0.5, -0.7), (1.9, 0.3, 1.1)),
    ((0.9, -1.3, 0.8), (-0.6, 1.2, 1.0), (2.1, 0.8, 0.2)),
    ((1.2, 1.0, -0.6), (0.7, -0.9, 1.3), (0.6, 2.4, 1.5)),
]


def generic_field(shape: Sequence[int], ac: bool, table: int, amplitude: float) -> np.ndarray:
    """Deterministic non-affine field that does not vanish anywhere in particular (any shape >= 1 per axis);
    max |component| <= amplitude, in cube units. For relations between calls that need no domain predicate."""
    X = cube_points(shape, ac)
    D = X.shape[-1]
    wa, wb, ph = _GENERIC_FIELD[table % 4]
    comps = []
    for c in range(D):
        a = sum(wa[(c + j) % 3] * X[..., j] for j in range(D)) + ph[c]
        b = sum(wb[(c + 2 * j) % 3] * X[..., j] for j in range(D)) - ph[(c + 1) % 3]
        comps.append(amplitude * (0.6 * np.sin(a) + 0.4 * np.cos(b)))
    return np.stack(comps, axis=0)
