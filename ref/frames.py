"""Frame-graph helpers shared by C01 / C02 (numpy float64, independent of deepali).

* the common grid lattice G(D) of DESIGN section 4
* signed permutation matrices, fixed tables of generic rotations (chosen by VERIF_SEED, never random)
* error-bound helpers for affine maps between frames of RefGrid objects
"""
from __future__ import annotations

import itertools
import math

import numpy as np

from ref import grid as rg
from ref.grid import CORNERS, CUBE, GRID, WORLD, RefGrid

EPS32 = 2.0 ** -23
C = 64.0


# ---------------------------------------------------------------------------
def signed_permutations(D: int, proper=None):
    """All signed permutation matrices of dimension D (8 for D=2, 48 for D=3).

    proper=True -> det=+1 only, proper=False -> det=-1 only, None -> all.  Deterministic order.
    """
    out = []
    for perm in itertools.permutations(range(D)):
        for signs in itertools.product((1.0, -1.0), repeat=D):
            M = np.zeros((D, D))
            for col, row in enumerate(perm):
                M[row, col] = signs[col]
            det = round(float(np.linalg.det(M)))
            if proper is True and det != 1:
                continue
            if proper is False and det != -1:
                continue
            out.append(M)
    return out


_ANGLES2 = (
    (33.0, -71.0, 112.0, 160.5, -12.25, 250.0),
    (57.0, -21.0, 101.0, 175.0, -133.0, 7.5),
    (-21.0, 44.0, 95.5, -160.0, 201.0, 66.6),
    (112.0, 13.0, -47.0, 289.0, -95.0, 178.0),
)
_ANGLES3 = (
    ((0.3, -0.5, 0.7), (1.1, 0.4, -0.9), (-2.0, 0.8, 0.2), (2.9, -0.3, 1.3), (0.05, 1.5, -3.0), (-1.2, -1.0, 2.2)),
    ((1.1, 0.4, -0.9), (-0.6, 0.8, 0.2), (2.0, -0.3, 1.3), (0.3, 1.2, -2.5), (-3.0, 0.1, 0.6), (0.9, -1.4, 1.9)),
    ((-0.6, 0.8, 0.2), (2.0, -0.3, 1.3), (0.3, -0.5, 0.7), (1.7, 1.1, -0.2), (-2.4, -0.9, 3.0), (0.4, 0.05, -1.6)),
    ((2.0, -0.3, 1.3), (0.3, -0.5, 0.7), (1.1, 0.4, -0.9), (-1.9, 1.3, 0.35), (2.6, -1.1, -2.2), (-0.15, 0.65, 1.0)),
)


def generic_rotations(D: int, seed: int = 0, count: int = 6):
    """`count` (<= 6) fixed generic proper rotations; the table is chosen by the seed."""
    if D == 2:
        return [rg.rot2(a) for a in _ANGLES2[seed % 4][:count]]
    return [rg.rot3(*a) for a in _ANGLES3[seed % 4][:count]]


# ---------------------------------------------------------------------------
def lattice(D: int, tier: str, seed: int = 0):
    """Common grid lattice G(D): list of spec dicts {size, spacing, origin, direction, ac, dir, tag}.

    thorough: D=2 all 16 ordered size pairs x 6 of the 12 (spacing, origin, direction) combinations
    (alternating, so every combination occurs with 8 size pairs) x both flags = 192 grids; D=3 the full
    product = 96 grids.  quick: a covering subset in which every value of every factor occurs with both
    align_corners flags (24 + 14 grids).
    """
    dirs = rg.direction_menu(D, seed)
    if D == 2:
        sizes = [(a, b) for a in (2, 3, 5, 8) for b in (2, 3, 5, 8)]
        sp = [(1.0, 1.0), (0.5, 1.25)]
        orgs = [(0.0, 0.0), (10.5, -3.25)]
    else:
        sizes = [(2, 3, 4), (5, 5, 5), (3, 8, 2), (4, 2, 7)]
        sp = [(1.0, 1.0, 1.0), (0.5, 1.25, 2.0)]
        orgs = [(0.0, 0.0, 0.0), (10.5, -3.25, 100.0)]
    dnames = ("id", "perm", "rot")
    out = []
    for zi, size in enumerate(sizes):
        for si, s in enumerate(sp):
            for oi, o in enumerate(orgs):
                for di, dn in enumerate(dnames):
                    if tier == "quick":
                        # covering subset: (size, spacing, origin, direction) combined Latin-square style
                        if D == 2:
                            if (zi + si * 5 + oi * 7 + di * 3) % 16 != 0:
                                continue
                        else:
                            if (zi + si + oi * 2 + di) % 6 != 0:
                                continue
                    elif D == 2 and (zi + si * 6 + oi * 3 + di) % 2 != 0 and (zi + si * 5 + oi * 7 + di * 3) % 16 != 0:
                        continue  # thorough, D=2: every size pair with half of the 12 (spacing, origin, direction) combinations, plus the quick subset
                    for ac in (True, False):
                        out.append(
                            {
                                "size": list(size),
                                "spacing": list(s),
                                "origin": list(o),
                                "direction": dirs[dn],
                                "ac": ac,
                                "dir": dn,
                            }
                        )
    return out


# ---------------------------------------------------------------------------
def world_mag(r: RefGrid) -> np.ndarray:
    """Componentwise bound on the world-space quantities a float32 evaluation of the maps of `r`
    goes through (center, origin offset, extent)."""
    return np.abs(r.c) + np.abs(r.R) @ (r.s * np.maximum(r.n, 1.0))


def tol_points(src: RefGrid, ax1: str, dst: RefGrid, ax2: str, x: np.ndarray) -> float:
    """Derived float32 error bound for y = dst.to_world(ax2)^-1 (src.to_world(ax1)(x)).

    C * eps32 * ( |L2^-1| (|A1||x| + mag(src) + mag(dst)) + |y| ), maximised over the points.
    """
    A1, b1 = src.to_world(ax1)
    A2, b2 = dst.to_world(ax2)
    L2i = np.abs(np.linalg.inv(A2))
    x = np.atleast_2d(np.asarray(x, dtype=np.float64))
    inner = np.abs(x) @ np.abs(A1).T + world_mag(src) + world_mag(dst)
    y = (x @ A1.T + b1 - b2) @ np.linalg.inv(A2).T
    bound = inner @ L2i.T + np.abs(y)
    return float(C * EPS32 * bound.max())


def tol_vectors(src: RefGrid, ax1: str, dst: RefGrid, ax2: str, v: np.ndarray) -> float:
    A1, _ = src.to_world(ax1)
    A2, _ = dst.to_world(ax2)
    L = np.abs(np.linalg.inv(A2)) @ np.abs(A1)
    v = np.atleast_2d(np.asarray(v, dtype=np.float64))
    return float(C * EPS32 * (np.abs(v) @ L.T).max()) + 1e-30


def lin_norm(src: RefGrid, ax1: str, dst: RefGrid, ax2: str) -> float:
    """Infinity norm of the linear part of the map (propagation factor of an error bound)."""
    A1, _ = src.to_world(ax1)
    A2, _ = dst.to_world(ax2)
    L = np.linalg.inv(A2) @ A1
    return float(np.abs(L).sum(axis=1).max())


def rounding_term(ax2: str, decimals) -> float:
    """Half a unit of the documented default rounding of apply_transform (decimals=-1)."""
    if decimals == -1:
        if ax2 == GRID:
            return 0.5e-6
        if ax2 in (CUBE, CORNERS):
            return 0.5e-12
        return 0.0
    if decimals is None:
        return 0.0
    return 0.5 * 10.0 ** (-int(decimals))


def index_lattice(n: np.ndarray) -> np.ndarray:
    """Integer index array of shape (..., X, D) (x first in the last axis) for size n = (X, ...)."""
    D = len(n)
    axes = [np.arange(int(n[d])) for d in reversed(range(D))]  # slowest axis first: (..., X)
    mesh = np.meshgrid(*axes, indexing="ij")
    return np.stack(mesh[::-1], axis=-1).astype(np.float64)


def _selfcheck():  # pragma: no cover - executed by hand
    assert len(signed_permutations(2)) == 8 and len(signed_permutations(3)) == 48
    assert len(signed_permutations(3, True)) == 24 and len(signed_permutations(2, True)) == 4
    idx = index_lattice(np.array([3, 2]))
    assert idx.shape == (2, 3, 2) and idx[1, 2].tolist() == [2.0, 1.0]
    for R in generic_rotations(3, 1):
        assert abs(np.linalg.det(R) - 1) < 1e-12
    assert math.isclose(lin_norm(RefGrid((4, 4)), GRID, RefGrid((4, 4)), GRID), 1.0)


if __name__ == "__main__":
    _selfcheck()
    for D in (2, 3):
        for t in ("quick", "thorough"):
            print(D, t, len(lattice(D, t)))
