"""Reference denotation of deepali spatial transforms for the stateful check C09 (numpy float64).

A transform is described by a list of *members* (composition order = list order).  Every member is a
plain record ``{"type", "p", "grid", "invert", "pk", "steps", "stride"}``:

    type    "trans" | "scale" | "hom" | "ddf" | "svf" | "ffd" | "svffd"
    p       parameter array exactly as the real transform holds it (batch dimension included, N = 1)
    grid    RefGrid of the member (defines its cube frame and, for dense members, the sample lattice)
    invert  linear members: use the inverse matrix; velocity members: negative scaling factor
    pk      "param" (optimizable: scaling uses exp(tanh(p - 1))) | other (parameters used as given)

Semantics written from the docstrings of deepali.spatial:

* parameters of linear members act on normalised cube coordinates of the member grid
  (CUBE_CORNERS if align_corners else CUBE);  translation y = c + p, scaling y = s * c, homogeneous
  y = A c + b;
* a dense displacement member maps c -> c + u(c) where u is the multilinear interpolant of the
  vectors stored at the grid samples (vectors in cube units);
* a stationary velocity member first integrates the velocity field by scaling and squaring
  (u <- v * scale / 2^steps; steps times u <- u + u o (id + u), multilinear, border clamped);
* spline members evaluate the cubic B-spline with control point k located at grid index (k - 1) * stride
  at the grid samples, the result is the displacement (ffd) or velocity (svffd) field at the samples;
* a sequential composite passes the cube coordinates through its members in order.

Nothing here imports torch or deepali.
"""
from __future__ import annotations

import itertools
from typing import Dict, List, Optional, Sequence, Tuple

import numpy as np

from ref.grid import CORNERS, CUBE, RefGrid

LINEAR_TYPES = ("trans", "scale", "hom")
DENSE_TYPES = ("ddf", "svf")
SPLINE_TYPES = ("ffd", "svffd")
VELOCITY_TYPES = ("svf", "svffd")


# ---------------------------------------------------------------------------
# frames
def frame(rg: RefGrid) -> Tuple[np.ndarray, np.ndarray]:
    """(A, b): world = A c + b for c in the cube axes used by a transform defined on `rg`."""
    return rg.to_world(CORNERS if rg.ac else CUBE)


def world_to_cube(rg: RefGrid, x) -> np.ndarray:
    A, b = frame(rg)
    return (np.asarray(x, dtype=np.float64) - b) @ np.linalg.inv(A).T


def cube_to_world(rg: RefGrid, c) -> np.ndarray:
    A, b = frame(rg)
    return np.asarray(c, dtype=np.float64) @ A.T + b


def cube_to_index(rg: RefGrid, c) -> np.ndarray:
    n = rg.n
    c = np.asarray(c, dtype=np.float64)
    return (c + 1) * (n - 1) / 2 if rg.ac else (c + 1) * n / 2 - 0.5


def index_to_cube(rg: RefGrid, i) -> np.ndarray:
    n = rg.n
    i = np.asarray(i, dtype=np.float64)
    return 2 * i / (n - 1) - 1 if rg.ac else (2 * i + 1) / n - 1


def index_per_cube(rg: RefGrid) -> np.ndarray:
    """Index units per cube unit along every axis (x first)."""
    return (rg.n - 1) / 2 if rg.ac else rg.n / 2


def sample_indices(size: Sequence[int]) -> np.ndarray:
    """All integer indices (M, D), x first, enumerated in the memory order of a (.., Y, X) tensor."""
    size = [int(s) for s in size]
    D = len(size)
    rev = np.indices(size[::-1]).reshape(D, -1)  # rows: (z, y, x)
    return rev[::-1].T.astype(np.float64)


def sample_world(rg: RefGrid) -> np.ndarray:
    return rg.index_to_world(sample_indices(rg.n))


def tensor_shape(size: Sequence[int]) -> Tuple[int, ...]:
    return tuple(int(s) for s in size)[::-1]


# ---------------------------------------------------------------------------
# multilinear interpolation with border clamping, index space
def interp_linear(field: np.ndarray, idx: np.ndarray) -> np.ndarray:
    """field (C, ..., Y, X); idx (M, D) continuous indices x first -> (M, C)."""
    field = np.asarray(field, dtype=np.float64)
    C = field.shape[0]
    shape = field.shape[1:]
    D = len(shape)
    n = np.array(shape[::-1], dtype=np.float64)
    idx = np.clip(np.asarray(idx, dtype=np.float64), 0, n - 1)
    i0 = np.minimum(np.floor(idx), np.maximum(n - 2, 0))
    w = idx - i0
    i0 = i0.astype(np.int64)
    ni = n.astype(np.int64)
    out = np.zeros((idx.shape[0], C))
    for corner in itertools.product((0, 1), repeat=D):
        ii = np.minimum(i0 + np.array(corner), ni - 1)
        wt = np.ones(idx.shape[0])
        for d in range(D):
            wt = wt * (w[:, d] if corner[d] else 1 - w[:, d])
        sel = (slice(None),) + tuple(ii[:, d] for d in reversed(range(D)))
        out += wt[:, None] * field[sel].T
    return out


# ---------------------------------------------------------------------------
# scaling and squaring
def expv_ref(v: np.ndarray, ac: bool, scale: float = 1.0, steps: int = 5) -> np.ndarray:
    """v (D, ..., Y, X) in cube units of the unit grid of that shape -> displacement field, same layout."""
    v = np.asarray(v, dtype=np.float64)
    D = v.shape[0]
    size = np.array(v.shape[1:][::-1], dtype=np.float64)
    if steps == 0:
        return v * scale
    k = (size - 1) / 2 if ac else size / 2
    idx0 = sample_indices(size.astype(int))
    disp = v * (scale / 2 ** steps)
    for _ in range(steps):
        d_idx = disp.reshape(D, -1).T * k
        samp = interp_linear(disp, idx0 + d_idx)
        disp = disp + samp.T.reshape(disp.shape)
    return disp


# ---------------------------------------------------------------------------
# cubic B-splines
def bspline3(t: np.ndarray) -> np.ndarray:
    a = np.abs(t)
    return np.where(a < 1, 2.0 / 3.0 - a * a + a ** 3 / 2, np.where(a < 2, (2 - a) ** 3 / 6, 0.0))


def control_size(n: Sequence[int], stride: Sequence[int]) -> Tuple[int, ...]:
    """Number of control points per axis (x first): ceil(n / s) + 3."""
    return tuple(int(-(-int(a) // int(s)) + 3) for a, s in zip(n, stride))


def control_indices(n: Sequence[int], stride: Sequence[int]) -> np.ndarray:
    """Grid indices (M, D) of all control points; control point k sits at grid index (k - 1) * s."""
    K = control_size(n, stride)
    k = sample_indices(K)
    return (k - 1) * np.asarray(stride, dtype=np.float64)


def bspline_eval(coef: np.ndarray, n: Sequence[int], stride: Sequence[int]) -> np.ndarray:
    """coef (C, ..., Ky, Kx) -> values at the integer grid indices, (C, ..., ny, nx)."""
    out = np.asarray(coef, dtype=np.float64)
    D = out.ndim - 1
    for d in range(D):  # d = x first; tensor axis of x is the last one
        ax = out.ndim - 1 - d
        K = out.shape[ax]
        i = np.arange(int(n[d]), dtype=np.float64)
        k = np.arange(K, dtype=np.float64)
        W = bspline3(i[:, None] / float(stride[d]) - (k[None, :] - 1))  # (n, K)
        out = np.moveaxis(np.tensordot(W, np.moveaxis(out, ax, 0), axes=(1, 0)), 0, ax)
    return out


# ---------------------------------------------------------------------------
# member denotation in cube coordinates
_FIELD_CACHE: Dict[tuple, np.ndarray] = {}


def displacement_samples(m: dict) -> np.ndarray:
    """Displacement vectors (D, ..., Y, X) in cube units at the samples of the member grid."""
    t = m["type"]
    rg: RefGrid = m["grid"]
    p = np.asarray(m["p"])
    key = (t, p.tobytes(), p.shape, tuple(rg.n), rg.ac, bool(m.get("invert")), m.get("steps"), tuple(m.get("stride") or ()))
    hit = _FIELD_CACHE.get(key)
    if hit is not None:
        return hit
    f = np.asarray(p, dtype=np.float64)[0]
    if t in SPLINE_TYPES:
        f = bspline_eval(f, rg.n, m["stride"])
    if t in VELOCITY_TYPES:
        f = expv_ref(f, rg.ac, scale=-1.0 if m.get("invert") else 1.0, steps=int(m.get("steps", 5)))
    if len(_FIELD_CACHE) > 4000:
        _FIELD_CACHE.clear()
    _FIELD_CACHE[key] = f
    return f


def velocity_samples(m: dict) -> np.ndarray:
    f = np.asarray(m["p"], dtype=np.float64)[0]
    if m["type"] in SPLINE_TYPES:
        f = bspline_eval(f, m["grid"].n, m["stride"])
    return f


def linear_matrix(m: dict) -> Tuple[np.ndarray, np.ndarray]:
    """(A, b) of a linear member acting on cube coordinates."""
    t = m["type"]
    p = np.asarray(m["p"], dtype=np.float64)[0]
    D = m["grid"].D
    if t == "trans":
        A, b = np.eye(D), p.reshape(D)
    elif t == "scale":
        s = p.reshape(D)
        if m.get("pk") == "param":
            s = np.exp(np.tanh(s - 1))
        A, b = np.diag(s), np.zeros(D)
    elif t == "hom":
        A, b = p[:, :D], p[:, D]
    else:
        raise ValueError(t)
    if m.get("invert"):
        Ai = np.linalg.inv(A)
        A, b = Ai, -Ai @ b
    return A, b


def member_map(m: dict, c: np.ndarray) -> np.ndarray:
    c = np.asarray(c, dtype=np.float64)
    if m["type"] in LINEAR_TYPES:
        A, b = linear_matrix(m)
        return c @ A.T + b
    u = displacement_samples(m)
    return c + interp_linear(u, cube_to_index(m["grid"], c))


def cube_map(members: List[dict], c: np.ndarray) -> np.ndarray:
    for m in members:
        c = member_map(m, c)
    return c


def world_map(members: List[dict], rg: RefGrid, x: np.ndarray) -> np.ndarray:
    """World-space denotation of a transform with (composite) grid `rg`."""
    return cube_to_world(rg, cube_map(members, world_to_cube(rg, x)))


def disp_expected(members: List[dict], rg: RefGrid, target: RefGrid) -> np.ndarray:
    """Displacement vectors (M, D) at the samples of `target`, in cube units of `target`."""
    xw = sample_world(target)
    yw = world_map(members, rg, xw)
    A, _ = frame(target)
    return (yw - xw) @ np.linalg.inv(A).T


# ---------------------------------------------------------------------------
# analytic world-space vector fields used to fill parameter tensors
class Field:
    """u(x) = M (x - x0) + t + sum_j a_j d_j sin(k_j . (x - x0) + phi_j)"""

    def __init__(self, M, t, x0, waves=()):
        self.M = np.asarray(M, dtype=np.float64)
        self.t = np.asarray(t, dtype=np.float64)
        self.x0 = np.asarray(x0, dtype=np.float64)
        self.waves = [(float(a), np.asarray(d, float), np.asarray(k, float), float(ph)) for a, d, k, ph in waves]

    def __call__(self, x):
        x = np.asarray(x, dtype=np.float64) - self.x0
        u = x @ self.M.T + self.t
        for a, d, k, ph in self.waves:
            u = u + a * np.sin(x @ k + ph)[:, None] * d[None, :]
        return u

    def curvature(self) -> float:
        """Upper bound of |d^2 u / dx_i dx_j| summed over the waves (world units)."""
        return float(sum(abs(a) * np.abs(d).max() * float(k @ k) for a, d, k, _ in self.waves))

    def scaled(self, f: float) -> "Field":
        return Field(self.M * f, self.t * f, self.x0, [(a * f, d, k, ph) for a, d, k, ph in self.waves])


def dense_params(field: Field, rg: RefGrid) -> np.ndarray:
    """Parameter tensor (1, D, ..., Y, X), float32, of a dense vector field sampled on `rg` (cube units)."""
    A, _ = frame(rg)
    u = field(sample_world(rg)) @ np.linalg.inv(A).T  # (M, D)
    return u.T.reshape((1, rg.D) + tensor_shape(rg.n)).astype(np.float32)


def spline_params(field: Field, rg: RefGrid, stride: Sequence[int]) -> np.ndarray:
    """Coefficients = field values at the control point positions (reproduces affine fields exactly)."""
    A, _ = frame(rg)
    xw = rg.index_to_world(control_indices(rg.n, stride))
    u = field(xw) @ np.linalg.inv(A).T
    return u.T.reshape((1, rg.D) + tensor_shape(control_size(rg.n, stride))).astype(np.float32)


def linear_params(field: Field, rg: RefGrid, kind: str) -> np.ndarray:
    """Cube-space parameters of the linear part of an affine world field x -> x + u(x) on `rg`."""
    A, b = frame(rg)
    Ai = np.linalg.inv(A)
    D = rg.D
    # world map y = (I + M) x + (t - M x0); cube map c' = Ai ((I + M)(A c + b) + t - M x0 - b)
    W = np.eye(D) + field.M
    Ac = Ai @ W @ A
    bc = Ai @ (W @ b + field.t - field.M @ field.x0 - b)
    if kind == "trans":
        return bc.reshape(1, D).astype(np.float32)
    if kind == "hom":
        return np.concatenate([Ac, bc[:, None]], axis=1).reshape(1, D, D + 1).astype(np.float32)
    raise ValueError(kind)


# ---------------------------------------------------------------------------
# validity region of re-gridded fields (axis aligned in the local frame of the base grid)
def local_coords(base: RefGrid, x) -> np.ndarray:
    return (np.asarray(x, dtype=np.float64) - base.c) @ base.R


def hull_box(base: RefGrid, rg: RefGrid) -> np.ndarray:
    """(2, D) lower/upper corner of the sample hull of `rg` in the local frame of `base` (same direction)."""
    lo = local_coords(base, rg.index_to_world(np.zeros((1, rg.D))))[0]
    hi = local_coords(base, rg.index_to_world((rg.n - 1)[None, :]))[0]
    return np.stack([np.minimum(lo, hi), np.maximum(lo, hi)])


def regrid_valid(base: RefGrid, valid: np.ndarray, new: RefGrid, tol: float = 1e-6) -> Optional[np.ndarray]:
    """Box spanned by the samples of `new` that lie inside `valid` (which always runs sample to sample)."""
    out = np.zeros((2, new.D))
    for d in range(new.D):
        idx = np.zeros((int(new.n[d]), new.D))
        idx[:, d] = np.arange(int(new.n[d]))
        pos = local_coords(base, new.index_to_world(idx))[:, d]
        ok = pos[(pos >= valid[0, d] - tol) & (pos <= valid[1, d] + tol)]
        if ok.size < 2:
            return None
        out[0, d], out[1, d] = ok.min(), ok.max()
    return out


def inside(base: RefGrid, box: np.ndarray, x, margin: float = 0.0, tol: float = 1e-6) -> np.ndarray:
    loc = local_coords(base, x)
    return np.all((loc >= box[0] + margin - tol) & (loc <= box[1] - margin + tol), axis=1)
