"""Reference model of an oriented sampling grid (numpy float64, written from the docstrings).

index -> world :  x = origin + R . diag(s) . i          origin = center - R diag(s) (n-1)/2
cube_corners   :  c = 2 i / (n-1) - 1                    (-1/+1 = first/last sample)
cube           :  c = (2 i + 1) / n - 1                   (-1/+1 = half a sample beyond)
vectors        :  linear parts of the above
"""
from __future__ import annotations

import math
from typing import Optional, Sequence

import numpy as np

GRID, CUBE, CORNERS, WORLD = "grid", "cube", "cube_corners", "world"
AXES = (GRID, CUBE, CORNERS, WORLD)


def rot2(deg: float) -> np.ndarray:
    a = math.radians(deg)
    return np.array([[math.cos(a), -math.sin(a)], [math.sin(a), math.cos(a)]])


def rot3(ax: float, ay: float, az: float) -> np.ndarray:
    cx, sx = math.cos(ax), math.sin(ax)
    cy, sy = math.cos(ay), math.sin(ay)
    cz, sz = math.cos(az), math.sin(az)
    Rx = np.array([[1, 0, 0], [0, cx, -sx], [0, sx, cx]])
    Ry = np.array([[cy, 0, sy], [0, 1, 0], [-sy, 0, cy]])
    Rz = np.array([[cz, -sz, 0], [sz, cz, 0], [0, 0, 1]])
    return Rz @ Ry @ Rx


class RefGrid:
    __slots__ = ("z", "s", "c", "R", "ac")

    def __init__(self, size, spacing=None, center=None, origin=None, direction=None, ac=True):
        self.z = np.asarray(size, dtype=np.float64).copy()  # internal (possibly fractional) size
        D = len(self.z)
        self.s = np.ones(D) if spacing is None else np.broadcast_to(np.asarray(spacing, dtype=np.float64), (D,)).copy()
        self.R = np.eye(D) if direction is None else np.asarray(direction, dtype=np.float64).reshape(D, D).copy()
        self.ac = bool(ac)
        if origin is not None:
            o = np.broadcast_to(np.asarray(origin, dtype=np.float64), (D,))
            self.c = o + self.R @ (self.s * (self.n - 1) / 2)
        else:
            self.c = np.zeros(D) if center is None else np.broadcast_to(np.asarray(center, dtype=np.float64), (D,)).copy()

    # ------------------------------------------------------------------
    @classmethod
    def from_real(cls, g) -> "RefGrid":
        """Observe a real deepali Grid (float32 attributes read as float64)."""
        r = cls.__new__(cls)
        r.z = g._size.detach().double().numpy().copy()
        r.s = g.spacing().detach().double().numpy().copy()
        r.c = g.center().detach().double().numpy().copy()
        r.R = g.direction().detach().double().numpy().copy()
        r.ac = bool(g.align_corners())
        return r

    def copy(self) -> "RefGrid":
        r = RefGrid.__new__(RefGrid)
        r.z, r.s, r.c, r.R, r.ac = self.z.copy(), self.s.copy(), self.c.copy(), self.R.copy(), self.ac
        return r

    @property
    def D(self) -> int:
        return len(self.z)

    @property
    def n(self) -> np.ndarray:
        return np.ceil(self.z - 1e-9)

    @property
    def origin(self) -> np.ndarray:
        return self.c - self.R @ (self.s * (self.n - 1) / 2)

    @property
    def extent(self) -> np.ndarray:
        return self.n * self.s

    def cube_extent(self, ac: Optional[bool] = None) -> np.ndarray:
        ac = self.ac if ac is None else ac
        return (self.n - 1) * self.s if ac else self.n * self.s

    def scale(self) -> float:
        """Magnitude used for float32 tolerances of world positions."""
        return float(np.abs(self.c).max() + np.abs(self.extent).max())

    # -- coordinate maps (matrices act on column vectors; points are rows) ------
    def to_world(self, axes: str):
        """(A, b) with world = A x + b for x given in `axes`."""
        n, s, R = self.n, self.s, self.R
        if axes == WORLD:
            return np.eye(self.D), np.zeros(self.D)
        if axes == GRID:
            return R * s, self.origin
        if axes == CORNERS:  # i = (c+1)(n-1)/2
            k = (n - 1) / 2
            return R * (s * k), self.origin + R @ (s * k)
        if axes == CUBE:  # i = (c+1) n/2 - 1/2
            k = n / 2
            return R * (s * k), self.origin + R @ (s * (k - 0.5))
        raise ValueError(axes)

    def transform(self, axes: str, to_axes: str, to_grid: Optional["RefGrid"] = None):
        """(A, b): y = A x + b maps `axes` of self to `to_axes` of to_grid (default self)."""
        tg = self if to_grid is None else to_grid
        A1, b1 = self.to_world(axes)
        A2, b2 = tg.to_world(to_axes)
        A2i = np.linalg.inv(A2)
        return A2i @ A1, A2i @ (b1 - b2)

    def map_points(self, x, axes, to_axes, to_grid=None):
        A, b = self.transform(axes, to_axes, to_grid)
        return np.asarray(x, dtype=np.float64) @ A.T + b

    def map_vectors(self, v, axes, to_axes, to_grid=None):
        A, _ = self.transform(axes, to_axes, to_grid)
        return np.asarray(v, dtype=np.float64) @ A.T

    def index_to_world(self, i):
        return self.map_points(i, GRID, WORLD)

    def world_to_index(self, x):
        return self.map_points(x, WORLD, GRID)

    def corner_indices(self) -> np.ndarray:
        """All 2^D corner indices plus one interior index."""
        n = self.n
        pts = []
        for m in range(2 ** self.D):
            pts.append([(n[d] - 1) if (m >> d) & 1 else 0.0 for d in range(self.D)])
        pts.append([math.floor((n[d] - 1) / 2) for d in range(self.D)])
        return np.array(pts, dtype=np.float64)

    def describe(self) -> dict:
        return {
            "size": self.z.tolist(),
            "spacing": self.s.tolist(),
            "center": self.c.tolist(),
            "direction": self.R.reshape(-1).tolist(),
            "ac": self.ac,
        }


# ---------------------------------------------------------------------------
# derived-grid semantics (the promises of property C03)
def resized(r: RefGrid, z, ac: Optional[bool] = None) -> RefGrid:
    """Same center/direction; ac=True keeps corner samples, ac=False keeps extent n*s."""
    ac = r.ac if ac is None else ac
    out = r.copy()
    out.z = np.asarray(z, dtype=np.float64).copy()
    n0, n1 = r.n, out.n
    if ac:
        out.s = r.s * (n0 - 1) / (n1 - 1)
    else:
        out.s = r.s * n0 / n1
    return out


def cropped(r: RefGrid, offset, size) -> RefGrid:
    """Window of `size` samples whose sample 0 is the old sample `offset` (may be negative)."""
    out = r.copy()
    out.z = np.asarray(size, dtype=np.float64).copy()
    o = np.asarray(offset, dtype=np.float64)
    out.c = r.index_to_world(o + (out.n - 1) / 2)
    return out


def pooled(r: RefGrid, k, ceil_mode: bool) -> RefGrid:
    k = np.broadcast_to(np.asarray(k, dtype=np.float64), (r.D,))
    out = r.copy()
    q = r.n / k
    out.z = np.ceil(q) if ceil_mode else np.floor(q)
    out.s = r.s * k
    out.c = r.index_to_world((k - 1) / 2 + k * (out.n - 1) / 2)
    return out


def real_grid(spec: dict):
    """Build the real deepali Grid of a config spec {size, spacing, origin|center, direction, ac}."""
    from deepali.core.grid import Grid

    kw = dict(size=tuple(spec["size"]), spacing=tuple(spec["spacing"]), align_corners=spec["ac"])
    if spec.get("direction") is not None:
        kw["direction"] = spec["direction"]
    if "origin" in spec:
        kw["origin"] = tuple(spec["origin"])
    else:
        kw["center"] = tuple(spec["center"])
    return Grid(**kw)


def ref_grid(spec: dict) -> RefGrid:
    kw = dict(size=spec["size"], spacing=spec["spacing"], direction=spec.get("direction"), ac=spec["ac"])
    if "origin" in spec:
        kw["origin"] = spec["origin"]
    else:
        kw["center"] = spec["center"]
    return RefGrid(**kw)


def direction_menu(D: int, seed: int = 0):
    """identity, one signed permutation, one generic rotation (table chosen by seed)."""
    if D == 2:
        perm = [[0.0, -1.0], [1.0, 0.0]]
        deg = (33.0, 57.0, -21.0, 112.0)[seed % 4]
        gen = rot2(deg)
    else:
        perm = [[0.0, 0.0, 1.0], [-1.0, 0.0, 0.0], [0.0, -1.0, 0.0]]
        ang = ((0.3, -0.5, 0.7), (1.1, 0.4, -0.9), (-0.6, 0.8, 0.2), (2.0, -0.3, 1.3))[seed % 4]
        gen = rot3(*ang)
    return {"id": None, "perm": perm, "rot": gen.tolist()}
