"""Reference: polynomial vector fields on a regular lattice and their analytic derivatives; analytic cubic
B-spline functions of a coefficient lattice (numpy float64, closed forms, no torch, no deepali).

Conventions (those of deepali tensors): a vector field is an array of shape (D, *shape) where shape is
(Y, X) or (Z, Y, X) - the LAST array axis is x - and channel k is the component along spatial axis k
(k = 0 is x).  Physical coordinate along axis d (d = 0 is x) of lattice index i is  off[d] + i * h[d].

Polynomial field (degree <= 2):   u_k(x) = t_k + sum_j A[k,j] x_j + sum_{i,j} Q[k,i,j] x_i x_j
    d u_k / d x_a          = A[k,a] + sum_j (Q[k,a,j] + Q[k,j,a]) x_j
    d2 u_k / d x_a d x_b   = Q[k,a,b] + Q[k,b,a]
"""
from __future__ import annotations

import itertools
from typing import Dict, Optional, Sequence, Tuple

import numpy as np

LETTERS = "xyz"
CHANNELS = "uvw"


def lattice_coords(shape: Sequence[int], h: Sequence[float], off: Sequence[float]) -> np.ndarray:
    """Physical coordinates, array (D, *shape); entry d is the coordinate along spatial axis d (0 = x)."""
    D = len(shape)
    axes = [np.arange(n, dtype=np.float64) for n in shape]  # array axes order (.., y, x)
    mesh = np.meshgrid(*axes, indexing="ij")
    out = np.empty((D,) + tuple(shape))
    for d in range(D):
        out[d] = off[d] + mesh[D - 1 - d] * h[d]
    return out


class PolyField:
    def __init__(self, D: int, t=None, A=None, Q=None):
        self.D = D
        self.t = np.zeros(D) if t is None else np.asarray(t, float).reshape(D)
        self.A = np.zeros((D, D)) if A is None else np.asarray(A, float).reshape(D, D)
        self.Q = np.zeros((D, D, D)) if Q is None else np.asarray(Q, float).reshape(D, D, D)

    def is_affine(self) -> bool:
        return not np.any(self.Q)

    def values(self, X: np.ndarray) -> np.ndarray:
        """Field values (D, *shape) at coordinates X (D, *shape)."""
        u = np.einsum("kj,j...->k...", self.A, X) + self.t.reshape((self.D,) + (1,) * (X.ndim - 1))
        u = u + np.einsum("kij,i...,j...->k...", self.Q, X, X)
        return u

    def d1(self, k: int, a: int, X: np.ndarray) -> np.ndarray:
        g = self.Q[k, a, :] + self.Q[k, :, a]
        return self.A[k, a] + np.einsum("j,j...->...", g, X)

    def d2(self, k: int, a: int, b: int, X: np.ndarray) -> np.ndarray:
        return np.full(X.shape[1:], self.Q[k, a, b] + self.Q[k, b, a])

    def deriv(self, key: str, X: np.ndarray) -> np.ndarray:
        """Analytic derivative for a flow key 'du/dxy' (order 1 or 2)."""
        k, letters = parse_flow_key(key)
        idx = [LETTERS.index(c) for c in letters]
        if len(idx) == 1:
            return self.d1(k, idx[0], X)
        if len(idx) == 2:
            return self.d2(k, idx[0], idx[1], X)
        raise ValueError(key)

    def jacobian(self, X: np.ndarray) -> np.ndarray:
        """(*shape, D, D) with [.., i, j] = d u_i / d x_j."""
        J = np.empty(X.shape[1:] + (self.D, self.D))
        for i in range(self.D):
            for j in range(self.D):
                J[..., i, j] = self.d1(i, j, X)
        return J


def parse_flow_key(key: str) -> Tuple[int, str]:
    assert key[0] == "d" and key[2:4] == "/d", key
    return CHANNELS.index(key[1]), key[4:]


def flow_keys(D: int, order: int):
    """All keys of an order in deepali's enumeration order: channels outer, letters product inner."""
    letters = ["".join(p) for p in itertools.product(LETTERS[:D], repeat=order)]
    return [f"d{CHANNELS[c]}/d{l}" for c in range(D) for l in letters]


def basis_affine(D: int):
    """The D*D + D basis fields E_ij x and e_i, as (name, PolyField)."""
    out = []
    for i in range(D):
        for j in range(D):
            A = np.zeros((D, D))
            A[i, j] = 1.0
            out.append((f"E{i}{j}", PolyField(D, A=A)))
    for i in range(D):
        t = np.zeros(D)
        t[i] = 1.0
        out.append((f"e{i}", PolyField(D, t=t)))
    return out


def basis_quadratic(D: int):
    """x_i x_j e_k, i <= j."""
    out = []
    for k in range(D):
        for i in range(D):
            for j in range(i, D):
                Q = np.zeros((D, D, D))
                Q[k, i, j] = 1.0
                out.append((f"q{k}{i}{j}", PolyField(D, Q=Q)))
    return out


# four fixed tables of generic coefficients (VERIF_SEED picks one); dyadic so float32 holds them exactly
_GEN = (
    (0.75, -1.25, 0.5, 1.5, -0.375, 2.0, -0.625, 0.875, 1.125, -1.75, 0.25, 1.375, -0.5, 0.625, -1.5, 1.0, -0.875, 0.375,
     1.625, -0.25, 0.125, -1.125, 1.875, -0.75, 1.25, -1.375, 0.4375, 0.8125, -0.5625, 1.0625, -1.625, 0.6875, -0.3125,
     1.4375, -0.9375, 0.5625, 1.1875, -0.6875, 0.3125),
    (-1.5, 0.625, 1.25, -0.75, 0.875, -0.25, 1.75, 0.375, -1.125, 0.5, -2.0, 1.5, 0.75, -0.625, 1.375, -0.375, 1.0, -1.25,
     0.25, 1.125, -0.875, 1.625, -0.125, 0.5625, -1.75, 0.6875, 1.4375, -0.4375, 0.8125, -1.0625, 0.3125, 1.1875, -0.5625,
     0.9375, -1.375, 0.4375, -0.8125, 1.0625, -0.3125),
    (1.25, 0.875, -0.5, -1.375, 1.625, 0.375, -0.75, 1.5, -0.25, 0.625, 1.125, -1.0, -1.75, 0.5, 0.75, 1.375, -0.625, -0.125,
     2.0, -0.875, 0.25, 1.75, -1.5, 0.4375, -0.5625, 1.0625, 0.8125, -1.1875, 0.3125, 1.4375, -0.6875, 0.9375, -0.375,
     -1.625, 0.5625, 1.1875, -0.4375, 0.6875, -0.9375),
    (-0.625, 1.75, -1.0, 0.375, 1.25, -1.5, 0.5, -0.875, 1.625, 0.25, -0.375, 1.125, 0.75, -1.25, 1.5, -0.5, 0.875, 2.0,
     -1.75, 0.625, -0.25, 1.0, 1.375, -0.5625, 0.4375, -1.0625, 1.1875, 0.3125, -0.8125, 0.6875, 1.4375, -0.9375, 0.5625,
     -1.1875, 0.8125, -0.3125, 0.9375, -0.6875, 1.0625),
)


def generic_field(D: int, seed: int, degree: int = 1, variant: int = 0) -> PolyField:
    """A fixed generic field: all coefficients non-zero and pairwise distinct in magnitude where it matters."""
    tab = _GEN[seed % 4]
    r = tab[(7 * variant) % len(tab):] + tab[: (7 * variant) % len(tab)]
    t = np.array(r[:D])
    A = np.array(r[D: D + D * D]).reshape(D, D)
    Q = None
    if degree >= 2:
        Q = np.zeros((D, D, D))
        q = r[D + D * D:]
        m = 0
        for k in range(D):
            for i in range(D):
                for j in range(i, D):
                    Q[k, i, j] = q[m % len(q)] * 0.5
                    m += 1
    return PolyField(D, t=t, A=A, Q=Q)


# ---------------------------------------------------------------------------
# cubic B-spline (uniform, knots at the integers, support (-2, 2)); closed piecewise-polynomial forms
def bspline3(t: np.ndarray, order: int = 0) -> np.ndarray:
    t = np.asarray(t, dtype=np.float64)
    a = np.abs(t)
    s = np.sign(t)
    inner = a < 1
    outer = (a >= 1) & (a < 2)
    out = np.zeros_like(t)
    if order == 0:
        out[inner] = 2.0 / 3.0 - a[inner] ** 2 + a[inner] ** 3 / 2
        out[outer] = (2 - a[outer]) ** 3 / 6
    elif order == 1:
        out[inner] = s[inner] * (-2 * a[inner] + 1.5 * a[inner] ** 2)
        out[outer] = -s[outer] * (2 - a[outer]) ** 2 / 2
    elif order == 2:
        out[inner] = -2 + 3 * a[inner]
        out[outer] = 2 - a[outer]
    else:
        raise ValueError(order)
    return out


def spline_matrix(n: int, stride: int, order: int) -> np.ndarray:
    """W[m, k] = B^(order)(x_m - k): evaluation of a spline with n coefficients (indices 0..n-1) at the
    (n - 3) * stride points x_m = 1 + m / stride (the span in which four coefficients are available)."""
    m = np.arange((n - 3) * stride, dtype=np.float64)
    x = 1.0 + m / stride
    k = np.arange(n, dtype=np.float64)
    return bspline3(x[:, None] - k[None, :], order)


def spline_derivative(coef: np.ndarray, letters: str, stride: Sequence[int], h: Sequence[float]) -> np.ndarray:
    """Analytic derivative (w.r.t. physical coordinates; control points h[d] apart along axis d) of the tensor
    product cubic B-spline with coefficient array `coef` (*shape) (last array axis = x), evaluated on the
    (n - 3) * stride lattice.  letters e.g. '' (value), 'x', 'xy', 'yy'."""
    D = coef.ndim
    order = [letters.count(LETTERS[d]) for d in range(D)]
    out = np.asarray(coef, dtype=np.float64)
    for d in range(D):
        ax = D - 1 - d
        W = spline_matrix(coef.shape[ax], int(stride[d]), order[d]) / (float(h[d]) ** order[d])
        out = np.moveaxis(np.tensordot(W, out, axes=([1], [ax])), 0, ax)
    return out


def interior(shape: Sequence[int], margin: int) -> Tuple[slice, ...]:
    return tuple(slice(margin, n - margin) for n in shape)
