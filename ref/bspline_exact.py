"""Exact reference for uniform cubic B-splines (fractions.Fraction; no torch, no deepali).

Conventions (written from the property text and the docstrings of deepali.core.bspline):

* B is the centred cubic B-spline with knots -2,-1,0,1,2; pieces are taken right-continuous, so the
  d-th derivative at a knot is the derivative of the piece to the right (only matters for d = 3).
* A spline with coefficients c_k (k = 0..n-1) is f(u) = sum_k c_k B(u - k) on the control-lattice coordinate u.
  Image sample x (x = 0..m-1) of an evaluation with control-point stride s sits at u = 1 + x/s
  ("one control point before the first sample").  Derivatives are with respect to u.
* Interpolation weights for the offset t = r/s in [0,1): w_k(t) = B^(d)(t + 1 - k), k = 0..3, multiplying
  the control points i-1+k ... i.e. the 4 control points starting one before floor(u)-... (see weights()).
"""
from __future__ import annotations

from fractions import Fraction as Fr
from functools import lru_cache
from typing import List, Sequence

import numpy as np

# polynomial pieces of B on [-2,-1), [-1,0), [0,1), [1,2): coefficient lists in ascending powers of x
_PIECES = {
    -2: [Fr(8, 6), Fr(12, 6), Fr(6, 6), Fr(1, 6)],  # (x+2)^3/6
    -1: [Fr(2, 3), Fr(0), Fr(-1), Fr(-1, 2)],  # 2/3 - x^2 - x^3/2
    0: [Fr(2, 3), Fr(0), Fr(-1), Fr(1, 2)],  # 2/3 - x^2 + x^3/2
    1: [Fr(8, 6), Fr(-12, 6), Fr(6, 6), Fr(-1, 6)],  # (2-x)^3/6
}


def _deriv(p: List[Fr], d: int) -> List[Fr]:
    for _ in range(d):
        p = [p[i] * i for i in range(1, len(p))] or [Fr(0)]
    return p


def _floor(x: Fr) -> int:
    return x.numerator // x.denominator


def B(x, d: int = 0) -> Fr:
    """d-th derivative (0..3) of the centred cubic B-spline at rational x, right-continuous pieces."""
    x = Fr(x)
    k = _floor(x)
    if k < -2 or k > 1:
        return Fr(0)
    p = _deriv(_PIECES[k], d)
    v = Fr(0)
    for c in reversed(p):
        v = v * x + c
    return v


@lru_cache(maxsize=None)
def weights(s: int, d: int = 0):
    """s x 4 table of exact weights: row r (offset t = r/s), column k -> B^(d)(t + 1 - k)."""
    return tuple(tuple(B(Fr(r, s) + 1 - k, d) for k in range(4)) for r in range(s))


def cp_count_needed(m: int, s: int) -> int:
    """Smallest number of control points such that every sample x = 0..m-1 (u = 1 + x/s) has the four
    control points floor(u)-1 .. floor(u)+2 it may touch (the weight of the last one may be zero)."""
    return (m - 1) // s + 4


@lru_cache(maxsize=None)
def operator_1d(n: int, s: int, m: int, d: int = 0, x0: int = 0) -> np.ndarray:
    """Exact evaluation operator as float64 matrix M[x, k] = B^(d)(1 + (x + x0)/s - k), x = 0..m-1, k = 0..n-1."""
    M = np.zeros((m, n), dtype=np.float64)
    for x in range(m):
        u = 1 + Fr(x + x0, s)
        k0 = _floor(u) - 1
        for k in range(max(k0, 0), min(k0 + 4, n)):
            M[x, k] = float(B(u - k, d))
    M.setflags(write=False)
    return M


def operator_at(n: int, us: Sequence[Fr], d: int = 0) -> np.ndarray:
    """M[j, k] = B^(d)(us[j] - k) for arbitrary rational lattice coordinates."""
    M = np.zeros((len(us), n), dtype=np.float64)
    for j, u in enumerate(us):
        u = Fr(u)
        k0 = _floor(u) - 1
        for k in range(max(k0, 0), min(k0 + 4, n)):
            M[j, k] = float(B(u - k, d))
    return M


def kernel_1d(s: int, d: int = 0) -> np.ndarray:
    """Samples B^(d)((i - r)/s), i = 0..4s-2, r = 2s-1 (the transposed-convolution kernel), d in 0..2."""
    r = 2 * s - 1
    return np.array([float(B(Fr(i - r, s), d)) for i in range(4 * s - 1)], dtype=np.float64)
