"""Reference denotation of deepali spatial transforms (numpy float64, no torch).

A transform is *defined in the cube axes of its own grid* (CUBE_CORNERS if grid.align_corners() else
CUBE); its world-space map is  W = G o T o G^-1  with G = cube->world of that grid (ref/grid.py).

Linear models denote a homogeneous matrix (D, D+1) per group, computed from the values handed to the
public setters with textbook formulas:

    Translation          x + t                           (t in cube units)
    EulerRotation        2-D: rot(a);  3-D: R_o0(a0) . R_o1(a1) . R_o2(a2)   (first angle = left-most factor,
                         applied last; euler_rotation_matrix docstring)
    QuaternionRotation   unit quaternion (w, x, y, z)
    Iso/AnisotropicScaling  diag(s)
    Shearing             unit upper triangular, tan(angle) above the diagonal in row-major order
    HomogeneousTransform the matrix itself

Dense models denote  x + u(x)  with u the n-linear interpolant of the displacement buffer on the samples of
the transform grid (defined inside the hull of the sample centres only; outside it the reference declines).
Sequential composites: y = u_{n-1}(... u_0(x));  multi-level composites: y = x + sum_i (u_i(x) - x).
"""
from __future__ import annotations

import itertools
import math
from typing import List, Optional, Sequence, Tuple

import numpy as np

from ref.grid import CORNERS, CUBE, GRID, WORLD, RefGrid

EULER_ORDERS = ("ZXZ", "XZX", "XYZ", "ZYX", "ZXY", "XZY", "YXZ", "YZX", "XYX", "YXY", "YZY", "ZYZ")


def cube_axes(ac: bool) -> str:
    return CORNERS if ac else CUBE


# ---------------------------------------------------------------------------
# elementary matrices (act on column vectors)
def rot_elem(axis: str, a: float) -> np.ndarray:
    c, s = math.cos(a), math.sin(a)
    if axis == "X":
        return np.array([[1, 0, 0], [0, c, -s], [0, s, c]], dtype=np.float64)
    if axis == "Y":
        return np.array([[c, 0, s], [0, 1, 0], [-s, 0, c]], dtype=np.float64)
    if axis == "Z":
        return np.array([[c, -s, 0], [s, c, 0], [0, 0, 1]], dtype=np.float64)
    raise ValueError(axis)


def euler_matrix(angles: Sequence[float], order: Optional[str], D: int) -> np.ndarray:
    if D == 2:
        a = float(angles[0])
        c, s = math.cos(a), math.sin(a)
        return np.array([[c, -s], [s, c]], dtype=np.float64)
    order = (order or "ZXZ").upper()
    R = np.eye(3)
    for ch, a in zip(order, angles):
        R = R @ rot_elem(ch, float(a))
    return R


def quat_matrix(q: Sequence[float]) -> np.ndarray:
    """Rotation matrix of a quaternion (w, x, y, z); normalised first."""
    q = np.asarray(q, dtype=np.float64)
    w, x, y, z = q / np.linalg.norm(q)
    return np.array(
        [
            [1 - 2 * (y * y + z * z), 2 * (x * y - z * w), 2 * (x * z + y * w)],
            [2 * (x * y + z * w), 1 - 2 * (x * x + z * z), 2 * (y * z - x * w)],
            [2 * (x * z - y * w), 2 * (y * z + x * w), 1 - 2 * (x * x + y * y)],
        ],
        dtype=np.float64,
    )


def quat_from_axis_angle(axis: Sequence[float], angle: float) -> np.ndarray:
    ax = np.asarray(axis, dtype=np.float64)
    ax = ax / np.linalg.norm(ax)
    return np.concatenate([[math.cos(angle / 2)], math.sin(angle / 2) * ax])


def shear_matrix(angles: Sequence[float], D: int) -> np.ndarray:
    M = np.eye(D)
    k = 0
    for i in range(D):
        for j in range(i + 1, D):
            M[i, j] = math.tan(float(angles[k]))
            k += 1
    return M


def hom(A: Optional[np.ndarray], t: Optional[np.ndarray], D: int) -> np.ndarray:
    M = np.zeros((D, D + 1))
    M[:, :D] = np.eye(D) if A is None else A
    if t is not None:
        M[:, D] = t
    return M


def hom_compose(M2: np.ndarray, M1: np.ndarray) -> np.ndarray:
    """M2 after M1."""
    D = M1.shape[0]
    out = np.zeros((D, D + 1))
    out[:, :D] = M2[:, :D] @ M1[:, :D]
    out[:, D] = M2[:, :D] @ M1[:, D] + M2[:, D]
    return out


def hom_inverse(M: np.ndarray) -> np.ndarray:
    D = M.shape[0]
    Ai = np.linalg.inv(M[:, :D])
    return hom(Ai, -Ai @ M[:, D], D)


def hom_apply(M: np.ndarray, x: np.ndarray) -> np.ndarray:
    D = M.shape[0]
    return np.asarray(x, dtype=np.float64) @ M[:, :D].T + M[:, D]


def as_hom(T: np.ndarray) -> np.ndarray:
    """(D,1) | (D,D) | (D,D+1) tensor representation -> (D,D+1)."""
    T = np.asarray(T, dtype=np.float64)
    D = T.shape[0]
    if T.shape == (D, 1):
        return hom(None, T[:, 0], D)
    if T.shape == (D, D):
        return hom(T, None, D)
    if T.shape == (D, D + 1):
        return T.copy()
    raise ValueError(f"not a homogeneous tensor shape {T.shape}")


# ---------------------------------------------------------------------------
# n-linear interpolation in index space
def interp_nlinear(field: np.ndarray, idx: np.ndarray, eps: float = 1e-9) -> Tuple[np.ndarray, np.ndarray]:
    """field (C, ...Z, Y, X); idx (M, D) continuous indices in (x, y[, z]) order.

    Returns (values (M, C), valid (M,)) where valid = inside the hull [0, n-1]^D of the sample centres."""
    field = np.asarray(field, dtype=np.float64)
    idx = np.asarray(idx, dtype=np.float64)
    D = idx.shape[1]
    shape = field.shape[1:]
    n = np.array(shape[::-1], dtype=np.float64)  # x first
    valid = np.all((idx >= -eps) & (idx <= n - 1 + eps), axis=1)
    ic = np.clip(idx, 0, n - 1)
    i0 = np.floor(ic)
    i0 = np.minimum(i0, np.maximum(n - 2, 0))
    f = ic - i0
    i0 = i0.astype(int)
    out = np.zeros((idx.shape[0], field.shape[0]))
    for corner in itertools.product((0, 1), repeat=D):
        w = np.ones(idx.shape[0])
        sel = []
        for d in range(D):
            k = np.minimum(i0[:, d] + corner[d], int(n[d]) - 1)
            w = w * (f[:, d] if corner[d] else 1 - f[:, d])
            sel.append(k)
        # array axes are (..., z, y, x): reverse
        vals = field[(slice(None),) + tuple(sel[::-1])]  # (C, M)
        out += (w * vals).T
    return out, valid


def cube_to_index(c: np.ndarray, n: np.ndarray, ac: bool) -> np.ndarray:
    n = np.asarray(n, dtype=np.float64)
    if ac:
        return (c + 1) * (n - 1) / 2
    return (c + 1) * n / 2 - 0.5


def index_to_cube(i: np.ndarray, n: np.ndarray, ac: bool) -> np.ndarray:
    n = np.asarray(n, dtype=np.float64)
    if ac:
        return 2 * i / (n - 1) - 1
    return (2 * i + 1) / n - 1


# ---------------------------------------------------------------------------
class RefLinear:
    kind = "linear"

    def __init__(self, M: np.ndarray):
        self.M = np.asarray(M, dtype=np.float64)  # (N, D, D+1)

    @property
    def N(self):
        return self.M.shape[0]

    def cube_map(self, x: np.ndarray, n: int):
        y = hom_apply(self.M[n % self.N], x)
        return y, np.ones(len(x), dtype=bool)

    def matrix(self, n: int) -> np.ndarray:
        return self.M[n % self.N]

    def norm(self) -> float:
        D = self.M.shape[1]
        return float(max(np.linalg.norm(m[:, :D], 2) for m in self.M))

    def inverse(self) -> "RefLinear":
        return RefLinear(np.stack([hom_inverse(m) for m in self.M]))


class RefDense:
    kind = "dense"

    def __init__(self, u: np.ndarray, ac: bool):
        self.u = np.asarray(u, dtype=np.float64)  # (N, D, ..., X) in cube units of the transform grid
        self.ac = bool(ac)

    @property
    def N(self):
        return self.u.shape[0]

    def n(self) -> np.ndarray:
        return np.array(self.u.shape[2:][::-1], dtype=np.float64)

    def cube_map(self, x: np.ndarray, n: int):
        x = np.asarray(x, dtype=np.float64)
        idx = cube_to_index(x, self.n(), self.ac)
        d, valid = interp_nlinear(self.u[n % self.N], idx)
        return x + d, valid

    def norm(self) -> float:
        return 1.0 + float(np.abs(self.u).max()) if self.u.size else 1.0


class RefSeq:
    kind = "seq"

    def __init__(self, members: List):
        self.members = list(members)

    @property
    def N(self):
        return max([m.N for m in self.members] + [1])

    def cube_map(self, x, n):
        y = np.asarray(x, dtype=np.float64)
        valid = np.ones(len(y), dtype=bool)
        for m in self.members:
            y, v = m.cube_map(y, n)
            valid &= v
        return y, valid

    def is_linear(self):
        return all(is_linear(m) for m in self.members)

    def matrix(self, n):
        D = None
        M = None
        for m in self.members:
            Mm = m.matrix(n)
            M = Mm if M is None else hom_compose(Mm, M)
        return M

    def norm(self):
        r = 1.0
        for m in self.members:
            r *= max(m.norm(), 1.0)
        return r


class RefMulti:
    kind = "multi"

    def __init__(self, members: List):
        self.members = list(members)

    @property
    def N(self):
        return max([m.N for m in self.members] + [1])

    def cube_map(self, x, n):
        x = np.asarray(x, dtype=np.float64)
        y = x.copy()
        valid = np.ones(len(x), dtype=bool)
        for m in self.members:
            ym, v = m.cube_map(x, n)
            y = y + (ym - x)
            valid &= v
        return y, valid

    def is_linear(self):
        return all(is_linear(m) for m in self.members)

    def matrix(self, n):
        """x + sum_i (A_i x + t_i - x)  =  (I + sum_i (A_i - I)) x + sum_i t_i"""
        M = None
        for m in self.members:
            Mm = m.matrix(n)
            D = Mm.shape[0]
            if M is None:
                M = hom(None, None, D)
            M[:, :D] += Mm[:, :D] - np.eye(D)
            M[:, D] += Mm[:, D]
        return M

    def norm(self):
        return sum(max(m.norm(), 1.0) for m in self.members)


def is_linear(ref) -> bool:
    if isinstance(ref, RefLinear):
        return True
    if isinstance(ref, (RefSeq, RefMulti)):
        return ref.is_linear()
    return False


def world_map(ref, rgrid: RefGrid, w: np.ndarray, n: int = 0):
    """World-space denotation: (T(w), valid)."""
    ax = cube_axes(rgrid.ac)
    c = rgrid.map_points(w, WORLD, ax)
    y, valid = ref.cube_map(c, n)
    return rgrid.map_points(y, ax, WORLD), valid


def world_linear_norm(ref, rgrid: RefGrid) -> float:
    """Norm bound of the world-space Jacobian (condition factor for tolerances)."""
    A, _ = rgrid.to_world(cube_axes(rgrid.ac))
    k = float(np.linalg.cond(A))
    return max(1.0, ref.norm()) * max(1.0, k) if not np.isinf(k) else max(1.0, ref.norm())


# ---------------------------------------------------------------------------
# parameter menus (deterministic; table chosen by seed; every table obeys the documented ranges)
_T_SMALL = ((0.1, -0.05, 0.075), (-0.08, 0.11, 0.06), (0.05, 0.09, -0.12), (-0.11, -0.07, 0.04))
_T_LARGE = ((0.6, -0.45, 0.5), (-0.7, 0.35, 0.55), (0.4, 0.65, -0.5), (-0.55, -0.6, 0.45))
_A_SMALL = ((0.1, -0.2, 0.15), (-0.12, 0.18, 0.22), (0.2, 0.1, -0.17), (-0.15, -0.1, 0.2))
_A_LARGE = ((2.5, -1.9, 1.2), (-2.2, 1.4, 2.6), (1.7, 2.4, -2.8), (-2.7, -1.3, 2.1))
_S_SMALL = ((1.1, 0.9, 1.05), (0.92, 1.08, 1.12), (1.06, 1.1, 0.9), (0.95, 0.9, 1.1))
_S_LARGE = ((0.5, 2.0, 1.5), (1.8, 0.6, 0.7), (0.65, 1.6, 2.2), (2.1, 1.4, 0.55))
_K_SMALL = ((0.1, -0.15, 0.05), (-0.08, 0.12, 0.1), (0.14, 0.06, -0.1), (-0.12, -0.05, 0.09))
_K_LARGE = ((0.7, -0.6, 0.5), (-0.65, 0.55, 0.7), (0.5, 0.72, -0.6), (-0.7, -0.5, 0.62))
_Q_AXIS = ((1.0, 2.0, -1.5), (-2.0, 1.0, 1.0), (0.5, -1.0, 2.0), (1.5, 1.0, 1.0))
_Q_ANG = {"small": (0.3, -0.25, 0.4, -0.35), "large": (2.6, -2.2, 2.9, -1.8)}


def _pick(tab, seed, n, D, shift=0):
    row = tab[(seed + shift) % 4]
    return [float(v) for v in row[:D]]


def linear_values(cls: str, D: int, pm: str, groups: int, seed: int, order: Optional[str] = None):
    """Setter values for an elementary linear model: dict(name -> list[groups][k]); pm in default|small|large
    ("const", the constant-field entry of the dense menu, selects the small table for linear members of a composite)."""
    if pm == "const":
        pm = "small"
    out = []
    for n in range(groups):
        sh = n  # second group gets the next table row
        if cls == "Translation":
            v = [0.0] * D if pm == "default" else _pick(_T_SMALL if pm == "small" else _T_LARGE, seed, n, D, sh)
        elif cls == "EulerRotation":
            k = 1 if D == 2 else 3
            v = [0.0] * k if pm == "default" else _pick(_A_SMALL if pm == "small" else _A_LARGE, seed, n, k, sh)
        elif cls == "QuaternionRotation":
            if pm == "default":
                v = None
            else:
                v = quat_from_axis_angle(_Q_AXIS[(seed + sh) % 4], _Q_ANG[pm][(seed + sh) % 4]).tolist()
        elif cls == "IsotropicScaling":
            v = [1.0] if pm == "default" else _pick(_S_SMALL if pm == "small" else _S_LARGE, seed, n, 1, sh)
        elif cls == "AnisotropicScaling":
            v = [1.0] * D if pm == "default" else _pick(_S_SMALL if pm == "small" else _S_LARGE, seed, n, D, sh)
        elif cls == "Shearing":
            k = 1 if D == 2 else 3
            v = [0.0] * k if pm == "default" else _pick(_K_SMALL if pm == "small" else _K_LARGE, seed, n, k, sh)
        elif cls == "HomogeneousTransform":
            if pm == "default":
                v = None
            else:
                a = _pick(_A_SMALL if pm == "small" else _A_LARGE, seed, n, 3, sh)
                s = _pick(_S_SMALL if pm == "small" else _S_LARGE, seed, n, D, sh)
                k = _pick(_K_SMALL if pm == "small" else _K_LARGE, seed, n, 1 if D == 2 else 3, sh)
                t = _pick(_T_SMALL if pm == "small" else _T_LARGE, seed, n, D, sh)
                A = euler_matrix(a[: (1 if D == 2 else 3)], "ZXZ", D) @ shear_matrix(k, D) @ np.diag(s)
                v = hom(A, np.array(t), D).tolist()
        else:
            raise KeyError(cls)
        out.append(v)
    return out


def linear_matrix(cls: str, D: int, values, order: Optional[str] = None) -> Optional[np.ndarray]:
    """(N, D, D+1) reference matrices from setter values (None = model default, expected identity)."""
    mats = []
    for v in values:
        if v is None:
            mats.append(hom(None, None, D))
        elif cls == "Translation":
            mats.append(hom(None, np.array(v), D))
        elif cls == "EulerRotation":
            mats.append(hom(euler_matrix(v, order, D), None, D))
        elif cls == "QuaternionRotation":
            mats.append(hom(quat_matrix(v), None, D))
        elif cls == "IsotropicScaling":
            mats.append(hom(np.eye(D) * v[0], None, D))
        elif cls == "AnisotropicScaling":
            mats.append(hom(np.diag(v), None, D))
        elif cls == "Shearing":
            mats.append(hom(shear_matrix(v, D), None, D))
        elif cls == "HomogeneousTransform":
            mats.append(np.array(v, dtype=np.float64))
        else:
            raise KeyError(cls)
    return np.stack(mats)


def dense_field(shape: Sequence[int], D: int, pm: str, groups: int, seed: int, ac: bool, amp: Optional[float] = None) -> np.ndarray:
    """(N, D, *shape) displacement / velocity / coefficient field in cube units.

    default: zeros; const: one constant vector per group; small / large: smooth band-limited generic field
    of amplitude ~0.15 / ~0.6 of a sample (amp overrides, in samples)."""
    shape = tuple(int(s) for s in shape)
    n = np.array(shape[::-1], dtype=np.float64)
    out = np.zeros((groups, D) + shape)
    if pm == "default":
        return out
    if pm == "const":
        for g in range(groups):
            v = _pick(_T_SMALL, seed, g, D, g)
            for d in range(D):
                out[g, d] = v[d]
        return out
    a = amp if amp is not None else (0.15 if pm == "small" else 0.6)
    sample = 2.0 / np.maximum(n - 1, 1)  # cube units per sample (order of magnitude, either convention)
    idx = np.stack(np.meshgrid(*[np.arange(s, dtype=np.float64) for s in shape], indexing="ij"), axis=0)[::-1]  # x first
    c = np.stack([index_to_cube(idx[d], n[d], ac) for d in range(D)], axis=0)
    ph = (0.3, 1.1, 2.0, 2.9)[seed % 4]
    for g in range(groups):
        for d in range(D):
            arg = ph + 0.7 * g + 1.3 * d
            for e in range(D):
                arg = arg + (1.2 + 0.5 * ((d + e) % D)) * c[e]
            out[g, d] = a * sample[d] * np.sin(arg)
    return out
