"""Reference algebra for homogeneous transforms and 3-D rotations (numpy float64; textbook formulas).

Forms of a homogeneous transformation of D-dimensional points (from the docstrings of deepali.core.linalg):
    translation   (D,) or (..., D, 1)
    affine        (..., D, D)
    homogeneous   (..., D, D + 1)        [A | t],  x -> A x + t
Composition convention: compose(a, b) applies b first, then a.

Rotations: right-handed elementary rotations Rx, Ry, Rz; euler(order, angles) = R_{order[0]}(angles[0]) .
R_{order[1]}(angles[1]) . R_{order[2]}(angles[2]) ("the first angle corresponds to the left-most rotation which is
applied last"); quaternions in (w, x, y, z) order; rotation vectors = axis * angle (Rodrigues).
"""
from __future__ import annotations

import math
from typing import Sequence, Tuple

import numpy as np

TRANSLATION, AFFINE, HOMOGENEOUS = "translation", "affine", "homogeneous"


def classify(shape: Sequence[int]) -> Tuple[str, int]:
    """(kind, D) of a tensor shape, by the documented forms. Raises ValueError for other shapes."""
    shape = tuple(shape)
    if len(shape) == 1:
        return TRANSLATION, shape[0]
    r, c = shape[-2], shape[-1]
    if c == 1:
        return TRANSLATION, r
    if c == r:
        return AFFINE, r
    if c == r + 1:
        return HOMOGENEOUS, r
    raise ValueError(f"not a homogeneous transformation shape: {shape}")


def full(arr) -> np.ndarray:
    """Any form -> full (..., D+1, D+1) matrices (leading dims kept; a (D,) vector has none)."""
    a = np.asarray(arr, dtype=np.float64)
    kind, D = classify(a.shape)
    if a.ndim == 1:
        a = a[:, None]
    lead = a.shape[:-2]
    M = np.zeros(lead + (D + 1, D + 1))
    M[..., np.arange(D + 1), np.arange(D + 1)] = 1.0
    if kind == TRANSLATION:
        M[..., :D, D] = a[..., :, 0]
    elif kind == AFFINE:
        M[..., :D, :D] = a
    else:
        M[..., :D, :] = a
    return M


def compose(*fulls) -> np.ndarray:
    """Product of full matrices with numpy broadcasting of the leading dims (first argument applied last)."""
    out = fulls[0]
    for m in fulls[1:]:
        out = np.matmul(out, m)
    return out


def apply(M: np.ndarray, p: np.ndarray, vectors: bool = False) -> np.ndarray:
    """Apply one full matrix (D+1, D+1) to points (..., D)."""
    D = M.shape[-1] - 1
    q = p @ M[:D, :D].T
    if not vectors:
        q = q + M[:D, D]
    return q


# ---------------------------------------------------------------------------
def Rx(a):
    c, s = math.cos(a), math.sin(a)
    return np.array([[1, 0, 0], [0, c, -s], [0, s, c]], dtype=np.float64)


def Ry(a):
    c, s = math.cos(a), math.sin(a)
    return np.array([[c, 0, s], [0, 1, 0], [-s, 0, c]], dtype=np.float64)


def Rz(a):
    c, s = math.cos(a), math.sin(a)
    return np.array([[c, -s, 0], [s, c, 0], [0, 0, 1]], dtype=np.float64)


ELEMENTARY = {"X": Rx, "Y": Ry, "Z": Rz}

ORDERS = ["XYZ", "XZY", "YXZ", "YZX", "ZXY", "ZYX", "XYX", "XZX", "YXY", "YZY", "ZXZ", "ZYZ"]


def euler(order: str, angles: Sequence[float]) -> np.ndarray:
    R = np.eye(3)
    for ch, a in zip(order.upper(), angles):
        R = R @ ELEMENTARY[ch](float(a))
    return R


def rot2(a: float) -> np.ndarray:
    c, s = math.cos(a), math.sin(a)
    return np.array([[c, -s], [s, c]], dtype=np.float64)


def notation(order: str, kind: str) -> str:
    """Spell a 3-letter order in one of the accepted notations."""
    if kind == "upper":
        return order.upper()
    if kind == "lower":
        return order.lower()
    if kind == "R-o":
        return " o ".join("R" + c.lower() for c in order)
    raise KeyError(kind)


def quat_to_matrix(q) -> np.ndarray:
    """(w, x, y, z), normalised first."""
    q = np.asarray(q, dtype=np.float64)
    w, x, y, z = q / np.linalg.norm(q)
    return np.array(
        [
            [1 - 2 * (y * y + z * z), 2 * (x * y - w * z), 2 * (x * z + w * y)],
            [2 * (x * y + w * z), 1 - 2 * (x * x + z * z), 2 * (y * z - w * x)],
            [2 * (x * z - w * y), 2 * (y * z + w * x), 1 - 2 * (x * x + y * y)],
        ]
    )


def rodrigues(v) -> np.ndarray:
    """Rotation vector (axis * angle) -> matrix."""
    v = np.asarray(v, dtype=np.float64)
    th = float(np.linalg.norm(v))
    if th == 0.0:
        return np.eye(3)
    k = v / th
    K = np.array([[0, -k[2], k[1]], [k[2], 0, -k[0]], [-k[1], k[0], 0]])
    return np.eye(3) + math.sin(th) * K + (1 - math.cos(th)) * (K @ K)


def axis_angle_quat(axis, angle) -> np.ndarray:
    axis = np.asarray(axis, dtype=np.float64)
    axis = axis / np.linalg.norm(axis)
    return np.concatenate([[math.cos(angle / 2)], math.sin(angle / 2) * axis])


def is_rotation(R: np.ndarray, tol: float):
    """Returns None if R is a proper rotation within tol, else a description."""
    D = R.shape[-1]
    e = np.abs(R.T @ R - np.eye(D)).max()
    if e > tol:
        return f"R^T R deviates from I by {e:.3e}"
    d = np.linalg.det(R)
    if abs(d - 1.0) > tol * D:
        return f"det = {d:.6f}"
    return None
