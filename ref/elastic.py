"""Reference: elastic constants of an isotropic linear material and analytic regulariser values (float64).

Ground truth is a pair (lambda, mu) (Lame's first parameter, shear modulus).  The other two constants follow from
the textbook forward formulas

    E  = mu (3 lambda + 2 mu) / (lambda + mu)          Young's modulus
    nu = lambda / (2 (lambda + mu))                    Poisson's ratio

so a conversion routine is checked by feeding it ANY two of (lambda, mu, nu, E) computed from the ground truth and
expecting (lambda, mu) back; no inverse formula is needed in the oracle.

Regulariser values for a field with constant Jacobian A (A[i, j] = d u_i / d x_j) and Hessians H_k:

    diffusion   1/2 sum_ij A_ij^2                       divergence  1/2 (tr A)^2
    elasticity  lambda/2 (tr A)^2 + mu/4 sum_jk (A_jk + A_kj)^2       (Fischer & Modersitzki elastic potential)
    TV          sum_ij |A_ij|                           grad(p, q)  (sum_ij |A_ij|^p)^q ; p = 0: sum_ij A_ij ; q = 0: |.|
    bending     sum_k ||H_k||_F^2                        curvature   1/2 sum_k (tr H_k)^2
"""
from __future__ import annotations

import itertools
import math

import numpy as np

# four tables (VERIF_SEED) of four valid materials (lambda, mu): positive, 0 < nu < 1/2, well away from 1e-9
MATERIALS = (
    ((1.0, 1.0), (2.0, 0.5), (0.75, 3.0), (10.0, 0.25)),
    ((0.5, 2.0), (3.0, 1.5), (1.25, 0.75), (8.0, 0.125)),
    ((2.5, 1.0), (0.25, 0.5), (4.0, 3.0), (6.0, 0.375)),
    ((1.5, 0.25), (0.625, 1.75), (5.0, 2.0), (12.0, 0.5)),
)

# boundary values of the admissible range: nu = 0 <=> lambda = 0 (mu = 1 and a dyadic fraction), nearly incompressible, auxetic (nu = -0.3)
BOUNDARY_MATERIALS = ((0.0, 1.0), (0.0, 0.25), (24.5, 0.5), (-0.375, 1.0))


def undetermined(names, lam, mu):
    """Reason why the given pair of quantities does not determine (lambda, mu) for this material, else ''."""
    q = {"first_parameter": "lambda", "second_parameter": "mu", "shear_modulus": "mu", "poissons_ratio": "nu", "youngs_modulus": "E"}
    kinds = {q[n] for n in names}
    if kinds == {"lambda", "nu"} and lam == 0:
        return "pair (lambda = 0, nu = 0) does not determine mu"
    if kinds == {"lambda", "E"} and lam < 0:
        return "pair (lambda < 0, E) has two admissible shear moduli"
    return ""


NAMES = ("first_parameter", "second_parameter", "shear_modulus", "poissons_ratio", "youngs_modulus")


def constants(lam: float, mu: float) -> dict:
    E = mu * (3 * lam + 2 * mu) / (lam + mu)
    nu = lam / (2 * (lam + mu))
    return {"first_parameter": lam, "second_parameter": mu, "shear_modulus": mu, "poissons_ratio": nu, "youngs_modulus": E}


def pairs():
    """All admissible argument pairs (the alias pair second_parameter+shear_modulus names one quantity twice)."""
    out = []
    for a, b in itertools.combinations(NAMES, 2):
        if {a, b} == {"second_parameter", "shear_modulus"}:
            continue
        out.append((a, b))
    return out


def pair_kind(a: str, b: str) -> str:
    q = {"first_parameter": "lambda", "second_parameter": "mu", "shear_modulus": "mu", "poissons_ratio": "nu", "youngs_modulus": "E"}
    return q[a] + "+" + q[b]


# rubber preset: literature values quoted in the docstring's sources (Poisson's ratio 0.4999, shear modulus 0.0006 GPa)
RUBBER = {"poissons_ratio": 0.4999, "shear_modulus": 0.0006}


def rubber_lame():
    nu, mu = RUBBER["poissons_ratio"], RUBBER["shear_modulus"]
    return 2 * mu * nu / (1 - 2 * nu), mu


# ---------------------------------------------------------------------------
def diffusion(A):
    return 0.5 * float(np.sum(np.asarray(A) ** 2))


def divergence(A):
    return 0.5 * float(np.trace(A)) ** 2


def elasticity(A, lam, mu):
    A = np.asarray(A, float)
    return lam / 2 * float(np.trace(A)) ** 2 + mu / 4 * float(np.sum((A + A.T) ** 2))


def total_variation(A):
    return float(np.sum(np.abs(A)))


def grad(A, p, q):
    A = np.asarray(A, float)
    if q is None:
        q = 1.0 / p
    if p == 0:
        g = float(np.sum(A))
    elif p == 1:
        g = float(np.sum(np.abs(A)))
    else:
        g = float(np.sum(np.abs(A) ** p))
    if q == 0:
        return abs(g)
    if q == 1:
        return g
    return g ** q


def bending(H):
    """H: (D, D, D) with H[k, a, b] = d2 u_k / dx_a dx_b."""
    return float(np.sum(np.asarray(H) ** 2))


def curvature(H):
    H = np.asarray(H, float)
    return 0.5 * float(sum(np.trace(H[k]) ** 2 for k in range(H.shape[0])))


def homogeneity(fn: str, args: dict):
    """(degree in the field, degree in 1/spacing) of a regulariser: loss(c u, k h) = |c|^a k^-b loss(u, h)."""
    if fn in ("bending_loss", "curvature_loss"):
        return 2.0, 4.0
    if fn in ("diffusion_loss", "divergence_loss", "elasticity_loss"):
        return 2.0, 2.0
    if fn == "total_variation_loss":
        return 1.0, 1.0
    if fn == "grad_loss":
        p, q = args.get("p", 2), args.get("q", 1)
        if q is None:
            q = 1.0 / p
        if p == 0:
            a = 1.0 if q == 0 else q
        else:
            a = p * (1.0 if q == 0 else q)
        return a, a
    raise KeyError(fn)
