"""Memory-layout variants of a tensor with identical values (used by the `layout` sub-checks of C08 / C14).

    contig      contiguous copy
    transposed  transposed view of a transposed copy (last two dims; strides swapped, not contiguous)
    sliced      step-sliced view big[..., ::2] of a buffer twice as long in the last dim
    expanded    stride-0 batch: value.unsqueeze(0).expand(n, ...)   (only for batch-invariant operands)
"""
from __future__ import annotations

import torch

FORMS = ("contig", "transposed", "sliced", "expanded")


def relayout(t: torch.Tensor, form: str, n: int = 0) -> torch.Tensor:
    """Return a tensor equal to t (or to t repeated n times along a new leading dim for 'expanded'/'repeat')."""
    if form == "contig":
        return t.clone().contiguous()
    if form == "transposed":
        if t.ndim < 2:
            raise ValueError("transposed layout needs >= 2 dims")
        return t.transpose(-1, -2).contiguous().transpose(-1, -2)
    if form == "sliced":
        big = torch.zeros(tuple(t.shape[:-1]) + (2 * t.shape[-1],), dtype=t.dtype)
        big[..., ::2] = t
        big[..., 1::2] = 7  # garbage between the elements
        return big[..., ::2]
    if form == "expanded":
        return t.clone().unsqueeze(0).expand((n,) + tuple(t.shape))
    if form == "repeat":  # contiguous reference of 'expanded'
        return t.clone().unsqueeze(0).repeat((n,) + (1,) * t.ndim).contiguous()
    raise KeyError(form)


def applicable(t: torch.Tensor, form: str) -> bool:
    if form == "transposed":
        return t.ndim >= 2 and t.shape[-1] > 1 and t.shape[-2] > 1
    if form == "sliced":
        return t.ndim >= 1 and t.shape[-1] > 1
    return True
