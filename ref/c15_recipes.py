"""Argument recipes for C15: every public function of deepali.core.functional and deepali.losses.functional.

A recipe is a function `r(m)` that receives a `Maker` (dimension D, aliasing form) and returns a list of
`(label, thunk)` call variants.  Every tensor argument is created through `m.t(name, values)` which

  * stores the logical `values` in the aliasing form of this run
        contig  fresh contiguous tensor
        view    interior of a larger base tensor (guard band of sentinels on every side; offset, non-contiguous)
        perm    same logical values with reversed memory order (non-contiguous strides)
        expand  stride-0 broadcast of the first batch entry (only where the leading dim is > 1)
  * registers the tensor for the before / after comparison (own bytes, whole storage bytes, `_version`).

Grid-like object arguments are registered with `m.obj(name, grid)`.

A function of `__all__` without a recipe is reported as uncovered API by the check (never silently skipped).
Explicit in-place variants (`inplace=True`, `out=`, trailing underscore) are not called.
"""
from __future__ import annotations

import math

import torch
from torch import Tensor

from deepali.core.enum import PaddingMode

FORMS = ("contig", "view", "perm", "expand")
SENTINEL = 7.0


def vals(shape, k=1, lo=-1.0, hi=1.0, dtype=torch.float32) -> Tensor:
    """Deterministic, non-constant, non-symmetric values in [lo, hi)."""
    n = 1
    for s in shape:
        n *= int(s)
    a = (torch.arange(n, dtype=torch.float64) * (37 + 2 * k) + 11 * k) % 101
    a = a / 101.0 * (hi - lo) + lo
    if dtype in (torch.int32, torch.int64, torch.uint8, torch.int16):
        a = a.floor()
    return a.reshape(tuple(shape)).to(dtype)


class Maker:
    def __init__(self, D: int, form: str):
        self.D = D
        self.form = form
        self.watch = []  # (name, tensor)
        self.objs = []  # (name, object)
        self.N = 2
        self.C = 2
        self.S = (6, 7) if D == 2 else (4, 5, 6)

    # -- aliasing forms ---------------------------------------------------
    def t(self, name: str, values: Tensor, form: str = None) -> Tensor:
        form = form or self.form
        v = values.detach().clone()
        if form == "contig":
            t = v
        elif form == "view":
            if v.ndim == 0:
                base = torch.stack([torch.full_like(v, SENTINEL), v, torch.full_like(v, SENTINEL)])
                t = base[1]
            else:
                base = torch.full(tuple(s + 2 for s in v.shape), SENTINEL, dtype=torch.float64).to(v.dtype)
                inner = tuple(slice(1, -1) for _ in v.shape)
                base[inner] = v
                t = base[inner]
        elif form == "perm":
            if v.ndim >= 2:
                rev = tuple(reversed(range(v.ndim)))
                t = v.permute(rev).contiguous().permute(rev)
            elif v.ndim == 1:
                base = torch.stack([v, torch.full_like(v, SENTINEL)], dim=-1).contiguous()
                t = base[:, 0]
            else:
                t = v
        elif form == "expand":
            if v.ndim >= 1 and v.shape[0] > 1:
                t = v[0:1].clone().expand(v.shape)
            else:
                t = v
        elif form in ("transposed", "sliced"):  # ref/layout.py: same values, non-contiguous view
            from ref.layout import applicable, relayout

            t = relayout(v, form) if applicable(v, form) else v
        elif form in ("expanded", "repeat"):  # stride-0 batch of the first entry / its contiguous reference
            from ref.layout import relayout

            t = relayout(v[0], form, v.shape[0]) if (v.ndim >= 2 and v.shape[0] > 1) else v
        else:
            raise KeyError(form)
        self.watch.append((name, t))
        return t

    def obj(self, name: str, o):
        self.objs.append((name, o))
        return o

    # -- value menus ------------------------------------------------------
    def img(self, name="data", C=None, N=None, k=1, dtype=torch.float32, lo=-1.0, hi=1.0, S=None):
        C = self.C if C is None else C
        N = self.N if N is None else N
        S = self.S if S is None else S
        if dtype != torch.float32 and dtype != torch.float64:
            lo, hi = 0, 10
        return self.t(name, vals((N, C) + tuple(S), k, lo, hi, dtype))

    def prob(self, name="input", C=1, k=3):
        return self.t(name, vals((self.N, C) + self.S, k, 0.05, 0.95))

    def flow(self, name="flow", N=None, k=2, amp=0.1, S=None):
        N = self.N if N is None else N
        S = self.S if S is None else S
        return self.t(name, vals((N, self.D) + tuple(S), k, -amp, amp))

    def coords(self, name="grid", N=None, k=4, S=None):
        """Normalised sample coordinates (N, ..., X, D) inside [-0.9, 0.9]."""
        N = self.N if N is None else N
        S = self.S if S is None else S
        return self.t(name, vals((N,) + tuple(S) + (self.D,), k, -0.9, 0.9))

    def pts(self, name="points", N=None, M=5, k=5, D=None):
        N = self.N if N is None else N
        D = self.D if D is None else D
        return self.t(name, vals((N, M, D), k, -0.9, 0.9))

    def mat(self, name="matrix", N=None, cols=None, k=6, D=None):
        """Near-identity homogeneous matrices (N, D, cols); cols in {1, D, D+1}."""
        N = self.N if N is None else N
        D = self.D if D is None else D
        cols = D + 1 if cols is None else cols
        m = vals((N, D, cols), k, -0.2, 0.2)
        if cols >= D:
            m[:, :, :D] += torch.eye(D)
        return self.t(name, m)

    def vec(self, name, n, N=None, k=7, lo=-0.5, hi=0.5):
        N = self.N if N is None else N
        return self.t(name, vals((N, n), k, lo, hi))

    def mask(self, name="mask", C=1, k=8, dtype=torch.float32):
        m = (vals((self.N, C) + self.S, k, 0.0, 1.0) > 0.3).to(dtype)
        return self.t(name, m)

    def labels(self, name="labels", K=3, k=9, C=1):
        v = vals((self.N, C) + self.S, k, 0, K, torch.int64).clamp_(0, K - 1)
        return self.t(name, v)

    def grid(self, name="grid", ac=True, S=None):
        from deepali.core.grid import Grid

        S = self.S if S is None else S
        D = len(S)
        sp = (0.5, 1.25, 2.0)[:D]
        org = (10.5, -3.25, 100.0)[:D]
        return self.obj(name, Grid(size=tuple(reversed(S)), spacing=sp, origin=org, align_corners=ac))


# ---------------------------------------------------------------------------
CORE: dict = {}
LOSS: dict = {}


def core(*names):
    def deco(f):
        for n in names:
            CORE[n] = f
        return f

    return deco


def loss(*names):
    def deco(f):
        for n in names:
            LOSS[n] = f
        return f

    return deco


def _F():
    import deepali.core.functional as F

    return F


def _L():
    import deepali.losses.functional as L

    return L


def _fn(mod, name):
    return getattr(mod, name)


# ---- deepali.core.functional ---------------------------------------------------------------------
@core("abspow")
def _(m, name="abspow"):
    F = _F()
    x = m.img("x")
    return [(f"exponent={e}", (lambda e: lambda: F.abspow(x, e))(e)) for e in (2, 1, 0.5, 0)]


@core("as_tensor")
def _(m, name="as_tensor"):
    F = _F()
    x = m.img("arg")
    xi = m.img("arg_int", dtype=torch.int32)
    return [
        ("same", lambda: F.as_tensor(x)),
        ("same-dtype-device", lambda: F.as_tensor(x, dtype=torch.float32, device=torch.device("cpu"))),
        ("to-float64", lambda: F.as_tensor(x, dtype=torch.float64)),
        ("int", lambda: F.as_tensor(xi)),
        ("list-of-tensors", lambda: F.as_tensor([x[0, 0, 0, 0] if m.D == 2 else x[0, 0, 0, 0, 0], 1.0])),
    ]


@core("as_float_tensor")
def _(m, name="as_float_tensor"):
    F = _F()
    x = m.img("arr")
    xi = m.img("arr_int", dtype=torch.int32)
    xd = m.img("arr_f64", dtype=torch.float64)
    return [("float32", lambda: F.as_float_tensor(x)), ("int32", lambda: F.as_float_tensor(xi)), ("float64", lambda: F.as_float_tensor(xd))]


@core("as_one_hot_tensor")
def _(m, name="as_one_hot_tensor"):
    F = _F()
    lab = m.labels("tensor", K=3)
    onehot = m.t("tensor_onehot", (vals((m.N, 3) + m.S, 4, 0, 1) > 0.5).float())
    return [
        ("labels", lambda: F.as_one_hot_tensor(lab, 3)),
        ("labels-ignore", lambda: F.as_one_hot_tensor(lab, 3, ignore_index=2)),
        ("already-onehot", lambda: F.as_one_hot_tensor(onehot, 3)),
        ("dtype", lambda: F.as_one_hot_tensor(lab, 3, dtype=torch.float32)),
    ]


@core("atanh")
def _(m, name="atanh"):
    F = _F()
    x = m.t("x", vals((m.N, 5), 1, -0.9, 0.9))
    return [("x", lambda: F.atanh(x))]


@core("atleast_1d")
def _(m, name="atleast_1d"):
    F = _F()
    s = m.t("arr0", torch.tensor(1.5))
    v = m.t("arr1", vals((4,), 2))
    return [
        ("0d", lambda: F.atleast_1d(s)),
        ("1d", lambda: F.atleast_1d(v)),
        ("1d-dtype", lambda: F.atleast_1d(v, dtype=torch.float64)),
        ("1d-same-dtype", lambda: F.atleast_1d(v, dtype=torch.float32, device=torch.device("cpu"))),
    ]


@core("batched_index_select")
def _(m, name="batched_index_select"):
    F = _F()
    x = m.pts("input", M=6)
    idx = m.t("index", torch.tensor([[0, 2, 5], [1, 1, 4]]))
    return [("dim=1", lambda: F.batched_index_select(x, 1, idx))]


@core("max_difference")
def _(m, name="max_difference"):
    F = _F()
    a, b = m.img("source"), m.img("target", k=2)
    return [("two", lambda: F.max_difference(a, b)), ("same", lambda: F.max_difference(a, a))]


@core("move_dim")
def _(m, name="move_dim"):
    F = _F()
    x = m.img("tensor")
    return [
        ("1->-1", lambda: F.move_dim(x, 1, -1)),
        ("noop", lambda: F.move_dim(x, 1, 1)),
        ("-1->1", lambda: F.move_dim(x, -1, 1)),
        ("0->2", lambda: F.move_dim(x, 0, 2)),
    ]


@core("round_decimals")
def _(m, name="round_decimals"):
    F = _F()
    x = m.img("tensor", lo=-3, hi=3)
    return [(f"decimals={d}", (lambda d: lambda: F.round_decimals(x, d))(d)) for d in (0, 2, -1, 5)] + [
        ("decimals=kw", lambda: F.round_decimals(x, decimals=3))
    ]


@core("threshold")
def _(m, name="threshold"):
    F = _F()
    x = m.img("data")
    lo = m.t("min_t", torch.tensor(-0.2))
    return [
        ("min", lambda: F.threshold(x, 0.0)),
        ("max", lambda: F.threshold(x, None, 0.5)),
        ("both", lambda: F.threshold(x, -0.2, 0.2)),
        ("none", lambda: F.threshold(x, None, None)),
        ("tensor-min", lambda: F.threshold(x, lo)),
    ]


@core("unravel_coords")
def _(m, name="unravel_coords"):
    F = _F()
    idx = m.t("indices", torch.tensor([0, 5, 17, 29]))
    return [("size", lambda: F.unravel_coords(idx, tuple(reversed(m.S))))]


@core("unravel_index")
def _(m, name="unravel_index"):
    F = _F()
    idx = m.t("indices", torch.tensor([0, 5, 17, 29]))
    return [("shape", lambda: F.unravel_index(idx, m.S))]


@core("multinomial")
def _(m, name="multinomial"):
    F = _F()
    p = m.t("input", vals((m.N, 9), 2, 0.1, 1.0))
    p1 = m.t("input1d", vals((9,), 3, 0.1, 1.0))
    big = m.t("input_big", vals((m.N, 40), 4, 0.1, 1.0))

    def gen():
        return torch.Generator().manual_seed(0)

    return [
        ("no-replacement", lambda: F.multinomial(p, 4, generator=gen())),
        ("replacement", lambda: F.multinomial(p, 12, replacement=True, generator=gen())),
        ("1d", lambda: F.multinomial(p1, 3, generator=gen())),
        ("big", lambda: F.multinomial(big, 30, generator=gen())),
    ]


@core("affine_flow")
def _(m, name="affine_flow"):
    F = _F()
    A = m.mat("matrix")
    A1 = m.mat("matrix1", N=1)
    T = m.mat("translation", cols=1)
    g = m.grid("grid")
    x = m.coords("grid_tensor", N=1)
    return [
        ("Grid", lambda: F.affine_flow(A, g)),
        ("Grid-N1", lambda: F.affine_flow(A1, g)),
        ("Grid-translation", lambda: F.affine_flow(T, g)),
        ("tensor", lambda: F.affine_flow(A1, x)),
        ("channels_last", lambda: F.affine_flow(A, g, channels_last=True)),
    ]


@core("affine_rotation_matrix")
def _(m, name="affine_rotation_matrix"):
    F = _F()
    if m.D != 3:
        return []
    A = m.mat("matrix")
    R = m.mat("square", cols=m.D)
    return [("affine", lambda: F.affine_rotation_matrix(A)), ("square", lambda: F.affine_rotation_matrix(R))]


@core("affine_transform_points", "affine_transform_vectors", "apply_affine_transform", "homogeneous_transform", "transform_points")
def _(m, name="affine_transform_points"):
    F = _F()
    f = getattr(F, name)
    A, A1, T, R = m.mat("transform"), m.mat("transform1", N=1), m.mat("translation", cols=1), m.mat("square", cols=m.D)
    p, p1 = m.pts("points"), m.pts("points1", N=1)
    pg = m.coords("points_grid")
    pi = m.t("points_int", vals((m.N, 5, m.D), 3, 0, 5, torch.int64))
    out = [
        ("NxN", lambda: f(A, p)),
        ("1xN", lambda: f(A1, p)),
        ("Nx1", lambda: f(A, p1)),
        ("translation", lambda: f(T, p)),
        ("square", lambda: f(R, p)),
        ("grid-shaped", lambda: f(A, pg)),
        ("int-points", lambda: f(A, pi)),
    ]
    if name in ("apply_affine_transform", "homogeneous_transform"):
        out += [("vectors", lambda: f(A, p, vectors=True)), ("vectors-translation", lambda: f(T, p, vectors=True))]
    if name == "transform_points":
        out += [("ac=False", lambda: f(A, p, align_corners=False))]
    return out


@core("transform_grid")
def _(m, name="transform_grid"):
    F = _F()
    A, T = m.mat("transform"), m.mat("translation", cols=1)
    g, g1 = m.coords("grid"), m.coords("grid1", N=1)
    return [
        ("NxN", lambda: F.transform_grid(A, g)),
        ("Nx1", lambda: F.transform_grid(A, g1)),
        ("translation", lambda: F.transform_grid(T, g)),
        ("ac=False", lambda: F.transform_grid(A, g, align_corners=False)),
    ]


def _only3d(m):
    return m.D == 3


@core("angle_axis_to_rotation_matrix", "angle_axis_to_quaternion", "quaternion_log_to_exp")
def _(m, name=""):
    F = _F()
    f = getattr(F, name)
    if not _only3d(m):
        return []
    a = m.vec("arg", 3, N=3)
    z = m.t("arg_zero", torch.zeros(2, 3))
    return [("generic", lambda: f(a)), ("zero", lambda: f(z))]


@core("normalize_quaternion", "quaternion_to_angle_axis", "quaternion_to_rotation_matrix", "quaternion_exp_to_log")
def _(m, name=""):
    F = _F()
    f = getattr(F, name)
    if not _only3d(m):
        return []
    q = m.t("quaternion", vals((3, 4), 3, 0.1, 1.0))
    qn = m.t("unit", torch.tensor([[1.0, 0.0, 0.0, 0.0], [0.5, 0.5, 0.5, 0.5]]))
    return [("generic", lambda: f(q)), ("unit", lambda: f(qn))]


@core("rotation_matrix_to_angle_axis", "rotation_matrix_to_quaternion")
def _(m, name=""):
    F = _F()
    f = getattr(F, name)
    if not _only3d(m):
        return []
    c, s = math.cos(0.3), math.sin(0.3)
    R = torch.tensor([[[c, -s, 0.0], [s, c, 0.0], [0.0, 0.0, 1.0]], [[1.0, 0.0, 0.0], [0.0, c, -s], [0.0, s, c]]])
    r = m.t("rotation_matrix", R)
    e = m.t("identity", torch.eye(3).unsqueeze(0).repeat(2, 1, 1))
    return [("generic", lambda: f(r)), ("identity", lambda: f(e))]


@core("as_homogeneous_matrix", "as_homogeneous_tensor")
def _(m, name=""):
    F = _F()
    f = getattr(F, name)
    A, R, T = m.mat("affine"), m.mat("square", cols=m.D), m.mat("translation", cols=1)
    v = m.vec("vector", m.D)
    H = torch.zeros(m.N, m.D + 1, m.D + 1)
    H[:, : m.D] = vals((m.N, m.D, m.D + 1), 2, -0.3, 0.3)
    H[:, m.D, m.D] = 1
    h = m.t("full", H)
    return [
        ("affine", lambda: f(A)),
        ("square", lambda: f(R)),
        ("translation", lambda: f(T)),
        ("vector", lambda: f(v)),
        ("full", lambda: f(h)),
        ("affine-dtype", lambda: f(A, dtype=torch.float64)),
        ("affine-same-dtype", lambda: f(A, dtype=torch.float32, device=torch.device("cpu"))),
    ]


@core("euler_rotation_matrix", "rotation_matrix")
def _(m, name=""):
    F = _F()
    f = getattr(F, name)
    out = []
    if m.D == 3:
        a = m.vec("angles", 3)
        a1 = m.t("angles1d", vals((3,), 3, -0.5, 0.5))
        out += [
            ("default", lambda: f(a)),
            ("ZXZ", lambda: f(a, order="ZXZ")),
            ("XYZ", lambda: f(a, order="XYZ")),
            ("YXY-homogeneous", lambda: f(a, order="YXY", homogeneous=True)),
            ("1d", lambda: f(a1)),
            ("dtype", lambda: f(a, dtype=torch.float64)),
        ]
    else:
        a = m.vec("angles", 1)
        out += [("2d", lambda: f(a)), ("2d-homogeneous", lambda: f(a, homogeneous=True))]
    return out


@core("euler_rotation_angles")
def _(m, name=""):
    F = _F()
    if m.D == 3:
        c, s = math.cos(0.3), math.sin(0.3)
        R = torch.tensor([[[c, -s, 0.0], [s, c, 0.0], [0.0, 0.0, 1.0]], [[1.0, 0.0, 0.0], [0.0, c, -s], [0.0, s, c]]])
        r = m.t("matrix", R)
        return [("default", lambda: F.euler_rotation_angles(r)), ("ZXZ", lambda: F.euler_rotation_angles(r, "ZXZ"))]
    c, s = math.cos(0.3), math.sin(0.3)
    r = m.t("matrix", torch.tensor([[[c, -s], [s, c]], [[c, s], [-s, c]]]))
    return [("2d", lambda: F.euler_rotation_angles(r))]


@core("euler_rotation_order")
def _(m, name=""):
    F = _F()
    return [("none", lambda: F.euler_rotation_order(None, m.D)), ("zxz", lambda: F.euler_rotation_order("zxz", 3))]


@core("hmm", "homogeneous_matmul")
def _(m, name=""):
    F = _F()
    f = getattr(F, name)
    A, B, T, R = m.mat("a"), m.mat("b", k=3), m.mat("t", cols=1), m.mat("r", cols=m.D)
    A1 = m.mat("a1", N=1)
    out = [
        ("AxB", lambda: f(A, B)),
        ("AxT", lambda: f(A, T)),
        ("TxA", lambda: f(T, A)),
        ("TxT", lambda: f(T, T)),
        ("RxT", lambda: f(R, T)),
        ("TxR", lambda: f(T, R)),
        ("RxR", lambda: f(R, R)),
        ("AxR", lambda: f(A, R)),
        ("A1xB", lambda: f(A1, B)),
        ("AxA-same", lambda: f(A, A)),
    ]
    if name == "homogeneous_matmul":
        out += [("single", lambda: f(A)), ("three", lambda: f(T, A, R)), ("three-T", lambda: f(T, T, T))]
    return out


@core("homogeneous_matrix")
def _(m, name=""):
    F = _F()
    R, A, T = m.mat("tensor", cols=m.D), m.mat("affine"), m.mat("translation", cols=1)
    o = m.vec("offset", m.D)
    return [
        ("square", lambda: F.homogeneous_matrix(R)),
        ("square+offset", lambda: F.homogeneous_matrix(R, offset=o)),
        ("affine", lambda: F.homogeneous_matrix(A)),
        ("affine+offset", lambda: F.homogeneous_matrix(A, offset=o)),
        ("translation", lambda: F.homogeneous_matrix(T)),
        ("translation+offset", lambda: F.homogeneous_matrix(T, offset=o)),
        ("dtype", lambda: F.homogeneous_matrix(A, dtype=torch.float64)),
    ]


@core("identity_transform")
def _(m, name=""):
    F = _F()
    return [("shape", lambda: F.identity_transform((2, m.D, m.D + 1))), ("homogeneous", lambda: F.identity_transform(m.D, m.D, homogeneous=True))]


@core("scaling_transform", "translation")
def _(m, name=""):
    F = _F()
    f = getattr(F, name)
    s = m.vec("arg", m.D, lo=0.5, hi=1.5)
    s1 = m.t("arg1d", vals((m.D,), 2, 0.5, 1.5))
    return [("batch", lambda: f(s)), ("1d", lambda: f(s1)), ("homogeneous", lambda: f(s, homogeneous=True)), ("dtype", lambda: f(s, dtype=torch.float64))]


@core("shear_matrix")
def _(m, name=""):
    F = _F()
    n = m.D * (m.D - 1) // 2
    a = m.vec("angles", n)
    return [("batch", lambda: F.shear_matrix(a)), ("homogeneous", lambda: F.shear_matrix(a, homogeneous=True))]


@core("tensordot")
def _(m, name=""):
    F = _F()
    a = m.t("a", vals((3, 4, 5), 1))
    b = m.t("b", vals((4, 5, 2), 2))
    c = m.t("c", vals((5, 6), 3))
    return [("dims=2", lambda: F.tensordot(a, b)), ("dims=1", lambda: F.tensordot(a, c, dims=1)), ("dims=lists", lambda: F.tensordot(a, b, dims=([1, 2], [0, 1])))]


@core("vectordot")
def _(m, name=""):
    F = _F()
    a, b = m.pts("a"), m.pts("b", k=2)
    w = m.t("w", vals((m.D,), 3, 0.5, 1.5))
    return [("plain", lambda: F.vectordot(a, b)), ("weighted", lambda: F.vectordot(a, b, w)), ("dim=1", lambda: F.vectordot(a, b, dim=1)), ("same", lambda: F.vectordot(a, a))]


@core("vector_rotation")
def _(m, name=""):
    F = _F()
    if m.D != 3:
        return []
    a = m.t("a", vals((4, 3), 1, 0.1, 1.0))
    b = m.t("b", vals((4, 3), 2, 0.1, 1.0))
    return [("pairs", lambda: F.vector_rotation(a, b)), ("same", lambda: F.vector_rotation(a, a))]


@core("avg_pool", "max_pool", "min_pool")
def _(m, name=""):
    F = _F()
    f = getattr(F, name)
    x = m.img("data")
    xi = m.img("data_int", dtype=torch.int32)
    return [
        ("k=2", lambda: f(x, 2)),
        ("k=1", lambda: f(x, 1)),
        ("k=3,s=1,p=1", lambda: f(x, 3, stride=1, padding=1)),
        ("ceil", lambda: f(x, 2, ceil_mode=True)),
    ] + ([("int", lambda: f(xi, 2))] if name != "avg_pool" else [])


@core("bounding_box")
def _(m, name=""):
    F = _F()
    p = m.pts("points")
    p2 = m.t("points2d", vals((7, m.D), 2))
    return [("batch", lambda: F.bounding_box(p)), ("flat", lambda: F.bounding_box(p2))]


@core("bspline_interpolation_weights")
def _(m, name=""):
    F = _F()
    return [("s=2", lambda: F.bspline_interpolation_weights(3, 2)), ("s=tuple", lambda: F.bspline_interpolation_weights(3, (2, 3)))]


@core("center_crop", "center_pad")
def _(m, name=""):
    F = _F()
    f = getattr(F, name)
    x = m.img("data")
    same = tuple(reversed(m.S))
    return [
        ("int", lambda: f(x, 4 if name == "center_crop" else 9)),
        ("same-size", lambda: f(x, same)),
        ("tuple", lambda: f(x, tuple(s - 2 if name == "center_crop" else s + 3 for s in same))),
    ] + ([("replicate", lambda: f(x, 9, mode="replicate")), ("value", lambda: f(x, 9, value=2.0))] if name == "center_pad" else [])


@core("circle_image", "cshape_image", "grid_image", "empty_image", "ones_image", "zeros_image", "zeros_flow")
def _(m, name=""):
    F = _F()
    f = getattr(F, name)
    if name in ("circle_image", "cshape_image") and m.D != 2:
        return []
    g = m.grid("size_grid")
    size = tuple(reversed(m.S))
    if name == "cshape_image":
        kw = dict(center=(3.0, 3.0), radius=2.0, width=1.0)
        return [("size", lambda: f(size, **kw)), ("Grid", lambda: f(g, **kw)), ("shape", lambda: f(shape=m.S, **kw)), ("num", lambda: f(size, num=2, sigma=1.0, **kw))]
    out = [("size", lambda: f(size)), ("Grid", lambda: f(g)), ("shape", lambda: f(shape=m.S)), ("num", lambda: f(size, num=2))]
    if name in ("empty_image", "ones_image", "zeros_image"):
        out.append(("channels", lambda: f(size, num=2, channels=3)))
    if name == "grid_image":
        out.append(("stride", lambda: f(size, stride=2, inverted=True)))
    return out


@core("closest_point_distances", "closest_point_indices", "distance_matrix")
def _(m, name=""):
    F = _F()
    f = getattr(F, name)
    x, y = m.pts("x", M=6), m.pts("y", M=4, k=2)
    out = [("xy", lambda: f(x, y)), ("xx", lambda: f(x, x))]
    if name != "distance_matrix":
        out.append(("split", lambda: f(x, y, split_size=2)))
    return out


@core("compose_flows")
def _(m, name=""):
    F = _F()
    u, v = m.flow("u", N=1), m.flow("v", k=3, N=1)
    z = m.t("zero", torch.zeros((1, m.D) + m.S))
    u2, v2 = m.flow("u2"), m.flow("v2", k=3)
    return [
        ("N=2", lambda: F.compose_flows(u2, v2)),
        ("uv", lambda: F.compose_flows(u, v)),
        ("ac=False", lambda: F.compose_flows(u, v, align_corners=False)),
        ("uu", lambda: F.compose_flows(u, u)),
        ("zero-u", lambda: F.compose_flows(z, v)),
        ("zero-v", lambda: F.compose_flows(u, z)),
    ]


@core("compose_svfs", "lie_bracket")
def _(m, name=""):
    F = _F()
    f = getattr(F, name)
    u, v = m.flow("u"), m.flow("v", k=3)
    out = [("uv", lambda: f(u, v)), ("uu", lambda: f(u, u)), ("sigma", lambda: f(u, v, sigma=1.0)), ("spacing", lambda: f(u, v, spacing=0.5))]
    if name == "compose_svfs":
        out += [(f"bch_terms={k}", (lambda k: lambda: f(u, v, bch_terms=k))(k)) for k in (0, 1, 2, 3, 4)]
    return out


@core("conv")
def _(m, name=""):
    F = _F()
    x = m.img("data")
    xi = m.img("data_int", dtype=torch.int32)
    k1 = m.t("kernel", torch.tensor([0.25, 0.5, 0.25]))
    kd = m.t("kernel_delta", torch.tensor([1.0]))
    kD = m.t("kernel_nd", vals((3,) * m.D, 2, 0.0, 0.2))
    return [
        ("separable", lambda: F.conv(x, k1)),
        ("separable-padded", lambda: F.conv(x, k1, padding=PaddingMode.ZEROS)),
        ("replicate", lambda: F.conv(x, k1, padding=PaddingMode.BORDER)),
        ("delta", lambda: F.conv(x, kd)),
        ("nd", lambda: F.conv(x, kD)),
        ("list", lambda: F.conv(x, [k1] + [None] * (m.D - 1))),
        ("int-data", lambda: F.conv(xi, k1)),
        ("int-padding", lambda: F.conv(x, k1, padding=1)),
    ]


@core("conv1d")
def _(m, name=""):
    F = _F()
    x = m.img("data")
    xi = m.img("data_int", dtype=torch.int32)
    k1 = m.t("kernel", torch.tensor([0.25, 0.5, 0.25]))
    kd = m.t("kernel_delta", torch.tensor([1.0]))
    return [
        ("last", lambda: F.conv1d(x, k1)),
        ("dim=2", lambda: F.conv1d(x, k1, dim=2)),
        ("padded", lambda: F.conv1d(x, k1, padding="zeros")),
        ("border", lambda: F.conv1d(x, k1, padding="border")),
        ("delta", lambda: F.conv1d(x, kd)),
        ("int", lambda: F.conv1d(xi, k1)),
        ("stride", lambda: F.conv1d(x, k1, stride=2)),
    ]


@core("crop", "pad")
def _(m, name=""):
    F = _F()
    f = getattr(F, name)
    x = m.img("data")
    mt = m.t("margin_t", torch.tensor([1] * m.D))
    return [
        ("margin=1", lambda: f(x, margin=1)),
        ("margin=0", lambda: f(x, margin=0)),
        ("margin=-1", lambda: f(x, margin=-1)),
        ("num", lambda: f(x, num=[1, 0, 2, 1, 0, 1][: 2 * m.D])),
        ("num=0", lambda: f(x, num=0)),
        ("margin-tensor", lambda: f(x, margin=mt)),
        ("replicate", lambda: f(x, margin=-1 if name == "crop" else 1, mode="replicate")),
        ("value", lambda: f(x, margin=-1 if name == "crop" else 1, value=3.0)),
    ]


@core("cubic_bspline_control_point_grid")
def _(m, name=""):
    F = _F()
    g = m.grid("grid")
    g2 = m.grid("grid_acF", ac=False)
    return [("s=2", lambda: F.cubic_bspline_control_point_grid(g, 2)), ("s=1", lambda: F.cubic_bspline_control_point_grid(g, 1)), ("acF", lambda: F.cubic_bspline_control_point_grid(g2, (2, 3, 2)[: m.D]))]


@core("cubic_bspline_control_point_grid_size")
def _(m, name=""):
    F = _F()
    return [("s=2", lambda: F.cubic_bspline_control_point_grid_size(tuple(reversed(m.S)), 2))]


def _deriv_variants(f, u, extra=()):
    out = [
        ("default", lambda: f(u)),
        ("sigma", lambda: f(u, sigma=1.0)),
        ("spacing", lambda: f(u, spacing=0.5)),
        ("mode=forward", lambda: f(u, mode="forward")),
        ("mode=bspline", lambda: f(u, mode="bspline")),
        ("stride", lambda: f(u, mode="bspline", stride=2)),
    ]
    return out + list(extra)


@core("curl", "divergence", "divergence_free_flow", "jacobian_det", "jacobian_dict", "jacobian_matrix")
def _(m, name=""):
    F = _F()
    f = getattr(F, name)
    u = m.flow("flow")
    extra = []
    if name in ("jacobian_det", "jacobian_dict", "jacobian_matrix"):
        extra = [("add_identity", lambda: f(u, add_identity=True))]
    if name == "divergence_free_flow":
        u3 = m.t("data", vals((m.N, 3 if m.D == 3 else 1) + m.S, 2, -0.1, 0.1))
        return [("default", lambda: f(u3)), ("sigma", lambda: f(u3, sigma=1.0))]
    return _deriv_variants(f, u, extra)


@core("flow_derivatives")
def _(m, name=""):
    F = _F()
    u = m.flow("flow")
    return _deriv_variants(F.flow_derivatives, u, [
        ("which=du/dx", lambda: F.flow_derivatives(u, which="du/dx")),
        ("which=list", lambda: F.flow_derivatives(u, which=["du/dx", "dv/dy"])),
        ("order=2", lambda: F.flow_derivatives(u, order=2)),
        ("order=0", lambda: F.flow_derivatives(u, order=0)),
    ])


@core("spatial_derivatives")
def _(m, name=""):
    F = _F()
    x = m.img("data")
    return _deriv_variants(F.spatial_derivatives, x, [
        ("which=x", lambda: F.spatial_derivatives(x, which="x")),
        ("which=xy", lambda: F.spatial_derivatives(x, which=["x", "xy"])),
        ("order=2", lambda: F.spatial_derivatives(x, order=2)),
        ("order=0", lambda: F.spatial_derivatives(x, order=0)),
    ])


@core("finite_differences")
def _(m, name=""):
    F = _F()
    x = m.img("data")
    out = []
    for mode in ("forward_central_backward", "forward", "backward", "central"):
        out.append((f"mode={mode}", (lambda mode: lambda: F.finite_differences(x, 0, mode=mode))(mode)))
    out += [
        ("order=0", lambda: F.finite_differences(x, 0, order=0)),
        ("dilation", lambda: F.finite_differences(x, 0, dilation=2)),
        ("spacing", lambda: F.finite_differences(x, 0, spacing=0.5)),
    ]
    return out


@core("denormalize_flow", "normalize_flow")
def _(m, name=""):
    F = _F()
    f = getattr(F, name)
    u = m.flow("data")
    ul = m.coords("data_last")
    sz = m.t("size_t", torch.tensor(list(reversed(m.S))))
    return [
        ("default", lambda: f(u)),
        ("size", lambda: f(u, size=torch.Size(reversed(m.S)))),
        ("size-tensor", lambda: f(u, size=sz)),
        ("ac=False", lambda: f(u, align_corners=False)),
        ("channels_last", lambda: f(ul, size=torch.Size(reversed(m.S)), channels_last=True)),
        ("side_length=1", lambda: f(u, side_length=1)),
    ]


@core("denormalize_grid", "normalize_grid")
def _(m, name=""):
    F = _F()
    f = getattr(F, name)
    g = m.coords("grid")
    gc = m.flow("grid_first", amp=0.9)
    sz = m.t("size_t", torch.tensor(list(reversed(m.S))))
    return [
        ("default", lambda: f(g)),
        ("size-tensor", lambda: f(g, size=sz)),
        ("ac=False", lambda: f(g, align_corners=False)),
        ("channels_first", lambda: f(gc, size=torch.Size(reversed(m.S)), channels_last=False)),
    ]


@core("dot_batch", "dot_channels")
def _(m, name=""):
    F = _F()
    f = getattr(F, name)
    a, b = m.img("a"), m.img("b", k=2)
    w = m.img("weight", k=3, lo=0.0, hi=1.0)
    return [("ab", lambda: f(a, b)), ("aa", lambda: f(a, a)), ("weighted", lambda: f(a, b, weight=w)), ("weight-is-a", lambda: f(a, b, weight=a))]


@core("downsample", "upsample")
def _(m, name=""):
    F = _F()
    f = getattr(F, name)
    x = m.img("data", S=tuple(2 * s for s in m.S) if name == "downsample" else None)
    sg = m.t("sigma_t", torch.tensor([0.7] * m.D))
    S = tuple(x.shape[2:])
    gT, gF = m.grid("grid_acT", ac=True, S=S), m.grid("grid_acF", ac=False, S=S)
    grid_forms = []
    for gname, g in (("acT", gT), ("acF", gF)):
        for ac in (True, False, None):
            for lv in (1, -1, 0):
                kw = {} if ac is None else {"align_corners": ac}
                grid_forms.append((f"grid={gname},ac={ac},levels={lv}", (lambda g, lv, kw: lambda: f(x, lv, grid=g, **kw))(g, lv, kw)))
    return grid_forms + [
        ("levels=1", lambda: f(x, 1)),
        ("levels=0", lambda: f(x, 0)),
        ("levels=-1", lambda: f(x, -1)),
        ("levels=2", lambda: f(x, 2)),
        ("sigma=0", lambda: f(x, 1, sigma=0)),
        ("sigma-tensor", lambda: f(x, 1, sigma=sg)),
        ("dims", lambda: f(x, 1, dims=(0,))),
        ("ac=False", lambda: f(x, 1, align_corners=False)),
    ]


@core("gaussian_pyramid")
def _(m, name=""):
    F = _F()
    x = m.img("data", S=tuple(2 * s for s in m.S))
    return [
        ("levels=2", lambda: F.gaussian_pyramid(x, 2)),
        ("levels=1", lambda: F.gaussian_pyramid(x, 1)),
        ("start=1", lambda: F.gaussian_pyramid(x, 2, start=1)),
        ("sigma=0", lambda: F.gaussian_pyramid(x, 2, sigma=0)),
    ]


@core("evaluate_cubic_bspline")
def _(m, name=""):
    F = _F()
    c = m.t("data", vals((m.N, m.D) + tuple(s + 3 for s in m.S), 2, -0.1, 0.1))
    w = F.bspline_interpolation_weights(3, 2)
    k = m.t("kernel", w if isinstance(w, Tensor) else w[0])
    return [
        ("stride=1", lambda: F.evaluate_cubic_bspline(c, stride=1)),
        ("stride=2", lambda: F.evaluate_cubic_bspline(c, stride=2)),
        ("kernel", lambda: F.evaluate_cubic_bspline(c, stride=2, kernel=k)),
        ("derivative", lambda: F.evaluate_cubic_bspline(c, stride=2, derivative=1)),
        ("size", lambda: F.evaluate_cubic_bspline(c, stride=2, size=torch.Size(tuple(2 * s - 1 for s in reversed(m.S))))),
        ("transpose", lambda: F.evaluate_cubic_bspline(c, stride=2, transpose=True)),
    ]


@core("subdivide_cubic_bspline")
def _(m, name=""):
    F = _F()
    c = m.t("data", vals((m.N, m.D) + tuple(s + 3 for s in m.S), 2, -0.1, 0.1))
    return [("all", lambda: F.subdivide_cubic_bspline(c)), ("dims=0", lambda: F.subdivide_cubic_bspline(c, dims=0)), ("dims=()", lambda: F.subdivide_cubic_bspline(c, dims=()))]


@core("expv")
def _(m, name=""):
    F = _F()
    v = m.flow("flow")
    return [
        ("default", lambda: F.expv(v)),
        ("steps=0", lambda: F.expv(v, steps=0)),
        ("steps=0,scale=1", lambda: F.expv(v, scale=1, steps=0)),
        ("scale=1,steps=1", lambda: F.expv(v, scale=1, steps=1)),
        ("scale=-1", lambda: F.expv(v, scale=-1, steps=3)),
        ("ac=False", lambda: F.expv(v, steps=2, align_corners=False)),
    ]


@core("logv")
def _(m, name=""):
    F = _F()
    u = m.flow("flow", amp=0.05, N=1)
    u2 = m.flow("flow2", amp=0.05)
    return [
        ("N=2", lambda: F.logv(u2, num_iters=1)),
        ("iters=1", lambda: F.logv(u, num_iters=1)),
        ("iters=0", lambda: F.logv(u, num_iters=0)),
        ("iters=2,bch=2", lambda: F.logv(u, num_iters=2, bch_terms=2)),
        ("sigma=None", lambda: F.logv(u, num_iters=1, sigma=None)),
        ("sigma=0", lambda: F.logv(u, num_iters=1, sigma=0)),
    ]


@core("flatten_channels")
def _(m, name=""):
    F = _F()
    x = m.img("data", N=1)
    x2 = m.img("data2")
    return [("N=1", lambda: F.flatten_channels(x)), ("N=2", lambda: F.flatten_channels(x2))]


@core("image_slice")
def _(m, name=""):
    F = _F()
    x = m.img("data")
    return [("default", lambda: F.image_slice(x)), ("offset", lambda: F.image_slice(x, 1))]


@core("fill_border")
def _(m, name=""):
    F = _F()
    x = m.img("data")
    return [("margin=1", lambda: F.fill_border(x, 1)), ("margin=0", lambda: F.fill_border(x, 0)), ("tuple", lambda: F.fill_border(x, (1, 2, 1)[: m.D], value=5.0)), ("inplace=False", lambda: F.fill_border(x, 1, inplace=False))]


@core("grid_resample")
def _(m, name=""):
    F = _F()
    x = m.img("data")
    sp = m.t("spacing_t", torch.tensor([1.0] * m.D))
    return [
        ("coarser", lambda: F.grid_resample(x, 1.0, 2.0)),
        ("same", lambda: F.grid_resample(x, 1.0, 1.0)),
        ("tensor-same", lambda: F.grid_resample(x, sp, sp)),
        ("finer", lambda: F.grid_resample(x, sp, 0.5)),
        ("nearest", lambda: F.grid_resample(x, 1.0, 2.0, mode="nearest")),
    ]


@core("grid_reshape", "grid_resize")
def _(m, name=""):
    F = _F()
    f = getattr(F, name)
    x = m.img("data")
    xi = m.img("data_int", dtype=torch.int32)
    same = m.S if name == "grid_reshape" else tuple(reversed(m.S))
    other = tuple(s + 2 for s in same)
    st = m.t("size_t", torch.tensor(list(other)))
    return [
        ("other", lambda: f(x, other)),
        ("same", lambda: f(x, same)),
        ("size-tensor", lambda: f(x, st)),
        ("nearest", lambda: f(x, other, mode="nearest")),
        ("ac=False", lambda: f(x, other, align_corners=False)),
        ("int-data-same", lambda: f(xi, same)),
        ("int-data-nearest", lambda: f(xi, other, mode="nearest")),
    ]


@core("grid_sample", "sample_image")
def _(m, name=""):
    F = _F()
    f = getattr(F, name)
    x = m.img("data")
    x1 = m.img("data1", N=1)
    xi = m.img("data_int", dtype=torch.int32)
    xd = m.img("data_f64", dtype=torch.float64)
    g = m.coords("grid")
    g1 = m.coords("grid1", N=1)
    pv = m.t("padding_t", torch.tensor(2.0))
    out = [
        ("default", lambda: f(x, g)),
        ("data1", lambda: f(x1, g)),
        ("grid1", lambda: f(x, g1)),
        ("padding=2.0", lambda: f(x, g, padding=2.0)),
        ("padding=2.0-data1", lambda: f(x1, g, padding=2.0)),
        ("padding=0", lambda: f(x, g, padding=0)),
        ("padding=border", lambda: f(x, g, padding="border")),
        ("padding-tensor", lambda: f(x, g, padding=pv)),
        ("nearest", lambda: f(x, g, mode="nearest")),
        ("nearest-padding=2", lambda: f(x, g, mode="nearest", padding=2)),
        ("int-data", lambda: f(xi, g)),
        ("int-data-padding=2", lambda: f(xi, g, padding=2)),
        ("f64-data-padding=2", lambda: f(xd, g, padding=2.0)),
        ("ac=False", lambda: f(x, g, align_corners=False)),
    ]
    if name == "sample_image":
        p = m.pts("coords")
        out += [("points", lambda: f(x, p)), ("points-padding=2", lambda: f(x, p, padding=2.0))]
    return out


@core("grid_sample_mask")
def _(m, name=""):
    F = _F()
    x = m.mask("data")
    xb = m.mask("data_bool", dtype=torch.bool)
    g = m.coords("grid")
    return [("float", lambda: F.grid_sample_mask(x, g)), ("bool", lambda: F.grid_sample_mask(xb, g)), ("threshold", lambda: F.grid_sample_mask(x, g, threshold=0.5))]


@core("sample_flow", "warp_points")
def _(m, name=""):
    F = _F()
    f = getattr(F, name)
    u, u1 = m.flow("flow"), m.flow("flow1", N=1)
    p = m.pts("coords")
    g = m.coords("coords_grid")
    out = [("points", lambda: f(u, p)), ("grid", lambda: f(u, g)), ("flow1", lambda: f(u1, p)), ("ac=False", lambda: f(u, p, align_corners=False))]
    if name == "sample_flow":
        out.append(("padding=zeros", lambda: f(u, p, padding="zeros")))
    return out


@core("warp_grid")
def _(m, name=""):
    F = _F()
    u, u1 = m.flow("flow"), m.flow("flow1", N=1)
    g, g1 = m.coords("grid"), m.coords("grid1", N=1)
    z = m.t("zero_flow", torch.zeros((m.N, m.D) + m.S))
    return [
        ("NN", lambda: F.warp_grid(u, g)),
        ("1N", lambda: F.warp_grid(u1, g)),
        ("N1", lambda: F.warp_grid(u, g1)),
        ("zero", lambda: F.warp_grid(z, g)),
        ("ac=False", lambda: F.warp_grid(u, g, align_corners=False)),
    ]


@core("warp_image")
def _(m, name=""):
    F = _F()
    x, x1 = m.img("data"), m.img("data1", N=1)
    g, g1 = m.coords("grid"), m.coords("grid1", N=1)
    u = m.t("flow", vals((m.N,) + m.S + (m.D,), 6, -0.1, 0.1))
    u1 = m.t("flow1", vals((1,) + m.S + (m.D,), 7, -0.1, 0.1))
    ul = m.flow("flow_first", k=6)
    return [
        ("no-flow", lambda: F.warp_image(x, g)),
        ("flow", lambda: F.warp_image(x, g, flow=u)),
        ("flow-grid1", lambda: F.warp_image(x, g1, flow=u)),
        ("flow1", lambda: F.warp_image(x, g, flow=u1)),
        ("data1", lambda: F.warp_image(x1, g, flow=u)),
        ("flow-channels-first", lambda: F.warp_image(x, g, flow=ul)),
        ("padding=2", lambda: F.warp_image(x, g, flow=u, padding=2.0)),
        ("nearest", lambda: F.warp_image(x, g, flow=u, mode="nearest")),
        ("ac=False", lambda: F.warp_image(x, g, flow=u, align_corners=False)),
    ]


@core("normalize_image")
def _(m, name=""):
    F = _F()
    x = m.img("data", lo=-2, hi=5)
    xi = m.img("data_int", dtype=torch.int32)
    u = m.img("data_unit", lo=0.0, hi=1.0)
    c = m.t("data_const", torch.ones((m.N, 1) + m.S))
    out = []
    for mode in ("unit", "center", "zscore"):
        if mode != "zscore":
            out.append((f"mode={mode}", (lambda mode: lambda: F.normalize_image(x, mode=mode))(mode)))
        out.append((f"mode={mode},minmax", (lambda mode: lambda: F.normalize_image(x, mode=mode, min=-1.0, max=2.0))(mode)))
    out += [
        ("already-unit", lambda: F.normalize_image(u, mode="unit", min=0.0, max=1.0)),
        ("constant", lambda: F.normalize_image(c, mode="unit")),
        ("int", lambda: F.normalize_image(xi)),
        ("inplace=False", lambda: F.normalize_image(x, inplace=False)),
    ]
    return out


@core("rescale")
def _(m, name=""):
    F = _F()
    x = m.img("data", lo=-2, hi=5)
    xi = m.img("data_int", dtype=torch.int32)
    lo = m.t("min_t", torch.tensor(0.0))
    return [
        ("default", lambda: F.rescale(x)),
        ("minmax", lambda: F.rescale(x, 0, 1)),
        ("data-range", lambda: F.rescale(x, 0, 255, data_min=-1, data_max=4)),
        ("same-range", lambda: F.rescale(x, -2, 5, data_min=-2, data_max=5)),
        ("dtype=uint8", lambda: F.rescale(x, 0, 255, dtype=torch.uint8)),
        ("int", lambda: F.rescale(xi, 0, 1)),
        ("int-same", lambda: F.rescale(xi)),
        ("tensor-min", lambda: F.rescale(x, lo, 1)),
    ]


@core("polyline_directions", "polyline_tangents")
def _(m, name=""):
    F = _F()
    f = getattr(F, name)
    p = m.pts("points", M=6)
    return [("default", lambda: f(p)), ("normalize", lambda: f(p, normalize=True)), ("no-repeat", lambda: f(p, **({"repeat_last": False} if name == "polyline_directions" else {"repeat_first": False})))]


@core("rand_sample")
def _(m, name=""):
    F = _F()
    x, y = m.img("data"), m.img("data2", k=2)
    mk = m.mask("mask")

    def gen():
        return torch.Generator().manual_seed(0)

    return [
        ("single", lambda: F.rand_sample(x, 5, generator=gen())),
        ("pair", lambda: F.rand_sample([x, y], 5, generator=gen())),
        ("mask", lambda: F.rand_sample(x, 5, mask=mk, generator=gen())),
        ("replacement", lambda: F.rand_sample(x, 50, replacement=True, generator=gen())),
        ("mask-replacement", lambda: F.rand_sample([x, y], 50, mask=mk, replacement=True, generator=gen())),
    ]


# ---- deepali.losses.functional -------------------------------------------------------------------
@loss("balanced_binary_cross_entropy_with_logits", "binary_cross_entropy_with_logits", "focal_loss_with_logits")
def _(m, name=""):
    L = _L()
    f = getattr(L, name)
    x = m.img("logits", C=1, lo=-3, hi=3)
    t = m.mask("target")
    w = m.img("weight", C=1, k=3, lo=0.1, hi=1.0)
    out = [("plain", lambda: f(x, t)), ("weight", lambda: f(x, t, weight=w)), ("none", lambda: f(x, t, reduction="none")), ("sum", lambda: f(x, t, reduction="sum"))]
    return out


@loss("label_smoothing")
def _(m, name=""):
    L = _L()
    lab = m.labels("labels", K=3)
    oh = m.t("onehot", (vals((m.N, 3) + m.S, 4, 0, 1) > 0.5).float())
    return [
        ("labels", lambda: L.label_smoothing(lab, num_classes=3)),
        ("labels-ignore", lambda: L.label_smoothing(lab, num_classes=3, ignore_index=2)),
        ("onehot", lambda: L.label_smoothing(oh)),
        ("alpha=0", lambda: L.label_smoothing(oh, alpha=0)),
    ]


@loss("dice_score", "dice_loss", "tversky_index", "tversky_loss")
def _(m, name=""):
    L = _L()
    f = getattr(L, name)
    p = m.prob("input")
    t = m.mask("target")
    w = m.img("weight", C=1, k=3, lo=0.1, hi=1.0)
    out = [("plain", lambda: f(p, t)), ("weight", lambda: f(p, t, weight=w)), ("none", lambda: f(p, t, reduction="none")), ("same", lambda: f(p, p))]
    if name.startswith("tversky"):
        out += [
            ("alpha-beta", lambda: f(p, t, alpha=0.3, beta=0.7)),
            ("normalize", lambda: f(p, t, normalize=True)),
            ("binarize", lambda: f(p, t, binarize=True)),
        ]
    if name == "tversky_loss":
        out.append(("gamma", lambda: f(p, t, gamma=2.0)))
    return out


@loss("tversky_index_with_logits", "tversky_loss_with_logits")
def _(m, name=""):
    L = _L()
    f = getattr(L, name)
    x = m.img("logits", C=1, lo=-3, hi=3)
    x3 = m.img("logits3", C=3, lo=-3, hi=3)
    t = m.mask("target")
    oh3 = m.t("onehot3", (vals((m.N, 3) + m.S, 4, 0, 1) > 0.5).float())
    w = m.img("weight", C=1, k=3, lo=0.1, hi=1.0)
    out = [
        ("binary", lambda: f(x, t)),
        ("weight", lambda: f(x, t, weight=w)),
        ("multiclass", lambda: f(x3, oh3)),
        ("binarize", lambda: f(x, t, binarize=True)),
        ("alpha-beta", lambda: f(x, t, alpha=0.3, beta=0.7)),
    ]
    if name == "tversky_loss_with_logits":
        out.append(("gamma", lambda: f(x, t, gamma=2.0)))
    return out


@loss("kld_loss")
def _(m, name=""):
    L = _L()
    mu, lv = m.vec("mean", 6), m.vec("logvar", 6, k=3)
    return [("mean", lambda: L.kld_loss(mu, lv)), ("none", lambda: L.kld_loss(mu, lv, reduction="none")), ("same", lambda: L.kld_loss(mu, mu))]


@loss("lcc_loss", "wlcc_loss")
def _(m, name=""):
    L = _L()
    f = getattr(L, name)
    a, b = m.img("source", C=1), m.img("target", C=1, k=2)
    mk = m.mask("mask")
    out = [
        ("plain", lambda: f(a, b, kernel_size=3)),
        ("mask", lambda: f(a, b, mask=mk, kernel_size=3)),
        ("same", lambda: f(a, a, kernel_size=3)),
        ("none", lambda: f(a, b, kernel_size=3, reduction="none")),
        ("kernel=1", lambda: f(a, b, kernel_size=1)),
    ]
    if name == "wlcc_loss":
        sm, tm = m.mask("source_mask", k=4), m.mask("target_mask", k=5)
        out += [("source-target-masks", lambda: f(a, b, source_mask=sm, target_mask=tm, kernel_size=3)), ("source-mask", lambda: f(a, b, source_mask=sm, kernel_size=3))]
    return out


@loss("mae_loss", "mse_loss", "ssd_loss")
def _(m, name=""):
    L = _L()
    f = getattr(L, name)
    a, b = m.img("input"), m.img("target", k=2)
    mk = m.mask("mask")
    nt = m.t("norm_t", torch.tensor(2.0))
    return [
        ("plain", lambda: f(a, b)),
        ("mask", lambda: f(a, b, mask=mk)),
        ("norm", lambda: f(a, b, norm=2.0)),
        ("norm-tensor", lambda: f(a, b, norm=nt)),
        ("none", lambda: f(a, b, reduction="none")),
        ("none-mask-norm", lambda: f(a, b, mask=mk, norm=2.0, reduction="none")),
        ("same", lambda: f(a, a)),
    ]


@loss("ncc_loss")
def _(m, name=""):
    L = _L()
    a, b = m.img("source", C=1), m.img("target", C=1, k=2)
    mk = m.mask("mask")
    return [
        ("plain", lambda: L.ncc_loss(a, b)),
        ("mask", lambda: L.ncc_loss(a, b, mask=mk)),
        ("same", lambda: L.ncc_loss(a, a)),
        ("none", lambda: L.ncc_loss(a, b, reduction="none")),
    ]


@loss("mi_loss")
def _(m, name=""):
    L = _L()
    a, b = m.img("input", C=1, lo=0, hi=1), m.img("target", C=1, k=2, lo=0, hi=1)
    mk = m.mask("mask")

    def seeded(fn):
        def run():
            torch.manual_seed(0)
            return fn()

        return run

    return [
        ("plain", lambda: L.mi_loss(a, b, num_bins=8)),
        ("mask", lambda: L.mi_loss(a, b, mask=mk, num_bins=8)),
        ("vmin-vmax", lambda: L.mi_loss(a, b, vmin=0.0, vmax=1.0, num_bins=8)),
        ("normalized", lambda: L.mi_loss(a, b, num_bins=8, normalized=True)),
        ("samples", seeded(lambda: L.mi_loss(a, b, num_bins=8, num_samples=20))),
        ("sample_ratio", seeded(lambda: L.mi_loss(a, b, num_bins=8, sample_ratio=0.5))),
    ]


@loss("grad_loss", "bending_loss", "bending_energy", "be_loss", "curvature_loss", "diffusion_loss", "divergence_loss", "total_variation_loss", "tv_loss", "elasticity_loss")
def _(m, name=""):
    L = _L()
    f = getattr(L, name)
    if name == "elasticity_loss":
        g = getattr(L, name)

        def f(u, **kw):  # noqa: F811
            kw.setdefault("first_parameter", 1.0)
            kw.setdefault("second_parameter", 0.5)
            return g(u, **kw)

    u = m.flow("u")
    out = _deriv_variants(f, u, [("none", lambda: f(u, reduction="none")), ("sum", lambda: f(u, reduction="sum"))])
    if name == "grad_loss":
        out += [("p=1,q=1", lambda: f(u, p=1, q=1)), ("p=2,q=None", lambda: f(u, p=2, q=None)), ("p=3,q=2", lambda: f(u, p=3, q=2)), ("p=1.5,q=0.5", lambda: f(u, p=1.5, q=0.5))]
    if name == "elasticity_loss":
        out += [("shear-poisson", lambda: g(u, shear_modulus=0.5, poissons_ratio=0.3)), ("youngs-poisson", lambda: g(u, youngs_modulus=1.0, poissons_ratio=0.3))]
    return out


@loss("bspline_bending_loss", "bspline_bending_energy", "bspline_be_loss")
def _(m, name=""):
    L = _L()
    f = getattr(L, name)
    c = m.t("data", vals((m.N, m.D) + tuple(s + 3 for s in m.S), 2, -0.1, 0.1))
    return [("stride=1", lambda: f(c)), ("stride=2", lambda: f(c, stride=2)), ("none", lambda: f(c, reduction="none"))]


@loss("inverse_consistency_loss")
def _(m, name=""):
    L = _L()
    f = L.inverse_consistency_loss
    u, v = m.flow("forward"), m.flow("inverse", k=3)
    A = m.mat("forward_matrix")
    mk = m.mask("mask")
    g = m.grid("grid")
    return [
        ("flows", lambda: f(u, v)),
        ("flows-grid", lambda: f(u, v, grid=g)),
        ("margin", lambda: f(u, v, margin=1)),
        ("mask", lambda: f(u, v, mask=mk)),
        ("units=voxel", lambda: f(u, v, grid=g, units="voxel")),
        ("units=world", lambda: f(u, v, grid=g, units="world")),
        ("none", lambda: f(u, v, reduction="none")),
        ("matrix-flow", lambda: f(A, v, grid=g)),
        ("same", lambda: f(u, u)),
    ]


@loss("masked_loss")
def _(m, name=""):
    L = _L()
    x = m.img("loss")
    mk = m.mask("mask")
    mb = m.mask("mask_bool", dtype=torch.bool)
    mN = m.t("mask_c", (vals((m.N, m.C) + m.S, 5, 0, 1) > 0.4).float())
    return [
        ("mask", lambda: L.masked_loss(x, mk)),
        ("none", lambda: L.masked_loss(x, None)),
        ("bool", lambda: L.masked_loss(x, mb)),
        ("per-channel", lambda: L.masked_loss(x, mN)),
        ("inplace=False", lambda: L.masked_loss(x, mk, inplace=False)),
    ]


@loss("reduce_loss")
def _(m, name=""):
    L = _L()
    x = m.img("loss")
    mk = m.mask("mask")
    out = []
    for red in ("mean", "sum", "none"):
        out.append((red, (lambda red: lambda: L.reduce_loss(x, red))(red)))
        out.append((red + "-mask", (lambda red: lambda: L.reduce_loss(x, red, mask=mk))(red)))
    return out


def surface():
    """[(module tag, name)] of the whole public functional API, by introspection."""
    F, L = _F(), _L()
    return [("core", n) for n in F.__all__] + [("losses", n) for n in L.__all__]


def recipe_for(mod: str, name: str):
    return (CORE if mod == "core" else LOSS).get(name)
