"""Deep fingerprints of deepali objects for C15 (hidden mutation).

A fingerprint is a nested tuple of plain data.  Two flavours are produced in one pass:

    value part   - exact bit patterns (dtype, shape, bytes) of every tensor reachable from the object, container
                   keys in order, scalar attributes by repr, `_version` counters of tensors
    identity part - id() of every Parameter / buffer tensor / sub-module / grid object (only ever compared inside
                   one process between "before" and "after"; never hashed into states or outcomes)

`diff(a, b)` names the first few paths at which two fingerprints differ.
Nothing here imports deepali at module level and nothing calls a deepali method with arguments: objects are read
through `__slots__`, `__dict__` and torch.nn.Module containers only, so observing cannot mutate.
"""
from __future__ import annotations

import enum
import hashlib
from collections import OrderedDict

import numpy as np
import torch
from torch import Tensor


def tbytes(t: Tensor) -> bytes:
    a = t.detach()
    if a.dtype == torch.bool:
        a = a.to(torch.uint8)
    try:
        raw = a.cpu().contiguous().numpy().tobytes()
    except Exception:  # noqa: BLE001 - exotic dtype
        raw = repr(a.tolist()).encode()
    return raw


def tensor_fp(t: Tensor, ident: bool = True, version: bool = True, values: bool = True):
    """(kind, dtype, shape, sha of bytes, requires_grad[, version][, id])"""
    h = hashlib.blake2b(tbytes(t), digest_size=12).hexdigest() if values else "-"
    out = ["T", type(t).__name__, str(t.dtype), tuple(t.shape), h, bool(t.requires_grad)]
    if version:
        out.append(("ver", int(t._version)))
    if ident:
        out.append(("id", id(t)))
    return tuple(out)


def storage_fp(t: Tensor):
    """Bytes of the whole storage the tensor lives in (catches writes outside the view)."""
    try:
        st = t.untyped_storage()
        n = st.nbytes()
        if n == 0:
            return ("S", 0, "")
        flat = torch.empty(0, dtype=torch.uint8).set_(st, 0, (n,), (1,))
        return ("S", n, hashlib.blake2b(flat.numpy().tobytes(), digest_size=12).hexdigest())
    except Exception as e:  # noqa: BLE001
        return ("S", "unreadable", type(e).__name__)


def _is_grid(o):
    return type(o).__name__ in ("Grid", "Cube") and hasattr(o, "__slots__")


def fp(o, ident: bool = True, version: bool = True, _memo=None, _depth=0, values: bool = True):
    """Fingerprint of an arbitrary object reachable from a deepali object."""
    if _memo is None:
        _memo = {}
    if _depth > 12:
        return ("deep",)
    if o is None or isinstance(o, (bool, int, float, str, bytes)):
        return ("v", repr(o))
    if isinstance(o, enum.Enum):
        return ("enum", type(o).__name__, o.value)
    if isinstance(o, torch.Size):
        return ("size", tuple(o))
    if isinstance(o, np.ndarray):
        return ("nd", str(o.dtype), o.shape, hashlib.blake2b(np.ascontiguousarray(o).tobytes(), digest_size=12).hexdigest())
    if isinstance(o, (torch.dtype, torch.device)):
        return ("v", str(o))
    oid = id(o)
    if isinstance(o, Tensor):
        base = tensor_fp(o, ident, version, values)
        extra = getattr(o, "__dict__", None)
        if extra:
            # tensor subclasses with attributes (Image, ImageBatch, FlowField(s)): _grid, _axes
            if oid in _memo:
                return ("ref", _memo[oid])
            _memo[oid] = len(_memo)
            items = tuple((k, fp(v, ident, version, _memo, _depth + 1, values)) for k, v in sorted(extra.items()))
            return base + (("attrs", items),)
        return base
    if oid in _memo:
        return ("ref", _memo[oid])
    if isinstance(o, (list, tuple)):
        _memo[oid] = len(_memo)
        return (type(o).__name__,) + tuple(fp(v, ident, version, _memo, _depth + 1, values) for v in o)
    if isinstance(o, (dict, OrderedDict)):
        _memo[oid] = len(_memo)
        return ("dict",) + tuple((repr(k), fp(v, ident, version, _memo, _depth + 1, values)) for k, v in o.items())
    if isinstance(o, (set, frozenset)):
        return ("set", tuple(sorted(repr(v) for v in o)))
    if _is_grid(o):
        _memo[oid] = len(_memo)
        parts = [type(o).__name__]
        for name in o.__slots__:
            parts.append((name, fp(getattr(o, name, None), ident, version, _memo, _depth + 1, values)))
        if ident:
            parts.append(("id", oid))
        return tuple(parts)
    if isinstance(o, torch.nn.Module):
        _memo[oid] = len(_memo)
        parts = ["M", type(o).__name__, ("training", o.training)]
        d = o.__dict__
        for cname in ("_parameters", "_buffers", "_modules"):
            cont = d.get(cname, {})
            parts.append((cname, tuple((k, fp(v, ident, version, _memo, _depth + 1, values)) for k, v in cont.items())))
        parts.append(("_non_persistent_buffers_set", tuple(sorted(d.get("_non_persistent_buffers_set", ())))))
        for k in sorted(d):
            if k in ("_parameters", "_buffers", "_modules", "_non_persistent_buffers_set", "training"):
                continue
            v = d[k]
            if k.endswith("_hooks") or k.endswith("_hooks_with_kwargs") or k.endswith("_hooks_always_called"):
                parts.append((k, ("nhooks", len(v))))
                continue
            if k == "_update_hook_handle":
                parts.append((k, ("set", v is not None)))
                continue
            parts.append((k, fp(v, ident, version, _memo, _depth + 1, values)))
        if ident:
            parts.append(("id", oid))
        return tuple(parts)
    if callable(o):
        return ("callable", getattr(o, "__qualname__", type(o).__name__)) + ((("id", oid),) if ident else ())
    if hasattr(o, "__dict__"):
        _memo[oid] = len(_memo)
        return ("obj", type(o).__name__) + tuple((k, fp(v, ident, version, _memo, _depth + 1, values)) for k, v in sorted(vars(o).items()))
    return ("repr", type(o).__name__, repr(o)[:80])


def value_fp(o, values: bool = True):
    """Identity-free and version-free fingerprint (safe to hash into states / outcomes).
    values=False: shapes and structure only (for states that contain uninitialised memory by construction)."""
    return fp(o, ident=False, version=False, values=values)


def diff(a, b, path="", out=None, limit=4):
    """Paths at which two fingerprints differ (first `limit`)."""
    if out is None:
        out = []
    if len(out) >= limit:
        return out
    if type(a) is not type(b):
        out.append(f"{path}: {str(a)[:60]} -> {str(b)[:60]}")
        return out
    if isinstance(a, tuple):
        if a and isinstance(a[0], str) and a[0] == "T" and b and b[0] == "T":
            names = ["kind", "type", "dtype", "shape", "values", "requires_grad"]
            for i, (x, y) in enumerate(zip(a, b)):
                if x != y:
                    nm = names[i] if i < len(names) else (x[0] if isinstance(x, tuple) and x else f"#{i}")
                    if nm == "id":
                        out.append(f"{path}: replaced by another tensor object")
                        continue
                    if nm == "attrs":
                        diff(x, y, f"{path}.attrs", out, limit)
                    else:
                        out.append(f"{path}.{nm}: {str(x)[:40]} -> {str(y)[:40]}")
                    if len(out) >= limit:
                        return out
            if len(a) != len(b):
                out.append(f"{path}: tensor record length {len(a)} -> {len(b)}")
            return out
        if len(a) != len(b):
            ka = [x[0] for x in a if isinstance(x, tuple) and x and isinstance(x[0], str)]
            kb = [x[0] for x in b if isinstance(x, tuple) and x and isinstance(x[0], str)]
            added = [k for k in kb if k not in ka]
            removed = [k for k in ka if k not in kb]
            out.append(f"{path}: {len(a)} -> {len(b)} entries (added {added[:4]}, removed {removed[:4]})")
            return out
        for i, (x, y) in enumerate(zip(a, b)):
            if x != y:
                if isinstance(x, tuple) and len(x) == 2 and x[0] == "id":
                    out.append(f"{path}: replaced by another object")
                    continue
                key = x[0] if isinstance(x, tuple) and x and isinstance(x[0], str) and len(x) == 2 else f"#{i}"
                if isinstance(x, tuple) and len(x) == 2 and isinstance(x[0], str) and isinstance(y, tuple) and len(y) == 2 and x[0] == y[0]:
                    diff(x[1], y[1], f"{path}.{key}", out, limit)
                else:
                    diff(x, y, f"{path}.{key}", out, limit)
                if len(out) >= limit:
                    return out
        return out
    if a != b:
        out.append(f"{path}: {str(a)[:60]} -> {str(b)[:60]}")
    return out


def kinds_of_change(a, b):
    """Classify a fingerprint change: subset of {"values", "identity", "version", "structure"}."""
    kinds = set()

    def strip(x, drop):
        if isinstance(x, tuple):
            if len(x) == 2 and x[0] in drop:
                return None
            return tuple(s for s in (strip(v, drop) for v in x) if s is not None)
        return x

    if strip(a, ("id", "ver")) != strip(b, ("id", "ver")):
        kinds.add("values")
    if strip(a, ("ver",)) != strip(b, ("ver",)) and "values" not in kinds:
        kinds.add("identity")
    if strip(a, ("id",)) != strip(b, ("id",)) and "values" not in kinds:
        kinds.add("version")
    return kinds
