"""Deterministic image / segmentation / mask menus and float64 helper statistics for C16 (and C20).

Everything is a pure function of (kind, shape, table index, variant): no RNG.  The four tables only change the
"generic" float entries (frequencies, phases, texture multipliers); all obey the same domain predicates
(non-constant images, every 3-window has texture, values in a bounded range).
"""
from __future__ import annotations

import itertools

import numpy as np

# four fixed tables of generic floats (VERIF_SEED % 4 selects one)
TABLES = [
    {"f": (0.9, 1.7, 0.6), "p": (0.3, 1.1, 2.0), "r": (0.11, 0.07, 0.05), "m": (7, 13, 29, 5), "q": 11},
    {"f": (1.3, 0.8, 1.9), "p": (1.2, 0.4, 0.9), "r": (0.06, 0.12, 0.04), "m": (5, 17, 23, 3), "q": 13},
    {"f": (0.7, 2.1, 1.1), "p": (2.2, 0.7, 1.6), "r": (0.09, 0.05, 0.10), "m": (11, 7, 19, 9), "q": 7},
    {"f": (1.6, 1.2, 0.5), "p": (0.8, 1.9, 0.2), "r": (0.04, 0.10, 0.08), "m": (3, 19, 31, 7), "q": 17},
]

IMAGE_KINDS = ("smooth", "checker", "int", "wave")


def _idx(sp):
    return np.meshgrid(*[np.arange(n, dtype=np.float64) for n in sp], indexing="ij")


def texture(sp, tab, k):
    """Integer texture in [0, q): varies inside every 2-window along every axis."""
    T = TABLES[tab % 4]
    ix = _idx(sp)
    m = T["m"]
    acc = np.zeros(sp)
    for d, i in enumerate(ix):
        acc = acc + (m[d % 3] + 2 * k) * i
    acc = acc + m[3] * ix[-1] * ix[-2] + 3 * k
    if len(sp) == 3:
        acc = acc + 2 * ix[0] * ix[2]
    return np.mod(acc, T["q"])


def image(kind: str, shape, tab: int = 0, variant: int = 0) -> np.ndarray:
    """Deterministic float64 image batch of `shape` = (N, C, *spatial)."""
    T = TABLES[tab % 4]
    N, C = shape[0], shape[1]
    sp = tuple(shape[2:])
    ix = _idx(sp)
    out = np.empty(shape, dtype=np.float64)
    for n in range(N):
        for c in range(C):
            k = n * C + c + 3 * variant
            tex = texture(sp, tab, k)
            if kind == "smooth":
                v = sum(T["r"][d % 3] * i for d, i in enumerate(ix))
                v = v + 0.5 * np.sin(T["f"][0] * ix[-1] + T["p"][0] + k) * np.cos(T["f"][1] * ix[-2] + T["p"][1])
                v = v + 0.45 * tex / T["q"]
            elif kind == "wave":
                v = 1.0 + 0.6 * np.cos(T["f"][2] * ix[-1] + T["f"][0] * ix[-2] + T["p"][2] + 0.5 * k)
                if len(sp) == 3:
                    v = v + 0.3 * np.sin(T["f"][1] * ix[0] + k)
                v = v + 0.35 * np.mod(tex * 3 + 1, T["q"]) / T["q"]
            elif kind == "checker":
                par = np.mod(sum(ix) + k, 2)
                blk = np.mod(np.floor(ix[-1] / 2) + np.floor(ix[-2] / 3) + k, 2)
                v = par + 2.0 * blk + np.mod(tex, 3)
            elif kind == "int":
                v = np.mod(tex * (2 + k % 3) + k, T["q"])
            else:
                raise KeyError(kind)
            out[n, c] = v
    return out


def binary(shape, tab: int = 0, variant: int = 0) -> np.ndarray:
    """Binary segmentation {0,1}: a blob-ish region (threshold of a smooth image), different per item/channel."""
    v = image("wave", shape, tab, variant)
    N, C = shape[0], shape[1]
    out = np.zeros(shape)
    for n in range(N):
        for c in range(C):
            a = v[n, c]
            out[n, c] = (a > np.median(a) + 0.05 * ((n + c + variant) % 3 - 1)).astype(np.float64)
    return out


def soft(shape, tab: int = 0, variant: int = 0) -> np.ndarray:
    v = image("wave", shape, tab, variant)
    return 1.0 / (1.0 + np.exp(-(v - 1.2) / 0.3))


def labels(N, sp, num_classes: int, tab: int = 0, variant: int = 0) -> np.ndarray:
    """Integer label map (N, *sp) with every class present."""
    out = np.zeros((N,) + tuple(sp), dtype=np.int64)
    for n in range(N):
        t = texture(sp, tab, n + 2 * variant)
        ix = _idx(sp)
        out[n] = np.mod(np.floor(t / 2) + np.floor(ix[-1] / 2) + n + variant, num_classes).astype(np.int64)
    return out


def one_hot(lab: np.ndarray, num_classes: int) -> np.ndarray:
    out = np.zeros((lab.shape[0], num_classes) + lab.shape[1:])
    for c in range(num_classes):
        out[:, c] = (lab == c)
    return out


MASK_KINDS = ("ones", "half", "per-item", "multi-ch", "b1", "b1c", "bool", "soft", "bands")


def mask(kind: str, shape) -> np.ndarray:
    """Mask of the documented broadcastable shapes.  Returns float64 array; kind 'bool' is cast by the caller."""
    N, C = shape[0], shape[1]
    sp = tuple(shape[2:])
    D = len(sp)
    ix = _idx(sp)

    def half(axis, upper=False, frac=0.5):
        n = sp[axis]
        cut = int(np.floor(n * frac)) + (1 if not upper else 0)
        return (ix[axis] >= n - cut) if upper else (ix[axis] < cut)

    if kind == "ones":
        return np.ones((N, 1) + sp)
    if kind in ("half", "bool"):
        return np.broadcast_to(half(D - 1).astype(np.float64), (N, 1) + sp).copy()
    if kind == "per-item":
        out = np.zeros((N, 1) + sp)
        for n in range(N):
            out[n, 0] = half((D - 2) % D, upper=True) if n % 2 else half(D - 1)
        return out
    if kind == "multi-ch":
        out = np.zeros((N, C) + sp)
        for n in range(N):
            for c in range(C):
                out[n, c] = half((D - 1 - c) % D, upper=bool((n + c) % 2))
        return out
    if kind == "b1":
        return half(D - 2, upper=True).astype(np.float64).reshape((1, 1) + sp)
    if kind == "b1c":
        out = np.zeros((1, C) + sp)
        for c in range(C):
            out[0, c] = half((D - 1 - c) % D, upper=bool(c % 2))
        return out
    if kind == "soft":
        # values 0, 0.5, 1 in bands along the last axis (zero band first)
        w = np.clip(np.floor(ix[-1] * 3 / sp[-1]), 0, 2) / 2.0
        return np.broadcast_to(w, (N, 1) + sp).copy()
    if kind == "bands":
        # non-rectangular: two stripes
        w = (np.mod(np.floor(ix[-1] / 2), 2) == 0).astype(np.float64)
        return np.broadcast_to(w, (N, 1) + sp).copy()
    raise KeyError(kind)


def mask_kinds_for(shape):
    """Mask kinds that are distinct for this shape (deduplicated by content)."""
    seen = {}
    for k in MASK_KINDS:
        m = mask(k, shape)
        key = (m.shape, m.tobytes(), k == "bool")
        if key not in seen:
            seen[key] = k
    return list(seen.values())


def expand_mask(m: np.ndarray, shape) -> np.ndarray:
    return np.broadcast_to(m, shape).copy()


# ---------------------------------------------------------------------------
# float64 statistics used ONLY to size tolerances (condition of mean subtraction)
def box_sum(a: np.ndarray, k) -> np.ndarray:
    """Zero-padded box sum with window k (odd) over the spatial axes of an (N, C, *sp) array."""
    D = a.ndim - 2
    ks = (k,) * D if isinstance(k, int) else tuple(k)  # avg_pool hands the tuple to torch as given: ks[d] acts on tensor dim 2+d
    out = a
    for d in range(D):
        r = ks[d] // 2
        ax = 2 + d
        pad = [(0, 0)] * a.ndim
        pad[ax] = (r, r)
        p = np.pad(out, pad)
        n = out.shape[ax]
        acc = np.zeros_like(out)
        for o in range(ks[d]):
            sl = [slice(None)] * a.ndim
            sl[ax] = slice(o, o + n)
            acc = acc + p[tuple(sl)]
        out = acc
    return out


def global_cond(x: np.ndarray, w=None) -> float:
    """max|x| / std(x) per batch item (channels flattened); with weights w the weighted std on w>0."""
    N = x.shape[0]
    worst = 0.0
    for n in range(N):
        v = x[n].reshape(-1)
        if w is not None:
            ww = np.broadcast_to(w, x.shape)[n].reshape(-1) if w.shape[0] == N else np.broadcast_to(w, (1,) + x.shape[1:])[0].reshape(-1)
            v = v[ww > 0]
        if v.size < 2:
            return float("inf")
        s = v.std()
        if s <= 0:
            return float("inf")
        worst = max(worst, np.abs(v).max() / s)
    return worst


def local_cond(x: np.ndarray, k, w=None) -> float:
    """max|x| / (smallest local std of x over windows centred where w > 0), following the local
    centring x - local_mean(x) used by local correlation (weighted when w is given)."""
    ones = np.ones_like(x)
    if w is None:
        cnt = box_sum(ones, k)
        mean = box_sum(x, k) / cnt
        xt = x - mean
        b = box_sum(xt * xt, k)
        kk = cnt
        centre = np.ones_like(x, dtype=bool)
    else:
        ww = np.broadcast_to(w, x.shape).astype(np.float64)
        sw = box_sum(ww, k)
        mean = box_sum(x * ww, k) / (sw + 1e-15)
        xt = (x - mean) * ww
        b = box_sum(xt * xt, k)
        kk = np.maximum(box_sum((ww > 0).astype(np.float64), k), 1)
        centre = ww > 0
    if not centre.any():
        return float("inf")
    var = (b / kk)[centre]
    vmin = var.min()
    if vmin <= 0:
        return float("inf")
    return float(np.abs(x).max() / np.sqrt(vmin))
