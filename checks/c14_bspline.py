"""C14 - cubic B-spline evaluation, derivatives and subdivision are exact.

Stateless maps explored over complete finite products of (stride, derivative order, size, dimension,
argument form, batch/channel form, evaluation algorithm), with the continuous datum (coefficient tensor)
removed from the quantifier by linearity: every operator is applied to ALL unit impulses of the control
grid (or, on the large grids of the coverage range, to the linear functions the statement names), and the
result is compared with the exact rational cubic B-spline basis of ref/bspline_exact.py.

Sub-checks (see DESIGN.md C14):
  weights    cubic_bspline_interpolation_weights / bspline_interpolation_weights(3) == exact basis,
             partition of unity, derivative weights sum to zero, linear precision         s in 1..16, d in 0..3
  kernel1d   kernels.cubic_bspline1d (kernel of the transposed algorithm) == exact samples  s in 1..16, d in 0..2
  coverage   every (m, s) in [1,64]x[1,16]: control grid of cubic_bspline_control_point_grid_size(m, s)
             points evaluates to exactly m samples and reproduces a linear function, both algorithms
  eval       full operator on all unit impulses, D = 1,2,3, derivative orders with total <= 3,
             transpose False/True, N/C/NC impulse layouts, shape=/size=/kernel= argument forms
  derivs     spatial_derivatives(mode="bspline", stride, spacing) == analytic derivatives
  subdivide  subdivide_cubic_bspline chains <= 2 along every subset of dims represent the same function
  ffd_linear FreeFormDeformation(...).update().u reproduces linear coefficient functions exactly
  ffd_grid   FreeFormDeformation.grid_(2n-1) (once and twice) leaves the field at the old samples unchanged
  cpgrid     cubic_bspline_control_point_grid places control point k at image index (k-1)*stride
"""
from __future__ import annotations

import itertools
from fractions import Fraction as Fr

import numpy as np
import torch

from mc.core import Acc, exc_text, guarded, h64, tensor_bytes
from ref import bspline_exact as rb

PROPERTY = "C14"
RULE = (
    "complete products of (stride 1..16, derivative 0..3, size, D, argument form, N/C layout, algorithm); the coefficient "
    "tensor is removed from the quantifier by linearity (all unit impulses of the control grid, or linear functions on the "
    "coverage range); distinct = (sub-check, configuration); non-trivial = the implementation returned a tensor with at "
    "least two distinct non-zero values. Histories: functional API call sequences (request weights -> caller mutates its table "
    "in place -> request again -> evaluate -> spatial_derivatives; ordered pairs of evaluations with different (stride, "
    "derivative)) over stride 1..16 x derivative 0..3 x dtype {default,f32,f64} x device form {None,'cpu',torch.device}; "
    "object histories of depth 3 over {update a/o/b, b = copy(a) | a.link(o) | a.data(B) | a.inverse() | a.inverse(link=True)} "
    "on FFD/SVFFD x {tensor, Parameter} x {no_grad, grad}, path-exhaustive, invariant (every updated live object's dense "
    "spline field == exact spline of ITS coefficients) evaluated in every reached state; refinement histories (ffd_hist); memory layout of the coefficient tensor "
    "(transposed view, step-sliced view, stride-0 expanded batch) for evaluate/subdivide/FFD/SVFFD on a small menu"
)
EXPLANATION = "exhaustive comparison of the real B-spline operators, and of call/object histories over them, with the exact rational cubic B-spline basis"
ASSUMPTIONS = [
    "derivatives are with respect to the control-point lattice coordinate (spatial_derivatives divides by spacing**order)",
    "image sample x of an evaluation with stride s sits at lattice coordinate 1 + x/s (one control point before the first sample)",
    "third derivatives at knots are taken from the right (piecewise constant); kernels.cubic_bspline1d(derivative=3) is not judged",
    "tolerance 64 * eps(dtype) * (product of per-axis max |weight|) * D; the transposed algorithm uses a float32 kernel, so eps32 there",
    "an object is judged once update() was called on it after its creation (docs: update() before use); reading is tensor() (SVFFD: buffer v)",
    "a table returned by the weight functions belongs to the caller: later requests/evaluations must not depend on what the caller does to it",
    "CPU, float32 and float64; strides 1..16 (stride 49, outside the property's range, makes torch.arange return s+1 offsets)",
]
MIN_NONTRIVIAL = {"quick": 9000, "thorough": 30000}
MIN_OUTCOMES = {"quick": 12000, "thorough": 40000}
MIN_SUB_TRACES = {"weights": 100, "kernel1d": 40, "coverage": 2000, "eval": 1000, "derivs": 50, "subdivide": 30, "ffd_linear": 100, "ffd_grid": 50, "cpgrid": 20, "ffd_hist": 100, "weights_hist": 2000, "eval_order": 400, "ffd_objects": 1500, "layout": 40}

EPS = {"f32": 2.0 ** -23, "f64": 2.0 ** -52}
DT = {"f32": torch.float32, "f64": torch.float64}
C = 64.0


# ---------------------------------------------------------------------------
# helpers
def _np(t):
    return t.detach().double().numpy()


def _exact_table(s, d):
    return np.array([[float(x) for x in row] for row in rb.weights(s, d)], dtype=np.float64)


def _deriv_tuples(D, total=3):
    return [t for t in itertools.product(range(4), repeat=D) if sum(t) <= total]


def _kron_expected(mats):
    """mats: list (tensor order) of M_a[out_a, k_a] -> E[K, *out], K = C-order flat index of the control grid."""
    D = len(mats)
    if D == 1:
        return np.ascontiguousarray(mats[0].T)
    if D == 2:
        E = np.einsum("yj,xi->jiyx", mats[0], mats[1])
    else:
        E = np.einsum("zl,yj,xi->ljizyx", mats[0], mats[1], mats[2])
    K = int(np.prod([m.shape[1] for m in mats]))
    return E.reshape((K,) + tuple(m.shape[0] for m in mats))


def _apply(mats, coef):
    """coef (B, *cp) -> (B, *out): apply M_a[out_a, k_a] along every spatial axis."""
    out = coef
    for a, M in enumerate(mats):
        out = np.moveaxis(np.tensordot(out, M, axes=(1 + a, 1)), -1, 1 + a)
    return out


def _impulses(cp, form, dtype):
    """All unit impulses of the control grid cp (tensor order) laid out over the N and/or C dimension."""
    K = int(np.prod(cp))
    eye = torch.eye(K, dtype=dtype).reshape((K,) + tuple(cp))
    if form == "N":
        return eye.unsqueeze(1)
    if form == "C":
        return eye.unsqueeze(0)
    # "NC": item index i = n * 2 + c
    if K % 2:
        eye = torch.cat([eye, torch.zeros((1,) + tuple(cp), dtype=dtype)], 0)
    return eye.reshape((eye.shape[0] // 2, 2) + tuple(cp))


def _unlayout(out, form, K):
    """(N, C, *sp) -> (K, *sp) in impulse order."""
    if form == "N":
        return out[:, 0]
    if form == "C":
        return out[0]
    return out.reshape((out.shape[0] * 2,) + tuple(out.shape[2:]))[:K]


def _cp_size_ref(m, s):
    return rb.cp_count_needed(m, s)


def _real_cp(shape_t, stride_t):
    """Call the implementation for the control grid size (tensor order in, tensor order out)."""
    from deepali.core import bspline as B

    return tuple(int(n) for n in B.cubic_bspline_control_point_grid_size(tuple(shape_t), tuple(stride_t)))


class _Ctx:
    """Collects problems of one case; the same code serves the explorer and replay."""

    def __init__(self, acc: Acc):
        self.acc = acc
        self.out = []

    def bad(self, sig, detail):
        self.out.append((sig, detail))

    def call(self, sig_prefix, fn, *a, **kw):
        """Guarded implementation call; an exception is a violation unless it is a NotImplementedError."""
        self.acc.trans()
        st, res = guarded(fn, *a, **kw)
        if st == "raises":
            if isinstance(res, NotImplementedError):
                self.acc.undef("NotImplementedError:" + sig_prefix.split("/")[1])
                return None
            self.bad(f"{sig_prefix}/raises={type(res).__name__}", exc_text(res))
            self.acc.outcome("raise", sig_prefix, type(res).__name__)
            return None
        return res

    def observe(self, key, t):
        if isinstance(t, torch.Tensor):
            self.acc.outcome(key, tensor_bytes(t))
            u = torch.unique(t[t != 0])
            return u.numel() >= 2
        self.acc.outcome(key, repr(t))
        return False


def _cmp(ctx, sig, got, exp, tol, what):
    """Compare arrays; returns True if equal within tol."""
    if tuple(got.shape) != tuple(exp.shape):
        ctx.bad(sig + "/shape", f"{what}: shape {tuple(got.shape)} expected {tuple(exp.shape)}")
        return False
    if not np.all(np.isfinite(got)):
        ctx.bad(sig + "/nonfinite", f"{what}: non-finite values")
        return False
    err = float(np.abs(got - exp).max()) if got.size else 0.0
    if err > tol:
        idx = np.unravel_index(int(np.abs(got - exp).argmax()), got.shape)
        ctx.bad(sig + "/value", f"{what}: max |impl - exact| = {err:.3e} > tol {tol:.2e} at {tuple(int(i) for i in idx)} (impl {got[idx]:.6g}, exact {exp[idx]:.6g})")
        return False
    return True


# ---------------------------------------------------------------------------
# sub-check: weights
def case_weights(case, ctx):
    from deepali.core import bspline as B

    s, d, dk, form = case["s"], case["d"], case["dtype"], case["form"]
    dtype = DT[dk]
    eps = EPS[dk]
    base = f"C14/weights/form={form}/d={d}"
    tables = []
    if form == "int":
        w = ctx.call(base, B.cubic_bspline_interpolation_weights, s, d, dtype=dtype)
        tables = [(s, d, w)]
    elif form == "default-dtype":
        w = ctx.call(base, B.cubic_bspline_interpolation_weights, s, d)
        tables = [(s, d, w)]
    elif form == "seq":
        s2, d2 = s % 16 + 1, (d + 1) % 4
        w = ctx.call(base, B.cubic_bspline_interpolation_weights, [s, s2], [d, d2], dtype=dtype)
        if w is not None:
            if not isinstance(w, (tuple, list)) or len(w) != 2:
                ctx.bad(base + "/type", f"expected a tuple of 2 kernels, got {type(w).__name__}")
                return
            tables = [(s, d, w[0]), (s2, d2, w[1])]
    elif form == "seq-stride-int-derivative":
        w = ctx.call(base, B.cubic_bspline_interpolation_weights, [s, s % 16 + 1], d, dtype=dtype)
        if w is not None:
            if not isinstance(w, (tuple, list)) or len(w) != 2:
                ctx.bad(base + "/type", f"expected a tuple of 2 kernels, got {type(w).__name__}")
                return
            tables = [(s, d, w[0]), (s % 16 + 1, d, w[1])]
    elif form == "int-stride-seq-derivative":
        d2 = (d + 2) % 4
        w = ctx.call(base, B.cubic_bspline_interpolation_weights, s, [d, d2], dtype=dtype)
        if w is not None:
            if not isinstance(w, (tuple, list)) or len(w) != 2:
                ctx.bad(base + "/type", f"expected a tuple of 2 kernels, got {type(w).__name__}")
                return
            tables = [(s, d, w[0]), (s, d2, w[1])]
    elif form == "generic-degree3":
        w = ctx.call(base, B.bspline_interpolation_weights, 3, s, dtype=dtype)
        tables = [(s, 0, w)]
    for s_, d_, w in tables:
        if w is None:
            continue
        if not isinstance(w, torch.Tensor):
            ctx.bad(base + "/type", f"expected a tensor, got {type(w).__name__}")
            continue
        nt = ctx.observe(("weights", s_, d_, dk), w)
        if nt:
            ctx.acc.nontriv("weights", s_, d_, dk, form)
        if dk != "default" and w.dtype != dtype:
            ctx.bad(base + "/dtype", f"dtype {w.dtype} expected {dtype}")
        got = _np(w)
        exp = _exact_table(s_, d_)
        tol = C * eps * 3.0
        sig = f"C14/weights/form={form}/d={d_}"
        if not _cmp(ctx, sig, got, exp, tol, f"stride {s_} derivative {d_}"):
            continue
        # the named properties, evaluated on the implementation's own numbers
        rows = got.sum(1)
        want = 1.0 if d_ == 0 else 0.0
        if np.abs(rows - want).max() > tol:
            ctx.bad(sig + ("/partition-of-unity" if d_ == 0 else "/derivative-sum"), f"stride {s_}: row sums deviate from {want} by {np.abs(rows - want).max():.3e}")
        if d_ in (0, 1):
            t = np.arange(s_) / s_
            pos = np.arange(4)[None, :] - 1.0 - t[:, None]
            mom = (got * pos).sum(1)
            wantm = 0.0 if d_ == 0 else 1.0
            if np.abs(mom - wantm).max() > tol * 2:
                ctx.bad(sig + "/linear-precision", f"stride {s_}: first moment deviates from {wantm} by {np.abs(mom - wantm).max():.3e}")


def case_kernel1d(case, ctx):
    from deepali.core import kernels as K

    s, d = case["s"], case["d"]
    base = f"C14/kernel1d/d={d}"
    if d == 3:
        ctx.acc.undef("kernel1d:third derivative sampled at its discontinuities")
        return
    k = ctx.call(base, K.cubic_bspline1d, s, derivative=d)
    if k is None:
        return
    if ctx.observe(("kernel1d", s, d), k):
        ctx.acc.nontriv("kernel1d", s, d)
    _cmp(ctx, base, _np(k), rb.kernel_1d(s, d), C * EPS["f32"] * 2.0, f"cubic_bspline1d(stride={s}, derivative={d})")


# ---------------------------------------------------------------------------
# sub-check: coverage (complete range of sizes and strides, 1-D)
def case_coverage(case, ctx):
    from deepali.core import bspline as B

    m, s = case["m"], case["s"]
    base = "C14/coverage"
    n = ctx.call(base + "/grid_size", B.cubic_bspline_control_point_grid_size, m, s)
    if n is None:
        return
    if not isinstance(n, int):
        ctx.bad(base + "/grid_size/type", f"int arguments returned {type(n).__name__}")
        return
    ctx.acc.outcome("cpsize", m, s, n)
    # argument forms must agree with the scalar form
    m2, s2 = (m * 7) % 64 + 1, (s * 5) % 16 + 1
    forms = {
        "seq-size": lambda: B.cubic_bspline_control_point_grid_size((m, m2), s),
        "seq-stride": lambda: B.cubic_bspline_control_point_grid_size(m, (s, s2)),
        "seq-both": lambda: B.cubic_bspline_control_point_grid_size((m, m2), (s, s2)),
    }
    scalar = {}
    for (mm, ss) in {(m, s), (m2, s), (m, s2), (m2, s2)}:
        scalar[(mm, ss)] = ctx.call(base + "/grid_size", B.cubic_bspline_control_point_grid_size, mm, ss)
    wants = {"seq-size": (scalar[(m, s)], scalar[(m2, s)]), "seq-stride": (scalar[(m, s)], scalar[(m, s2)]), "seq-both": (scalar[(m, s)], scalar[(m2, s2)])}
    for name, fn in forms.items():
        r = ctx.call(base + f"/grid_size/form={name}", fn)
        if r is not None and tuple(int(v) for v in r) != tuple(wants[name]):
            ctx.bad(base + f"/grid_size/form={name}/inconsistent", f"{name}: {tuple(r)} but scalar calls give {wants[name]}")
    a, b = -3.0, 0.25
    coef = a + b * (np.arange(n) - 1.0) * s
    exp = a + b * np.arange(m, dtype=np.float64)
    scale = float(np.abs(coef).max()) + 1.0
    for transpose in (False, True):
        for dk in ("f64", "f32"):
            data = torch.tensor(coef, dtype=DT[dk]).reshape(1, 1, n)
            sig = f"C14/coverage/evaluate/transpose={'T' if transpose else 'F'}"
            out = ctx.call(sig, B.evaluate_cubic_bspline, data, stride=s, shape=(m,), transpose=transpose)
            ctx.acc.trace("coverage")
            if out is None:
                continue
            if ctx.observe(("coverage", m, s, transpose, dk), out):
                ctx.acc.nontriv("coverage", m, s, transpose, dk)
            if tuple(out.shape) != (1, 1, m):
                ctx.bad(sig + "/samples", f"size {m} stride {s}: {n} control points evaluate to shape {tuple(out.shape)}, expected (1, 1, {m})")
                continue
            eps = EPS["f32"] if (transpose or dk == "f32") else EPS["f64"]
            _cmp(ctx, sig + "/linear", _np(out)[0, 0], exp, C * eps * scale, f"size {m} stride {s} linear coefficients")


# ---------------------------------------------------------------------------
# sub-check: eval (full operator)
def _eval_call(B, data, shape_t, stride_t, deriv_t, transpose, form):
    """form selects how the arguments are spelled; all spellings mean the same evaluation."""
    D = len(shape_t)
    stride_x = tuple(reversed(stride_t))
    deriv_x = tuple(reversed(deriv_t))
    kw = {}
    if any(deriv_t):
        kw["derivative"] = deriv_x if D > 1 else deriv_x[0]
    if form == "shape":
        return B.evaluate_cubic_bspline(data, stride=stride_x if D > 1 else stride_x[0], shape=tuple(shape_t), transpose=transpose, **kw)
    if form == "size":
        return B.evaluate_cubic_bspline(data, stride=stride_x, size=tuple(reversed(shape_t)), transpose=transpose, **kw)
    if form == "shape-Size":
        return B.evaluate_cubic_bspline(data, stride=list(stride_x), shape=torch.Size(shape_t), transpose=transpose, **kw)
    if form == "kernel":
        from deepali.core import kernels as K

        if transpose:
            kernel = tuple(K.cubic_bspline1d(s) for s in stride_x)
        else:
            kernel = B.cubic_bspline_interpolation_weights(list(stride_x), list(deriv_x), dtype=data.dtype)
        return B.evaluate_cubic_bspline(data, stride=stride_x, shape=tuple(shape_t), kernel=kernel, transpose=transpose)
    if form == "uncropped":
        return B.evaluate_cubic_bspline(data, stride=stride_x, transpose=transpose, **kw)
    raise KeyError(form)


def case_eval(case, ctx):
    from deepali.core import bspline as B

    shape_t, stride_t, layout, dk = case["shape"], case["stride"], case["layout"], case["dtype"]
    D = len(shape_t)
    dtype = DT[dk]
    cp = ctx.call("C14/eval/grid_size", _real_cp, shape_t, stride_t)
    if cp is None:
        return
    # domain: the control grid must at least hold the points the samples touch; a smaller grid is judged by the result size
    K = int(np.prod(cp))
    ctx.acc.state("eval", D, tuple(shape_t), tuple(stride_t), layout, dk)
    impulses = K <= case.get("max_impulses", 512)
    if impulses:
        data = _impulses(cp, layout, dtype)
    else:
        # linear functions 1, x, y, z as coefficient tensors (the statement's linear precision)
        idx = np.meshgrid(*[(np.arange(n) - 1.0) * s for n, s in zip(cp, stride_t)], indexing="ij")
        basis = [np.ones(cp)] + [0.25 * g for g in idx]
        data = torch.tensor(np.stack(basis), dtype=dtype).unsqueeze(1)
        layout = "N"
    results = {}
    for transpose in (False, True):
        for deriv_t in _deriv_tuples(D):
            if transpose and any(deriv_t):
                continue  # documented NotImplementedError
            for form in case["forms"] if not any(deriv_t) else ["shape"]:
                if form == "uncropped" and transpose:
                    continue
                tf = "T" if transpose else "F"
                sig = f"C14/eval/D={D}/transpose={tf}/deriv=max{max(deriv_t)}/form={form}"
                out = ctx.call(sig, _eval_call, B, data, shape_t, stride_t, deriv_t, transpose, form)
                ctx.acc.trace("eval")
                if out is None:
                    continue
                if ctx.observe(("eval", D, tuple(shape_t), tuple(stride_t), deriv_t, transpose, form, layout, dk), out):
                    ctx.acc.nontriv("eval", D, tuple(shape_t), tuple(stride_t), deriv_t, transpose, layout, dk)
                if form == "uncropped":
                    oshape = [(n - 3) * s for n, s in zip(cp, stride_t)]
                else:
                    oshape = list(shape_t)
                mats = [rb.operator_1d(n, s, m, d) for n, s, m, d in zip(cp, stride_t, oshape, deriv_t)]
                scale = float(np.prod([max(np.abs(M).max(), 1e-30) for M in mats]))
                eps = EPS["f32"] if (transpose or dk == "f32") else EPS["f64"]
                if impulses:
                    exp = _kron_expected(mats)
                    if out.ndim != D + 2 or (layout in ("N", "NC") and out.shape[1] != data.shape[1]) or out.shape[0] != data.shape[0]:
                        ctx.bad(sig + "/shape", f"output shape {tuple(out.shape)} for data {tuple(data.shape)}")
                        continue
                    got = _np(_unlayout(out, layout, K))
                    ok = _cmp(ctx, sig, got, exp, C * eps * scale * D, f"size {shape_t} stride {stride_t} derivative {deriv_t} layout {layout}")
                else:
                    exp = _apply(mats, _np(data)[:, 0])
                    sc = float(np.abs(_np(data)).max()) * scale * 4 ** D
                    ok = _cmp(ctx, sig, _np(out)[:, 0], exp, C * eps * sc * D, f"size {shape_t} stride {stride_t} derivative {deriv_t} linear coefficients")
                if ok and form == "shape" and not any(deriv_t):
                    results[transpose] = _np(out)
    if False in results and True in results:
        # "the two evaluation algorithms agree"
        sig = f"C14/eval/D={D}/algorithms-agree"
        _cmp(ctx, sig, results[True], results[False], 2 * C * EPS["f32"] * D, f"transpose=True vs False, size {shape_t} stride {stride_t}")


# ---------------------------------------------------------------------------
# sub-check: spatial_derivatives(mode="bspline")
def _sorted_keys(D, order):
    letters = "xyz"[:D]
    return ["".join(c) for c in itertools.combinations_with_replacement(letters, order)]


def case_derivs(case, ctx):
    from deepali.core.image import spatial_derivatives

    cp, stride_x, spacing, order, dk = case["cp"], case["stride"], case["spacing"], case["order"], case["dtype"]
    D = len(cp)
    K = int(np.prod(cp))
    data = _impulses(cp, "N", DT[dk])
    keys = _sorted_keys(D, order)
    kw = {}
    if stride_x is not None:
        kw["stride"] = stride_x if isinstance(stride_x, int) else tuple(stride_x)
    if spacing is not None:
        kw["spacing"] = spacing if isinstance(spacing, float) else tuple(spacing)
    sf = "none" if stride_x is None else ("int" if isinstance(stride_x, int) else "seq")
    pf = "none" if spacing is None else ("scalar" if isinstance(spacing, float) else "seq")
    base = f"C14/derivs/D={D}/order={order}/stride={sf}/spacing={pf}"
    res = ctx.call(base, spatial_derivatives, data, which=keys, mode="bspline", **kw)
    ctx.acc.state("derivs", tuple(cp), repr(stride_x), repr(spacing), order, dk)
    ctx.acc.trace("derivs")
    if res is None:
        return
    if not isinstance(res, dict) or sorted(res.keys()) != sorted(keys):
        ctx.bad(base + "/keys", f"keys {sorted(res.keys()) if isinstance(res, dict) else type(res).__name__} expected {sorted(keys)}")
        return
    sx = [1] * D if stride_x is None else ([stride_x] * D if isinstance(stride_x, int) else list(stride_x))
    px = [1.0] * D if spacing is None else ([spacing] * D if isinstance(spacing, float) else list(spacing))
    stride_t, sp_t = sx[::-1], px[::-1]
    for key in keys:
        ord_x = [key.count(c) for c in "xyz"[:D]]
        ord_t = ord_x[::-1]
        out = res[key]
        if ctx.observe(("derivs", tuple(cp), repr(stride_x), repr(spacing), key, dk), out):
            ctx.acc.nontriv("derivs", tuple(cp), repr(stride_x), repr(spacing), key, dk)
        oshape = [(n - 3) * s for n, s in zip(cp, stride_t)]
        mats = [rb.operator_1d(n, s, m, d) / (p ** d) for n, s, m, d, p in zip(cp, stride_t, oshape, ord_t, sp_t)]
        scale = float(np.prod([max(np.abs(M).max(), 1e-30) for M in mats]))
        exp = _kron_expected(mats)
        if out.ndim != D + 2:
            ctx.bad(base + "/shape", f"key {key}: shape {tuple(out.shape)}")
            continue
        _cmp(ctx, base, _np(out[:, 0]), exp, C * EPS[dk] * scale * D, f"key {key} control grid {cp} stride {stride_x} spacing {spacing}")


# ---------------------------------------------------------------------------
# sub-check: subdivide_cubic_bspline
def _dims_arg(form, dims):
    if form == "none":
        return None
    if form == "int":
        return dims[0]
    if form == "str":
        return "xyz"[dims[0]]
    if form == "strs":
        return ["xyz"[d] for d in dims]
    return list(dims)


def case_subdivide(case, ctx):
    from deepali.core import bspline as B

    cp, chain, dk = case["cp"], case["chain"], case["dtype"]  # chain: list of {"dims": [spatial dims], "form": ...}
    D = len(cp)
    K = int(np.prod(cp))
    data = _impulses(cp, "N", DT[dk])
    ctx.acc.state("subdivide", tuple(cp), repr(chain), dk)
    levels = [0] * D  # per spatial dim (x first)
    cur = data
    base = f"C14/subdivide/D={D}"
    for step, st in enumerate(chain):
        dims = list(range(D)) if st["form"] == "none" else st["dims"]
        sig = f"{base}/dims={st['form']}/step={step + 1}"
        nxt = ctx.call(sig, B.subdivide_cubic_bspline, cur, _dims_arg(st["form"], st["dims"]))
        ctx.acc.trace("subdivide", depth=step + 1)
        if nxt is None:
            return
        for d in dims:
            levels[d] += 1
        lev_t = levels[::-1]
        # expected size: 2n-1 along subdivided dims
        want = list(cur.shape)
        for d in dims:
            want[cur.ndim - 1 - d] = 2 * want[cur.ndim - 1 - d] - 1
        if list(nxt.shape) != want:
            ctx.bad(sig + "/shape", f"shape {tuple(nxt.shape)} expected {tuple(want)}")
            return
        if ctx.observe(("subdivide", tuple(cp), repr(chain[: step + 1]), dk), nxt):
            ctx.acc.nontriv("subdivide", tuple(cp), repr(chain[: step + 1]), dk)
        # same function on the original domain u in [1, n-2] per axis: 4 points per finest knot interval
        maxlev = max(levels)
        q = 4 * 2 ** maxlev
        M_old, M_new = [], []
        for a in range(D):
            n0, n1, L = cp[a], nxt.shape[2 + a], lev_t[a]
            us = [1 + Fr(j, q) for j in range(q * (n0 - 3) + 1)]
            M_old.append(rb.operator_at(n0, us))
            M_new.append(rb.operator_at(n1, [u * 2 ** L for u in us]))
        exp = _kron_expected(M_old)
        got = _np(nxt[:, 0])
        for a in range(D):
            got = np.moveaxis(np.tensordot(got, M_new[a], axes=(1 + a, 1)), -1, 1 + a)
        ok = _cmp(ctx, sig + "/function", got, exp, C * EPS[dk] * (step + 1), f"control grid {cp} after {chain[: step + 1]}: refined spline vs original on the original domain")
        if not ok:
            return
        # the same statement through deepali's own evaluation: original with stride s*2^L vs refined with stride s
        for s in case["eval_strides"]:
            so = tuple(s * 2 ** L for L in lev_t)
            a_ = ctx.call(sig + "/evaluate", B.evaluate_cubic_bspline, data, stride=tuple(reversed(so)))
            b_ = ctx.call(sig + "/evaluate", B.evaluate_cubic_bspline, nxt, stride=s)
            if a_ is None or b_ is None:
                continue
            sl = [slice(None), slice(None)]
            okshape = True
            for a in range(D):
                off = (2 ** lev_t[a] - 1) * s
                m = a_.shape[2 + a]
                if off + m > b_.shape[2 + a]:
                    okshape = False
                sl.append(slice(off, off + m))
            if not okshape:
                ctx.bad(sig + "/evaluate/domain", f"refined evaluation {tuple(b_.shape)} does not cover the original {tuple(a_.shape)} at offset")
                continue
            _cmp(ctx, sig + "/evaluate", _np(b_[tuple(sl)]), _np(a_), C * EPS[dk] * (step + 2), f"evaluate(refined, stride {s}) vs evaluate(original, stride {so})")
        cur = nxt


# ---------------------------------------------------------------------------
# FFD sub-checks
def _grid(spec):
    from deepali.core.grid import Grid

    kw = dict(size=tuple(spec["size"]), spacing=tuple(spec["spacing"]), origin=tuple(spec["origin"]), align_corners=True)
    if spec.get("direction") is not None:
        kw["direction"] = torch.tensor(spec["direction"], dtype=torch.float32)
    return Grid(**kw)


def _grid_spec(size_x, kind):
    D = len(size_x)
    if kind == "unit":
        return {"size": list(size_x), "spacing": [1.0] * D, "origin": [0.0] * D}
    return {"size": list(size_x), "spacing": [0.5, 1.25, 2.0][:D], "origin": [10.5, -3.25, 100.0][:D]}


def case_ffd_linear(case, ctx):
    from deepali.spatial import FreeFormDeformation

    size_x, stride_x, transpose = case["size"], case["stride"], case["transpose"]
    D = len(size_x)
    tf = "T" if transpose else "F"
    base = f"C14/ffd_linear/D={D}/transpose={tf}"
    ctx.acc.state("ffd_linear", tuple(size_x), tuple(stride_x), transpose)
    ctx.acc.trace("ffd_linear")
    spec = _grid_spec(size_x, case["grid"])
    f = ctx.call(base + "/construct", lambda: FreeFormDeformation(_grid(spec), params=False, stride=tuple(stride_x) if case["stride_form"] == "seq" else stride_x[0], transpose=transpose))
    if f is None:
        return
    ds = ctx.call(base + "/data_shape", lambda: tuple(f.data_shape))
    if ds is None:
        return
    shape_t, stride_t = size_x[::-1], stride_x[::-1]
    if len(ds) != D + 1 or ds[0] != D:
        ctx.bad(base + "/data_shape", f"data_shape {ds}")
        return
    cp = ds[1:]
    need = [rb.cp_count_needed(m, s) for m, s in zip(shape_t, stride_t)]
    if any(n < k for n, k in zip(cp, need)):
        ctx.bad(base + "/data_shape/too-small", f"control grid {cp} for grid shape {shape_t} stride {stride_t}: needs at least {need}")
        return
    # coefficients: channel c is a_c + sum_axis b_{c,axis} * x_axis  with x = (k-1)*s the image index of control point k
    idx = np.meshgrid(*[(np.arange(n) - 1.0) * s for n, s in zip(cp, stride_t)], indexing="ij")
    xs = np.meshgrid(*[np.arange(m, dtype=np.float64) for m in shape_t], indexing="ij")
    a = [0.5, -1.25, 2.0]
    b = [[0.25, -0.5, 0.125], [-0.375, 0.25, 0.5], [0.5, 0.125, -0.25]]
    coef = np.stack([a[c] + sum(b[c][ax] * idx[ax] for ax in range(D)) for c in range(D)])
    exp = np.stack([a[c] + sum(b[c][ax] * xs[ax] for ax in range(D)) for c in range(D)])
    p = torch.tensor(coef, dtype=torch.float32).unsqueeze(0)
    r = ctx.call(base + "/data_", f.data_, p)
    if r is None:
        return
    r = ctx.call(base + "/update", f.update)
    if r is None:
        return
    u = ctx.call(base + "/u", lambda: f.u)
    if u is None:
        return
    if ctx.observe(("ffd_linear", tuple(size_x), tuple(stride_x), transpose), u):
        ctx.acc.nontriv("ffd_linear", tuple(size_x), tuple(stride_x), transpose)
    scale = float(np.abs(coef).max()) + 1.0
    if tuple(u.shape) != (1, D) + tuple(shape_t):
        ctx.bad(base + "/samples", f"u has shape {tuple(u.shape)}, grid shape {tuple(shape_t)}: the field does not cover the image grid")
        return
    _cmp(ctx, base + "/linear", _np(u)[0], exp, C * EPS["f32"] * scale * D, f"grid {size_x} stride {stride_x}: linear coefficient function not reproduced")


def case_ffd_grid(case, ctx):
    from deepali.spatial import FreeFormDeformation

    size_x, stride_x, steps, transpose = case["size"], case["stride"], case["steps"], case["transpose"]
    D = len(size_x)
    tf = "T" if transpose else "F"
    base = f"C14/ffd_grid/D={D}/transpose={tf}"
    ctx.acc.state("ffd_grid", tuple(size_x), tuple(stride_x), repr(steps), transpose, case["grid"])
    spec = _grid_spec(size_x, case["grid"])
    g0 = ctx.call(base + "/grid", _grid, spec)
    if g0 is None:
        return
    shape_t, stride_t = size_x[::-1], stride_x[::-1]
    cp = ctx.call(base + "/grid_size", _real_cp, shape_t, stride_t)
    if cp is None:
        return
    K = int(np.prod(cp))
    chunk = case.get("chunk", 96)
    ch_scale = np.array([1.0, 2.0, 3.0][:D]).reshape((1, D) + (1,) * D)
    for k0 in range(0, K, chunk):
        k1 = min(K, k0 + chunk)
        eye = torch.zeros((k1 - k0, K), dtype=torch.float32)
        eye[torch.arange(k1 - k0), torch.arange(k0, k1)] = 1
        p = eye.reshape((k1 - k0, 1) + tuple(cp)) * torch.tensor(ch_scale, dtype=torch.float32)
        f = ctx.call(base + "/construct", lambda: FreeFormDeformation(g0, params=p.clone(), stride=tuple(stride_x), transpose=transpose))
        if f is None:
            return
        if ctx.call(base + "/update", f.update) is None:
            return
        u0 = ctx.call(base + "/u", lambda: f.u.clone())
        if u0 is None:
            return
        mats = [rb.operator_1d(n, s, m) for n, s, m in zip(cp, stride_t, shape_t)]
        E = _kron_expected(mats)[k0:k1]
        exp0 = E[:, None] * ch_scale
        if not _cmp(ctx, base + "/initial", _np(u0), exp0, C * EPS["f32"] * 3 * D, f"grid {size_x} stride {stride_x}: field of unit-impulse coefficients before refinement"):
            return
        g = g0
        cur = list(size_x)
        factor = [1] * D
        for si, dims in enumerate(steps):
            new = [2 * n - 1 if d in dims else n for d, n in enumerate(cur)]
            sig = f"{base}/step={si + 1}"
            g2 = ctx.call(sig + "/resize", lambda: g.resize(tuple(new)))
            if g2 is None:
                return
            r = ctx.call(sig + "/grid_", f.grid_, g2)
            ctx.acc.trace("ffd_grid", depth=si + 1)
            if r is None:
                return
            for d in dims:
                factor[d] *= 2
            ds = ctx.call(sig + "/data_shape", lambda: tuple(f.data_shape))
            dshape = ctx.call(sig + "/data", lambda: tuple(f.data().shape))
            if ds is None or dshape is None:
                return
            want = tuple(_real_cp(new[::-1], stride_t))
            if dshape[1:] != ds or ds != (D,) + want:
                ctx.bad(sig + "/data_shape", f"parameters {dshape}, data_shape {ds}, control grid for the new grid {want}")
                return
            if ctx.call(sig + "/update", f.update) is None:
                return
            u1 = ctx.call(sig + "/u", lambda: f.u)
            if u1 is None:
                return
            if tuple(u1.shape[2:]) != tuple(new[::-1]):
                ctx.bad(sig + "/samples", f"u has shape {tuple(u1.shape)} for grid size {new}")
                return
            if k0 == 0 and ctx.observe(("ffd_grid", tuple(size_x), tuple(stride_x), repr(steps[: si + 1]), transpose), u1):
                ctx.acc.nontriv("ffd_grid", tuple(size_x), tuple(stride_x), repr(steps[: si + 1]), transpose)
            sl = (slice(None), slice(None)) + tuple(slice(None, None, fa) for fa in factor[::-1])
            _cmp(ctx, sig + "/old-samples", _np(u1[sl]), _np(u0), C * EPS["f32"] * 3 * D * (si + 2), f"grid {size_x} -> {new} stride {stride_x}: displacement at the old samples changed")
            g, cur = g2, new
            if ctx.out:
                return


def case_ffd_hist(case, ctx):
    """Histories of evaluate / grid_(2n-1) / accessor copy grid(fine) on FFD and SVFFD, Parameter and buffer kinds.
    Observed through tensor() (no explicit update(): a stale buffered field would be returned) and, for the SVFFD, the
    buffered velocity spline v (the displacement exp(v) is not refinement invariant). Oracle: the spline field on the
    current grid equals the ORIGINAL coefficients' exact cubic B-spline evaluated at the current samples."""
    import deepali.spatial as S
    from torch.nn import Parameter

    cls_name, kind, hist, size_x, stride_x = case["cls"], case["kind"], case["hist"], case["size"], case["stride"]
    D = len(size_x)
    base = f"C14/ffd_hist/{cls_name}/kind={kind}/hist={hist}"
    ctx.acc.state("ffd_hist", cls_name, kind, hist, tuple(size_x), tuple(stride_x))
    shape_t, stride_t = size_x[::-1], stride_x[::-1]
    g0 = ctx.call(base + "/grid", _grid, _grid_spec(size_x, "unit"))
    cp = ctx.call(base + "/grid_size", _real_cp, shape_t, stride_t)
    if g0 is None or cp is None:
        return
    K = int(np.prod(cp))
    ch = np.array([1.0, 2.0, 3.0][:D]).reshape((1, D) + (1,) * D)
    p0 = torch.eye(K, dtype=torch.float32).reshape((K, 1) + tuple(cp)) * torch.tensor(ch, dtype=torch.float32)
    pin = Parameter(p0.clone()) if kind == "param" else p0.clone()
    cls = getattr(S, cls_name)
    f = ctx.call(base + "/construct", lambda: cls(g0, params=pin, stride=tuple(stride_x)))
    if f is None:
        return
    is_sv = cls_name != "FreeFormDeformation"

    def field(obj, sig):
        """spline field of obj via tensor() (implicit update only if nothing is buffered)."""
        u = ctx.call(sig + "/tensor", obj.tensor)
        if u is None:
            return None
        if is_sv:
            v = ctx.call(sig + "/v", lambda: obj.v)
            return v
        return u

    def expect(cur_size_x, factor_x):
        mats = [rb.operator_1d(n, s * fa, m) for n, s, fa, m in zip(cp, stride_t, factor_x[::-1], cur_size_x[::-1])]
        return _kron_expected(mats)[:, None] * ch

    def judge(obj, sig, cur_size_x, factor_x, what):
        u = field(obj, sig)
        if u is None:
            return False
        if ctx.observe(("ffd_hist", cls_name, kind, hist, tuple(size_x), tuple(stride_x), sig), u):
            ctx.acc.nontriv("ffd_hist", cls_name, kind, hist, tuple(size_x), tuple(stride_x), sig)
        if tuple(u.shape[2:]) != tuple(cur_size_x[::-1]):
            ctx.bad(sig + "/samples", f"{what}: field has shape {tuple(u.shape)} but the grid has size {cur_size_x} (stale or uncovered field)")
            return False
        ds = ctx.call(sig + "/data_shape", lambda: (tuple(obj.data_shape), tuple(obj.data().shape)))
        if ds is None:
            return False
        if ds[1][1:] != ds[0]:
            ctx.bad(sig + "/data_shape", f"{what}: parameters {ds[1]} but data_shape {ds[0]}")
            return False
        return _cmp(ctx, sig + "/function", _np(u), expect(cur_size_x, factor_x), C * EPS["f32"] * 3 * D * 3, f"{what}: grid {size_x} stride {stride_x}")

    def refine(obj, sig, cur, factor, inplace=True):
        new = [2 * n - 1 for n in cur]
        g2 = ctx.call(sig + "/resize", lambda: obj.grid().resize(tuple(new)))
        if g2 is None:
            return None
        r = ctx.call(sig + ("/grid_" if inplace else "/grid(copy)"), obj.grid_ if inplace else obj.grid, g2)
        if r is None:
            return None
        return r, new, [fa * 2 for fa in factor]

    cur, factor = list(size_x), [1] * D
    steps = {"eval-grid_-eval": ["e", "g", "e"], "grid_-eval-grid_-eval": ["g", "e", "g", "e"], "eval-grid_-grid_-eval": ["e", "g", "g", "e"], "copy": ["e", "c"], "copy-first": ["c"]}[hist]
    for i, op in enumerate(steps):
        sig = f"{base}/step={i + 1}"
        ctx.acc.trace("ffd_hist", depth=i + 1)
        if op == "e":
            if not judge(f, sig + "/evaluate", cur, factor, "evaluate"):
                return
        elif op == "g":
            r = refine(f, sig, cur, factor)
            if r is None:
                return
            _, cur, factor = r
        elif op == "c":
            fp = tensor_bytes(f.data())
            pobj = f.params
            r = refine(f, sig, cur, factor, inplace=False)
            if r is None:
                return
            c, cnew, cfac = r
            if c is f:
                ctx.bad(sig + "/grid(copy)/same-object", "grid(arg) returned the transformation itself")
                return
            if not judge(c, sig + "/copy", cnew, cfac, "refined copy"):
                return
            # the original: same coefficients (bits), same grid, same function
            if tensor_bytes(f.data()) != fp or tuple(f.data().shape) != (K, D) + tuple(cp):
                ctx.bad(sig + "/original/params-changed", f"coefficients of the original changed when a refined copy was made: shape {tuple(f.data().shape)}, was {(K, D) + tuple(cp)}")
                return
            if [int(n) for n in f.grid().size()] != cur:
                ctx.bad(sig + "/original/grid-changed", f"grid of the original is now {f.grid().size()}")
                return
            if not judge(f, sig + "/original", cur, factor, "original after making a refined copy"):
                return


# ---------------------------------------------------------------------------
# call histories on the functional API (hidden module state, aliasing of returned tables)
DEVICE_FORMS = {"none": None, "str": "cpu", "device": torch.device("cpu")}


def case_weights_hist(case, ctx):
    """request weights -> the caller mutates ITS table in place -> request again -> evaluate: every later result must
    equal the exact basis, whatever the caller did to earlier return values."""
    from deepali.core import bspline as B

    s, d, dk, dev, mut, api = case["s"], case["d"], case["dtype"], case["device"], case["mutation"], case["api"]
    dtype = None if dk == "default" else DT[dk]
    edk = "f32" if dk == "default" else dk
    base = f"C14/weights_hist/api={api}/device={dev}/mutation={mut}/d={d}"
    ctx.acc.state("weights_hist", s, d, dk, dev, mut, api)
    exp = _exact_table(s, d)
    tol = C * EPS[edk] * 3.0

    def request(sig):
        if api == "cubic":
            return ctx.call(sig, B.cubic_bspline_interpolation_weights, s, d, dtype=dtype, device=DEVICE_FORMS[dev])
        if api == "seq":
            r = ctx.call(sig, B.cubic_bspline_interpolation_weights, [s, s], [d, d], dtype=dtype, device=DEVICE_FORMS[dev])
            return None if r is None else r[1]
        return ctx.call(sig, B.bspline_interpolation_weights, 3, s, dtype=dtype, device=DEVICE_FORMS[dev])

    k1 = request(base + "/step=1/request")
    ctx.acc.trace("weights_hist", depth=1)
    if k1 is None or not _cmp(ctx, base + "/step=1/request", _np(k1), exp, tol, f"stride {s} derivative {d}: first request"):
        return
    with torch.no_grad():
        if mut == "scale":
            k1.div_(4.0)
        elif mut == "zero":
            k1.zero_()
        elif mut == "add":
            k1.add_(1.0)
    k2 = request(base + "/step=3/request-again")
    ctx.acc.trace("weights_hist", depth=3)
    if k2 is None:
        return
    ctx.observe(("weights_hist", s, d, dk, dev, mut, api), k2)
    ctx.acc.nontriv("weights_hist", s, d, dk, dev, mut, api)
    if not _cmp(ctx, base + "/step=3/request-again", _np(k2), exp, tol, f"stride {s} derivative {d}: request after the caller changed the table it got before ({mut})"):
        return
    # evaluation after the caller's mutation (the evaluator asks for weights with dtype/device of the data)
    m = 2 * s + 1
    n = rb.cp_count_needed(m, s)
    data = _impulses([n], "N", DT[edk])
    out = ctx.call(base + "/step=4/evaluate", B.evaluate_cubic_bspline, data, stride=s, shape=(m,), derivative=d)
    ctx.acc.trace("weights_hist", depth=4)
    if out is None:
        return
    M = rb.operator_1d(n, s, m, d)
    _cmp(ctx, base + "/step=4/evaluate", _np(out[:, 0]), np.ascontiguousarray(M.T), C * EPS[edk] * max(float(np.abs(M).max()), 1.0), f"evaluate(stride {s}, derivative {d}) after the caller changed a weight table")
    if case.get("derivs") and d >= 1:
        from deepali.core.image import spatial_derivatives

        cp = [4, n]
        data2 = _impulses(cp, "N", DT[edk])
        key = "x" * d
        res = ctx.call(base + "/step=5/spatial_derivatives", spatial_derivatives, data2, which=[key], mode="bspline", stride=(s, 1))
        if res is not None and key in res:
            mats = [rb.operator_1d(4, 1, 1, 0), rb.operator_1d(n, s, (n - 3) * s, d)]
            _cmp(ctx, base + "/step=5/spatial_derivatives", _np(res[key][:, 0]), _kron_expected(mats), C * EPS[edk] * 3 * 2, f"spatial_derivatives key {key} stride {s} after the caller changed a weight table")


def case_eval_order(case, ctx):
    """Two evaluations in sequence with different (stride, derivative): hidden module state must not leak."""
    from deepali.core import bspline as B

    (s1, d1), (s2, d2), dk = case["first"], case["second"], case["dtype"]
    base = "C14/eval_order"
    ctx.acc.state("eval_order", s1, d1, s2, d2, dk)
    for i, (s, d) in enumerate(((s1, d1), (s2, d2), (s1, d1))):
        m = 2 * s + 1
        n = rb.cp_count_needed(m, s)
        data = _impulses([n], "N", DT[dk])
        for transpose in ((False, True) if d == 0 else (False,)):
            sig = f"{base}/step={i + 1}/transpose={'T' if transpose else 'F'}/d={d}"
            out = ctx.call(sig, B.evaluate_cubic_bspline, data, stride=s, shape=(m,), derivative=d, transpose=transpose)
            ctx.acc.trace("eval_order", depth=i + 1)
            if out is None:
                return
            ctx.observe(("eval_order", s1, d1, s2, d2, dk, i, transpose), out)
            ctx.acc.nontriv("eval_order", s1, d1, s2, d2, dk, i, transpose)
            M = rb.operator_1d(n, s, m, d)
            eps = EPS["f32"] if transpose else EPS[dk]
            if not _cmp(ctx, sig, _np(out[:, 0]), np.ascontiguousarray(M.T), C * eps * max(float(np.abs(M).max()), 1.0), f"evaluation #{i + 1} (stride {s}, derivative {d}) in the sequence {case['first']}, {case['second']}, {case['first']}"):
                return


# ---------------------------------------------------------------------------
# object histories: every live, updated transform keeps denoting the spline of ITS coefficients
OBJ_OPS = ["upd_a", "upd_o", "upd_b", "mk_link", "mk_copy", "mk_data", "mk_inv", "mk_invlink"]


def obj_histories(cls_name, depth):
    ops = OBJ_OPS if cls_name != "FreeFormDeformation" else OBJ_OPS[:6]
    out = []

    def rec(h, has_b):
        if len(h) == depth:
            if any(o.startswith("upd") for o in h):
                out.append(list(h))
            return
        for o in ops:
            if o == "upd_b" and not has_b:
                continue
            if o.startswith("mk") and has_b:
                continue
            rec(h + [o], has_b or o.startswith("mk"))

    rec([], False)
    return out


def case_ffd_objects(case, ctx):
    """Histories (depth <= 3) of update / shallow copy / link / inverse(link) / data(arg) on two transforms a (coefficients A)
    and o (coefficients B) and one derived object b. An object is judged once update() has been called on it after its
    creation (the docs require update() before use); from then on its dense spline field must equal the exact spline of
    ITS coefficients after every later step on ANY object."""
    import copy as _copy

    import deepali.spatial as S
    from torch.nn import Parameter

    cls_name, kind, grad, hist, size_x, stride_x = case["cls"], case["kind"], case["grad"], case["hist"], case["size"], case["stride"]
    D = len(size_x)
    is_sv = cls_name != "FreeFormDeformation"
    base = f"C14/ffd_objects/{cls_name}/kind={kind}/grad={'T' if grad else 'F'}"
    ctx.acc.state("ffd_objects", cls_name, kind, grad, tuple(hist), tuple(size_x), tuple(stride_x))
    shape_t, stride_t = size_x[::-1], stride_x[::-1]
    g0 = ctx.call(base + "/grid", _grid, _grid_spec(size_x, "unit"))
    cp = ctx.call(base + "/grid_size", _real_cp, shape_t, stride_t)
    if g0 is None or cp is None:
        return
    n = D * int(np.prod(cp))
    coef = {}
    for name, salt in (("A", 3), ("B", 11)):
        x = (salt * 2654435761 + 977) & 0xFFFFFFFF
        vals = []
        for _ in range(n):
            x = (1103515245 * x + 12345) & 0x7FFFFFFF
            vals.append((((x >> 8) % 33) - 16) / 16.0)
        coef[name] = np.array(vals).reshape((1, D) + tuple(cp))
    mats = [rb.operator_1d(nn, s, m) for nn, s, m in zip(cp, stride_t, shape_t)]
    expect = {k: _apply(mats, v[0])[None] for k, v in coef.items()}
    cls = getattr(S, cls_name)

    def make(key):
        t = torch.tensor(coef[key], dtype=torch.float32)
        pin = Parameter(t) if kind == "param" else t
        kw = {"steps": 2} if is_sv else {}
        return cls(g0, params=pin, stride=tuple(stride_x), **kw)

    with torch.set_grad_enabled(bool(grad)):
        a = ctx.call(base + "/construct", make, "A")
        o = ctx.call(base + "/construct", make, "B")
        if a is None or o is None:
            return
        live = {"a": [a, "A", False], "o": [o, "B", False]}
        made = ""
        for i, op in enumerate(hist):
            tag = op if not op.endswith("_b") else f"{op}[{made}]"
            sig = f"{base}/after={tag}"
            ctx.acc.trace("ffd_objects", depth=i + 1)
            if op.startswith("upd_"):
                name = op[4:]
                if ctx.call(sig, live[name][0].update) is None:
                    return
                live[name][2] = True
            else:
                made = op[3:]
                if op == "mk_link":
                    b, key = ctx.call(sig, a.link, o), "B"
                elif op == "mk_copy":
                    b, key = ctx.call(sig, _copy.copy, a), "A"
                elif op == "mk_data":
                    b, key = ctx.call(sig, a.data, torch.tensor(coef["B"], dtype=torch.float32)), "B"
                elif op == "mk_inv":
                    b, key = ctx.call(sig, a.inverse), "A"
                else:
                    b, key = ctx.call(sig, lambda: a.inverse(link=True)), "A"
                if b is None:
                    return
                live["b"] = [b, key, False]
            # invariant in every reached state
            for name in sorted(live):
                obj, key, valid = live[name]
                if not valid:
                    continue
                s2 = f"{sig}/object={name}"
                u = ctx.call(s2 + "/tensor", obj.tensor)
                if u is None:
                    return
                if is_sv:
                    u = ctx.call(s2 + "/v", lambda: obj.v)
                    if u is None:
                        return
                ctx.observe(("ffd_objects", cls_name, kind, grad, tuple(hist[: i + 1]), name), u)
                ctx.acc.nontriv("ffd_objects", cls_name, kind, grad, tuple(hist[: i + 1]), name)
                if not _cmp(ctx, s2 + "/function", _np(u), expect[key], C * EPS["f32"] * 2 * D, f"history {hist[: i + 1]}: dense spline field of object '{name}' vs the exact spline of its coefficients ({key})"):
                    return


# ---------------------------------------------------------------------------
# memory layout of the coefficient tensor
LAYOUTS = ["transposed", "sliced", "expanded"]
LAYOUT_N = 3


def layout_targets():
    """name -> (callable, contiguous coefficient tensor (N=3, C, *cp))."""
    import deepali.spatial as S
    from deepali.core import bspline as B
    from torch.nn import Parameter

    def table(shape, salt):
        x = (salt * 2654435761 + 4242) & 0xFFFFFFFF
        vals = []
        for _ in range(int(np.prod(shape))):
            x = (1103515245 * x + 12345) & 0x7FFFFFFF
            vals.append((((x >> 8) % 33) - 16) / 8.0)
        return torch.tensor(np.array(vals).reshape(shape), dtype=torch.float32)

    T = {}
    for D, cp, stride in ((1, [6], (2,)), (2, [5, 6], (2, 3)), (3, [4, 5, 4], (1, 2, 2))):
        data = table([LAYOUT_N, 2] + cp, D)
        for tr in (False, True):
            T[f"evaluate[D={D},transpose={'T' if tr else 'F'}]"] = (lambda d, s=stride, t=tr: B.evaluate_cubic_bspline(d, stride=s, transpose=t), data)
        T[f"evaluate[D={D},derivative]"] = (lambda d, s=stride, D=D: B.evaluate_cubic_bspline(d, stride=s, derivative=(1,) + (0,) * (D - 1)), data)
        T[f"subdivide[D={D},all]"] = (lambda d: B.subdivide_cubic_bspline(d), data)
        if D > 1:
            T[f"subdivide[D={D},x]"] = (lambda d: B.subdivide_cubic_bspline(d, dims=[0]), data)
    for cls_name in ("FreeFormDeformation", "StationaryVelocityFreeFormDeformation"):
        for kind in ("tensor", "param"):
            size_x, stride_x = [5, 4], [2, 3]
            cp = _real_cp(size_x[::-1], stride_x[::-1])
            data = table([LAYOUT_N, 2] + list(cp), 7)

            def run(d, cls_name=cls_name, kind=kind, size_x=size_x, stride_x=stride_x):
                kw = {"steps": 2} if cls_name != "FreeFormDeformation" else {}
                f = getattr(S, cls_name)(_grid(_grid_spec(size_x, "unit")), params=Parameter(d) if kind == "param" else d, stride=tuple(stride_x), **kw)
                f.update()
                return (f.v if cls_name != "FreeFormDeformation" else f.u).detach()

            T[f"{cls_name}.update[{kind}]"] = (run, data)
    return T


def case_layout(case, ctx):
    """Same coefficients, different memory layout: no exception, same result as with a contiguous tensor, operand unchanged."""
    from ref.layout import relayout

    name, form = case["target"], case["layout"]
    fn, data = layout_targets()[name]
    sig = f"C14/layout/target={name}/layout={form}"
    ctx.acc.state("layout", name, form)
    ctx.acc.trace("layout")
    if form == "expanded":
        ref_in, tst_in = relayout(data[0], "repeat", LAYOUT_N), relayout(data[0], "expanded", LAYOUT_N)
    else:
        ref_in, tst_in = relayout(data, "contig"), relayout(data, form)
    fp = tensor_bytes(tst_in)
    ref = ctx.call(f"C14/layout/target={name}/layout=contig", fn, ref_in)
    if ref is None:
        return
    res = ctx.call(sig, fn, tst_in)
    if res is None:
        return
    if tensor_bytes(tst_in) != fp:
        ctx.bad(sig + "/operand-mutated", "the coefficient tensor was modified in place")
    if ctx.observe(("layout", name, form), res):
        ctx.acc.nontriv("layout", name, form)
    _cmp(ctx, sig, _np(res), _np(ref), C * EPS["f32"] * (float(ref.abs().max()) + 1.0), f"{name}: coefficients given as {form} view vs contiguous")


def cases_layout(tier):
    from ref.layout import applicable

    out = []
    for name, (_, data) in layout_targets().items():
        for form in LAYOUTS:
            if form == "expanded" or applicable(data, form):
                out.append({"sub": "layout", "target": name, "layout": form})
    return out


def case_cpgrid(case, ctx):
    from deepali.core import bspline as B

    spec, stride_x = case["grid"], case["stride"]
    D = len(spec["size"])
    base = f"C14/cpgrid/D={D}"
    if D == 1:
        ctx.acc.undef("cpgrid:Grid.index_to_world of a 1-D grid is not usable as an observation")
        return
    ctx.acc.state("cpgrid", repr(spec), tuple(stride_x))
    ctx.acc.trace("cpgrid")
    g = ctx.call(base + "/grid", _grid, spec)
    if g is None:
        return
    sarg = stride_x[0] if case["stride_form"] == "int" else tuple(stride_x)
    cg = ctx.call(base, B.cubic_bspline_control_point_grid, g, sarg)
    if cg is None:
        return
    size = tuple(int(n) for n in cg.size())
    want = tuple(_real_cp(spec["size"], stride_x))
    ctx.acc.outcome("cpgrid", repr(spec), tuple(stride_x), size, tensor_bytes(cg.origin()), tensor_bytes(cg.spacing()))
    ctx.acc.nontriv("cpgrid", repr(spec), tuple(stride_x))
    if size != want:
        ctx.bad(base + "/size", f"size {size}, cubic_bspline_control_point_grid_size gives {want}")
        return
    R = np.eye(D) if spec.get("direction") is None else np.array(spec["direction"], dtype=np.float64).reshape(D, D)
    sp = np.array(spec["spacing"], dtype=np.float64)
    o = np.array(spec["origin"], dtype=np.float64)
    ks = np.array(list(itertools.product(*[(0, 1, n - 1) for n in size])), dtype=np.float64)
    img_idx = (ks - 1.0) * np.array(stride_x, dtype=np.float64)
    exp = o + (img_idx * sp) @ R.T
    w = ctx.call(base + "/index_to_world", lambda: cg.index_to_world(torch.tensor(ks, dtype=torch.float32)))
    if w is None:
        return
    scale = float(np.abs(exp).max()) + float((np.array(spec["size"]) * sp).max())
    _cmp(ctx, base + "/placement", _np(w), exp, C * EPS["f32"] * scale, f"grid {spec['size']} spacing {spec['spacing']} stride {stride_x}: control point k is not at image index (k-1)*stride")


SUBS = {
    "weights": case_weights,
    "kernel1d": case_kernel1d,
    "coverage": case_coverage,
    "eval": case_eval,
    "derivs": case_derivs,
    "subdivide": case_subdivide,
    "ffd_linear": case_ffd_linear,
    "ffd_grid": case_ffd_grid,
    "cpgrid": case_cpgrid,
    "ffd_hist": case_ffd_hist,
    "weights_hist": case_weights_hist,
    "eval_order": case_eval_order,
    "ffd_objects": case_ffd_objects,
    "layout": case_layout,
}


# ---------------------------------------------------------------------------
# enumeration
SIZES = [1, 2, 5, 7, 12]
STRIDES = [1, 2, 3, 5, 8]


def _subsets(D):
    return [list(c) for r in range(1, D + 1) for c in itertools.combinations(range(D), r)]


def cases_weights(tier):
    out = []
    for s in range(1, 17):
        for d in range(4):
            for dk in ("f64", "f32"):
                out.append({"sub": "weights", "s": s, "d": d, "dtype": dk, "form": "int"})
                out.append({"sub": "weights", "s": s, "d": d, "dtype": dk, "form": "seq"})
            out.append({"sub": "weights", "s": s, "d": d, "dtype": "f32", "form": "default-dtype"})
            out.append({"sub": "weights", "s": s, "d": d, "dtype": "f64", "form": "seq-stride-int-derivative"})
            out.append({"sub": "weights", "s": s, "d": d, "dtype": "f64", "form": "int-stride-seq-derivative"})
        for dk in ("f64", "f32"):
            out.append({"sub": "weights", "s": s, "d": 0, "dtype": dk, "form": "generic-degree3"})
        for d in range(4):
            out.append({"sub": "kernel1d", "s": s, "d": d})
    return out


def cases_coverage(tier):
    return [{"sub": "coverage", "m": m, "s": s} for s in range(1, 17) for m in range(1, 65)]


def cases_eval(tier):
    out = []
    forms_all = ["shape", "size", "shape-Size", "kernel", "uncropped"]
    # D = 1: complete (m <= 24, s <= 16) x layout x dtype
    for s in range(1, 17):
        for m in range(1, 25):
            for layout in ("N", "C", "NC"):
                for dk in ("f64", "f32"):
                    if tier == "quick" and (dk == "f32") == (layout == "N"):
                        continue  # quick: N layout in float64, C and NC layouts in float32
                    out.append({"sub": "eval", "shape": [m], "stride": [s], "layout": layout, "dtype": dk, "forms": forms_all if layout == "N" else ["shape"]})
    # D = 2: sizes x strides (per axis), incl. non-divisible pairs
    sz = SIZES if tier == "thorough" else [1, 2, 7]
    st = STRIDES if tier == "thorough" else [1, 2, 5]
    for shape in itertools.product(sz, repeat=2):
        for stride in itertools.product(st, repeat=2):
            out.append({"sub": "eval", "shape": list(shape), "stride": list(stride), "layout": "N", "dtype": "f64", "forms": forms_all if tier == "thorough" else ["shape", "size", "kernel"]})
            if tier == "thorough":
                out.append({"sub": "eval", "shape": list(shape), "stride": list(stride), "layout": "NC", "dtype": "f32", "forms": ["shape"]})
                out.append({"sub": "eval", "shape": list(shape), "stride": list(stride), "layout": "C", "dtype": "f32", "forms": ["shape"]})
    if tier == "quick":
        for shape, stride in [((12, 5), (8, 3)), ((7, 12), (2, 8)), ((5, 2), (1, 5))]:
            for layout, dk in (("NC", "f32"), ("C", "f32")):
                out.append({"sub": "eval", "shape": list(shape), "stride": list(stride), "layout": layout, "dtype": dk, "forms": ["shape"]})
    # D = 3
    if tier == "thorough":
        shapes3 = list(itertools.product(SIZES, repeat=3))
        strides3 = [(1, 2, 3), (3, 5, 2), (8, 1, 2), (2, 2, 2), (5, 3, 1), (2, 8, 5), (1, 1, 1), (3, 1, 8)]
    else:
        shapes3 = [(1, 2, 5), (5, 7, 2), (7, 1, 12), (2, 5, 7)]
        strides3 = [(1, 2, 3), (3, 5, 2), (8, 1, 2), (2, 2, 2)]
    for shape in shapes3:
        for stride in strides3:
            out.append({"sub": "eval", "shape": list(shape), "stride": list(stride), "layout": "NC", "dtype": "f64", "forms": ["shape", "size", "kernel"], "max_impulses": 400 if tier == "thorough" else 160})
    return out


def cases_derivs(tier):
    out = []
    menus = {
        2: {"cp": [[4, 4], [5, 7], [6, 4]], "stride": [None, 1, 2, [2, 3], [3, 1]], "spacing": [None, 2.0, [0.5, 2.0]]},
        3: {"cp": [[4, 4, 4], [5, 4, 6]], "stride": [None, 2, [3, 1, 2]], "spacing": [None, 2.0, [0.5, 2.0, 4.0]]},
    }
    for D, m in menus.items():
        for cp in m["cp"]:
            for stride in m["stride"]:
                for spacing in m["spacing"]:
                    for order in (1, 2, 3):
                        for dk in ("f64", "f32"):
                            out.append({"sub": "derivs", "cp": cp, "stride": stride, "spacing": spacing, "order": order, "dtype": dk})
    return out


def cases_subdivide(tier):
    out = []
    cps = {1: [[4], [6]], 2: [[4, 4], [5, 6], [7, 4]], 3: [[4, 4, 4], [4, 5, 6]]}
    for D, lst in cps.items():
        steps = [{"dims": list(range(D)), "form": "none"}] + [{"dims": s, "form": "list"} for s in _subsets(D)]
        steps.append({"dims": [D - 1], "form": "int"})
        steps.append({"dims": [0], "form": "str"})
        if D > 1:
            steps.append({"dims": [D - 1, 0], "form": "strs"})
        for cp in lst:
            for dk in ("f64", "f32"):
                for s1 in steps:
                    out.append({"sub": "subdivide", "cp": cp, "chain": [s1], "dtype": dk, "eval_strides": [1, 2, 3]})
                    if dk == "f64" and s1["form"] in ("none", "list") and (tier == "thorough" or D < 3 or cp == lst[0]):
                        for s2 in steps:
                            if s2["form"] in ("none", "list"):
                                out.append({"sub": "subdivide", "cp": cp, "chain": [s1, s2], "dtype": dk, "eval_strides": [1, 2]})
    return out


def cases_ffd_linear(tier):
    out = []
    for s in range(1, 17):
        for m in range(2, 25):
            for tr in (False, True):
                out.append({"sub": "ffd_linear", "size": [m], "stride": [s], "transpose": tr, "grid": "unit", "stride_form": "int"})
    sz = [2, 5, 7, 12]
    st = STRIDES if tier == "thorough" else [1, 2, 3, 5]
    for size in itertools.product(sz, repeat=2):
        for stride in itertools.product(st, repeat=2):
            for tr in (False, True):
                out.append({"sub": "ffd_linear", "size": list(size), "stride": list(stride), "transpose": tr, "grid": "generic" if tr else "unit", "stride_form": "seq"})
    sizes3 = [(2, 5, 7), (5, 7, 2), (7, 2, 12), (12, 5, 2), (5, 5, 5)]
    strides3 = [(1, 2, 3), (3, 5, 2), (8, 1, 2), (2, 2, 2), (5, 3, 1)]
    for size in sizes3:
        for stride in strides3:
            for tr in (False, True):
                out.append({"sub": "ffd_linear", "size": list(size), "stride": list(stride), "transpose": tr, "grid": "generic", "stride_form": "seq"})
        for tr in (False, True):
            out.append({"sub": "ffd_linear", "size": list(size), "stride": [4, 4, 4], "transpose": tr, "grid": "unit", "stride_form": "int"})
    return out


def cases_ffd_grid(tier):
    out = []
    # D = 1
    for m in (3, 4, 9, 17):
        for s in (1, 2, 5):
            out.append({"sub": "ffd_grid", "size": [m], "stride": [s], "steps": [[0], [0]], "transpose": False, "grid": "unit"})
    # D = 2: every size in [3,17]^2 (thorough) / [3,9]^2 (quick)
    hi = 17 if tier == "thorough" else 7
    strides2 = [(1, 1), (2, 3), (5, 5), (4, 2)]
    for nx in range(3, hi + 1):
        for ny in range(3, hi + 1):
            for i, stride in enumerate(strides2):
                for dims in ([0], [1], [0, 1]):
                    tr = (nx + ny + i) % 4 == 0
                    out.append({"sub": "ffd_grid", "size": [nx, ny], "stride": list(stride), "steps": [dims, dims], "transpose": tr, "grid": "generic" if (nx + i) % 2 else "unit"})
    # mixed second steps
    for size in ([3, 5], [6, 4], [9, 7]):
        for stride in strides2:
            for d1, d2 in (([0], [1]), ([1], [0, 1]), ([0, 1], [0])):
                out.append({"sub": "ffd_grid", "size": size, "stride": list(stride), "steps": [d1, d2], "transpose": False, "grid": "unit"})
    sizes3 = [(3, 4, 5), (5, 3, 7), (9, 6, 4), (4, 8, 3), (6, 6, 6)]
    strides3 = [(1, 1, 1), (2, 3, 1), (4, 2, 3)]
    if tier == "quick":
        sizes3, strides3 = sizes3[:3], strides3[:2]
    for size in sizes3:
        for stride in strides3:
            for dims in _subsets(3):
                out.append({"sub": "ffd_grid", "size": list(size), "stride": list(stride), "steps": [dims, dims] if tier == "thorough" else [dims], "transpose": False, "grid": "unit", "chunk": 48})
    return out


def cases_ffd_hist(tier):
    out = []
    confs = [([5, 4], [2, 3]), ([4, 6], [1, 1]), ([6], [2]), ([3, 4, 3], [2, 1, 3])]
    if tier == "thorough":
        confs += [([7, 5], [4, 2]), ([9], [5]), ([4, 3, 5], [1, 2, 2])]
    for size, stride in confs:
        for cls in ("FreeFormDeformation", "StationaryVelocityFreeFormDeformation"):
            if cls != "FreeFormDeformation" and len(size) == 1:
                continue  # the SVFFD's scaling-and-squaring (ExpFlow / warp_image) does not accept 1-D fields: not a B-spline matter
            for kind in ("param", "buffer"):
                for hist in ("eval-grid_-eval", "grid_-eval-grid_-eval", "eval-grid_-grid_-eval", "copy", "copy-first"):
                    out.append({"sub": "ffd_hist", "cls": cls, "kind": kind, "hist": hist, "size": size, "stride": stride})
    return out


def cases_weights_hist(tier):
    out = []
    for s in range(1, 17):
        for d in range(4):
            for dk in ("default", "f32", "f64"):
                for dev in ("none", "str", "device"):
                    for mut in ("scale", "zero"):
                        out.append({"sub": "weights_hist", "s": s, "d": d, "dtype": dk, "device": dev, "mutation": mut, "api": "cubic", "derivs": s <= 3})
            for dk in ("f32", "f64"):
                out.append({"sub": "weights_hist", "s": s, "d": d, "dtype": dk, "device": "device", "mutation": "add", "api": "seq"})
        for dk in ("default", "f32", "f64"):
            for dev in ("none", "device"):
                out.append({"sub": "weights_hist", "s": s, "d": 0, "dtype": dk, "device": dev, "mutation": "scale", "api": "generic3"})
    menu = [(s, d) for s in (1, 2, 3, 5) for d in range(4)]
    for first in menu:
        for second in menu:
            if first != second:
                out.append({"sub": "eval_order", "first": list(first), "second": list(second), "dtype": "f32" if (first[0] + second[1]) % 2 else "f64"})
    return out


def cases_ffd_objects(tier):
    out = []
    confs = [([5, 4], [2, 3])] + ([([6], [2]), ([3, 4, 3], [2, 1, 3])] if tier == "thorough" else [])
    for size, stride in confs:
        for cls in ("FreeFormDeformation", "StationaryVelocityFreeFormDeformation"):
            if cls != "FreeFormDeformation" and len(size) == 1:
                continue
            for kind in ("tensor", "param"):
                for grad in (False, True):
                    for hist in obj_histories(cls, 3):
                        out.append({"sub": "ffd_objects", "cls": cls, "kind": kind, "grad": grad, "hist": hist, "size": size, "stride": stride})
    return out


def cases_cpgrid(tier):
    out = []
    rot = [[0.8, -0.6], [0.6, 0.8]]
    for size, strides in (([9, 7], [(1, 1), (2, 3), (4, 4), (5, 2)]), ([12, 5], [(3, 3), (8, 2)]), ([5, 6, 7], [(1, 1, 1), (2, 3, 4), (2, 2, 2)])):  # D = 1 left out: Grid.index_to_world of a 1-D grid is not usable as an observation
        D = len(size)
        for kind in ("unit", "generic"):
            for stride in strides:
                spec = _grid_spec(size, kind)
                forms = ["seq"] + (["int"] if len(set(stride)) == 1 else [])
                for form in forms:
                    out.append({"sub": "cpgrid", "grid": spec, "stride": list(stride), "stride_form": form})
                if D == 2 and kind == "generic":
                    spec2 = dict(spec)
                    spec2["direction"] = rot
                    out.append({"sub": "cpgrid", "grid": spec2, "stride": list(stride), "stride_form": "seq"})
    return out


GENERATORS = [
    ("weights", cases_weights, 100),
    ("coverage", cases_coverage, 128),
    ("eval", cases_eval, 40),
    ("derivs", cases_derivs, 48),
    ("subdivide", cases_subdivide, 24),
    ("ffd_linear", cases_ffd_linear, 160),
    ("ffd_grid", cases_ffd_grid, 24),
    ("cpgrid", cases_cpgrid, 40),
    ("ffd_hist", cases_ffd_hist, 16),
    ("weights_hist", cases_weights_hist, 150),
    ("ffd_objects", cases_ffd_objects, 150),
    ("layout", cases_layout, 60),
]


def bounds(tier):
    b = {"stride_range": [1, 16], "derivative_range": [0, 3], "coverage_sizes": [1, 64], "D": [1, 2, 3], "subdivision_chain_depth": 2, "ffd_grid_refinements_in_a_row": 2,
         "object_history_depth": 3, "object_alphabet": len(OBJ_OPS), "object_histories_FFD": len(obj_histories("FreeFormDeformation", 3)),
         "object_histories_SVFFD": len(obj_histories("StationaryVelocityFreeFormDeformation", 3)), "functional_history_depth": 5, "device_forms": 3,
         "layout_forms": ["contig"] + LAYOUTS, "layout_targets": len(layout_targets())}
    for name, gen, _ in GENERATORS:
        b["cases_" + name] = len(gen(tier))
    return b


def shards(tier: str, seed: int):
    out = []
    for name, gen, per in GENERATORS:
        n = len(gen(tier))
        for lo in range(0, n, per):
            out.append({"tier": tier, "gen": name, "lo": lo, "hi": min(n, lo + per)})
    return out


def _case_size(case):
    sub = case["sub"]
    if sub in ("subdivide",):
        return len(case["chain"])
    if sub == "ffd_grid":
        return len(case["steps"])
    if sub == "ffd_hist":
        return case["hist"].count("-") + 1
    if sub == "ffd_objects":
        return len(case["hist"])
    if sub in ("weights_hist", "eval_order"):
        return 3
    return 1


def run_case(case, acc: Acc):
    ctx = _Ctx(acc)
    SUBS[case["sub"]](case, ctx)
    return ctx.out


def run_shard(shard) -> Acc:
    acc = Acc()
    gen = {name: g for name, g, _ in GENERATORS}[shard["gen"]]
    cases = gen(shard["tier"])[shard["lo"] : shard["hi"]]
    for case in cases:
        sub = case["sub"]
        if sub in ("weights", "kernel1d"):
            acc.state(sub, case["s"], case["d"], case.get("dtype"), case.get("form"))
            acc.trace(sub)
        elif sub == "coverage":
            acc.state(sub, case["m"], case["s"])
        problems = run_case(case, acc)
        seen = set()
        for sig, detail in problems:
            if sig in seen:
                continue
            seen.add(sig)
            acc.violation(sig, case, detail, size=_case_size(case))
        if len(acc.samples) < 1 and not problems:
            acc.sample({"case": case, "verdict": "held"})
    return acc


def replay(case):
    return run_case(case, Acc())
