"""C06 - a spatial transform means one world-space map, however it is evaluated.

Transition system: state = (real transform object with parameters set through its public setters,
reference denotation of those parameters); alphabet = the *views* of the object (call, call on grid points,
disp/flow on a grid menu, tensor/matrix, points() for all axes pairs, PointSetTransformer, ImageTransformer
for a (target, source) grid menu).  Every view is executed on every configuration and its result, mapped to
world space with the float64 reference grid maps, must equal the reference denotation.
"""
from __future__ import annotations

import itertools
import math

import numpy as np
import torch

# imported here (not lazily) so that the runner's parent process holds the modules before it forks one process per shard
import deepali.modules  # noqa: F401
import deepali.spatial  # noqa: F401
import deepali.spatial.generic  # noqa: F401

from mc.core import Acc, exc_text, guarded, h64, tensor_bytes
from checks import layout_spatial as LS
from ref import grid as rg
from ref import transform as rt
from ref.grid import AXES, CORNERS, CUBE, GRID, WORLD, RefGrid

PROPERTY = "C06"
RULE = (
    "complete product of transform class x D x transform grid x groups x parameter kind x parameter menu; on every "
    "configuration every view of the alphabet (call / call(grid=True) / disp+flow on 6 grids / tensor+matrix / "
    "points() for the product (grid omitted / own / other grid same flag / other grid other flag) x (axes omitted / each explicit) x "
    "(to_axes omitted / each explicit) plus to_grid forms (quick: every form with an omitted argument, all 16 explicit pairs for the "
    "omitted grid, one rotating explicit pair per explicit grid) / PointSetTransformer for the same argument product / ImageTransformer "
    "for 4x4 (target, source) grids and with either argument omitted) is executed on the real object; distinct = configuration x view x argument form; non-trivial = at least "
    "one judged point and the reference map moves a judged point by > 1e-3 world units; plus the `layout` sub-check: parameters handed to "
    "constructors / data_(), point sets handed to __call__ / points() / PointSetTransformer and image data handed to ImageTransformer as "
    "transposed, step-sliced, stride-0 expanded and channels-last views must give the result of the contiguous form, raise nothing and stay unchanged"
)
EXPLANATION = "every view of every transform configuration compared in world space with the float64 denotation of its parameters"
ASSUMPTIONS = [
    "CPU float32 parameters; D in {2,3}; grids of 4..8 samples per axis; groups in {1,2}",
    "denotation of a linear model = textbook matrix of the values handed to its public setter, in the cube axes of the transform grid",
    "denotation of a dense model = n-linear interpolation of its displacement buffer u on the transform grid; "
    "points outside the hull of the sample centres (extrapolation) are not judged; DDF: u == parameters; constant parameters => constant u",
    "ImageTransformer is judged only at output samples whose mapped position lies inside the hull of the source samples (border padding elsewhere)",
    "tolerance = 64 * 2^-23 * (|center| + extent of all grids involved) * max(1, |linear part|) * cond(cube->world)",
]
MIN_NONTRIVIAL = {"quick": 20000, "thorough": 150000}
MIN_OUTCOMES = {"quick": 20000, "thorough": 150000}
MIN_SUB_TRACES = {"layout": 300, "repeat": 2000, "call": 1000, "disp": 1000, "tensor": 500, "points": 5000, "pointset": 500, "image": 2000}

EPS32 = 2.0 ** -23
C = 64.0

LINEAR_ELEMENTARY = ("Translation", "EulerRotation", "QuaternionRotation", "IsotropicScaling", "AnisotropicScaling", "Shearing", "HomogeneousTransform")
LINEAR_COMPOSITE = {
    "RigidTransform": (("rotation", "EulerRotation"), ("translation", "Translation")),
    "RigidQuaternionTransform": (("rotation", "QuaternionRotation"), ("translation", "Translation")),
    "SimilarityTransform": (("scaling", "IsotropicScaling"), ("rotation", "EulerRotation"), ("translation", "Translation")),
    "AffineTransform": (("scaling", "AnisotropicScaling"), ("rotation", "EulerRotation"), ("translation", "Translation")),
    "FullAffineTransform": (("scaling", "AnisotropicScaling"), ("shearing", "Shearing"), ("rotation", "EulerRotation"), ("translation", "Translation")),
}
DENSE = ("DisplacementFieldTransform", "StationaryVelocityFieldTransform", "FreeFormDeformation", "StationaryVelocityFreeFormDeformation")
SHORT = {
    "DisplacementFieldTransform": "DDF",
    "StationaryVelocityFieldTransform": "SVF",
    "FreeFormDeformation": "FFD",
    "StationaryVelocityFreeFormDeformation": "SVFFD",
}
GENERIC_LETTER = {"A": ("affine", "HomogeneousTransform"), "K": ("shearing", "Shearing"), "T": ("translation", "Translation"),
                  "R": ("rotation", "EulerRotation"), "S": ("scaling", "AnisotropicScaling"), "Q": ("quaternion", "QuaternionRotation")}
GENERIC_NONRIGID = {"DDF": "DisplacementFieldTransform", "FFD": "FreeFormDeformation", "SVF": "StationaryVelocityFieldTransform",
                    "SVFFD": "StationaryVelocityFreeFormDeformation"}


# ---------------------------------------------------------------------------
# grids
def grid_menu(D: int, tier: str, seed: int):
    dirs = rg.direction_menu(D, seed)
    if D == 2:
        base = [
            {"size": [5, 4], "spacing": [1.0, 1.0], "origin": [0.0, 0.0], "direction": None},
            {"size": [6, 5], "spacing": [0.5, 1.25], "origin": [10.5, -3.25], "direction": dirs["rot"]},
            {"size": [8, 5], "spacing": [0.75, 0.5], "origin": [-4.0, 6.5], "direction": dirs["perm"]},
        ]
    else:
        base = [
            {"size": [5, 4, 4], "spacing": [1.0, 1.0, 1.0], "origin": [0.0, 0.0, 0.0], "direction": None},
            {"size": [6, 5, 4], "spacing": [0.5, 1.25, 2.0], "origin": [10.5, -3.25, 7.0], "direction": dirs["rot"]},
            {"size": [5, 7, 4], "spacing": [0.75, 0.5, 1.5], "origin": [-4.0, 6.5, 2.0], "direction": dirs["perm"]},
        ]
    out = []
    for i, b in enumerate(base):
        for ac in (True, False):
            g = dict(b)
            g["ac"] = ac
            g["name"] = f"g{i}{'T' if ac else 'F'}"
            out.append(g)
    return out


def other_grids(spec_grid: dict, seed: int):
    """Grids derived from the transform grid: same domain other size / other domain / other flag."""
    r = rg.ref_grid(spec_grid)
    D = r.D
    out = {}
    out["own"] = r.copy()
    z = r.n + np.array([3, 2, 1][:D])
    out["size"] = rg.resized(r, z, r.ac)
    ac = r.copy()
    ac.ac = not r.ac
    out["ac"] = ac
    dom = r.copy()
    ang = (20.0, -15.0, 25.0, -30.0)[seed % 4]
    if D == 2:
        Q = rg.rot2(ang)
    else:
        Q = rg.rot3(math.radians(ang), math.radians(-ang / 2), math.radians(ang / 3))
    dom.R = Q @ r.R
    dom.s = r.s * np.array([0.8, 1.1, 0.9][:D])
    dom.z = r.n + np.array([-1, 1, 0][:D])
    dom.c = r.c + r.R @ (r.s * np.array([0.3, -0.4, 0.25][:D]))
    out["dom"] = dom
    domac = dom.copy()
    domac.ac = not dom.ac
    domac.z = dom.n + np.array([1, 0, 1][:D])
    out["domac"] = domac
    return out


def real_from_ref(r: RefGrid):
    from deepali.core.grid import Grid

    return Grid(size=tuple(int(v) for v in r.n), spacing=tuple(r.s.tolist()), center=tuple(r.c.tolist()),
                direction=r.R.tolist(), align_corners=r.ac)


def wscale(*grids: RefGrid) -> float:
    return max(g.scale() for g in grids)


def cube_cond(r: RefGrid) -> float:
    e = r.cube_extent()
    return float(e.max() / e.min())


# ---------------------------------------------------------------------------
# configuration lattice
def class_menu(D: int, tier: str):
    """List of (label, descriptor) of transform classes."""
    out = []
    for cls in LINEAR_ELEMENTARY:
        if cls == "QuaternionRotation" and D == 2:
            continue
        if cls == "EulerRotation" and D == 3:
            for order in rt.EULER_ORDERS:
                out.append({"cls": cls, "order": order})
            out.append({"cls": cls, "order": None})
        else:
            out.append({"cls": cls})
    for cls in LINEAR_COMPOSITE:
        if cls == "RigidQuaternionTransform" and D == 2:
            continue
        out.append({"cls": cls})
    for cls in DENSE:
        out.append({"cls": cls})
    out.append({"cls": "FreeFormDeformation", "stride": 2})
    out.append({"cls": "StationaryVelocityFreeFormDeformation", "stride": 2})
    if tier == "thorough":
        out.append({"cls": "DisplacementFieldTransform", "stride": 2})
        out.append({"cls": "DisplacementFieldTransform", "stride": 2, "resize": False})
        out.append({"cls": "StationaryVelocityFieldTransform", "stride": 2})
        out.append({"cls": "FreeFormDeformation", "stride": 3, "transpose": True})
    # explicit composites
    out.append({"cls": "Sequential", "members": [{"cls": "Translation"}, {"cls": "EulerRotation"}]})
    out.append({"cls": "Sequential", "members": [{"cls": "EulerRotation"}, {"cls": "Translation"}]})
    out.append({"cls": "Sequential", "members": [{"cls": "AffineTransform"}, {"cls": "DisplacementFieldTransform"}]})
    out.append({"cls": "Sequential", "members": [{"cls": "DisplacementFieldTransform"}, {"cls": "AffineTransform"}]})
    out.append({"cls": "Sequential", "members": [{"cls": "StationaryVelocityFieldTransform"}, {"cls": "DisplacementFieldTransform"}]})
    out.append({"cls": "MultiLevel", "members": [{"cls": "DisplacementFieldTransform"}, {"cls": "DisplacementFieldTransform", "alt": 1}]})
    out.append({"cls": "MultiLevel", "members": [{"cls": "FreeFormDeformation", "stride": 2}, {"cls": "DisplacementFieldTransform"}]})
    out.append({"cls": "MultiLevel", "members": [{"cls": "EulerRotation"}, {"cls": "AnisotropicScaling"}]})
    out.append({"cls": "MultiLevel", "members": [{"cls": "Translation"}, {"cls": "EulerRotation"}]})
    # a HomogeneousTransform followed by each elementary linear class (the accumulated matrix then starts as the
    # parameter tensor itself: any in-place arithmetic in the composition shows up as drifting / mutated parameters)
    for cls in LINEAR_ELEMENTARY:
        if cls == "QuaternionRotation" and D == 2:
            continue
        for comp in ("Sequential", "MultiLevel"):
            out.append({"cls": comp, "members": [{"cls": "HomogeneousTransform"}, {"cls": cls, "alt": 1} if cls == "HomogeneousTransform" else {"cls": cls}], "hom_first": True})
    # composites with 3 and 4 members: all-linear, mixed linear/dense, all-dense; both member orders where order matters
    T, R, S, K, I = ({"cls": "Translation"}, {"cls": "EulerRotation"}, {"cls": "AnisotropicScaling"}, {"cls": "Shearing"}, {"cls": "IsotropicScaling"})
    DDF, DDF2, SVF, SVF2 = ({"cls": "DisplacementFieldTransform"}, {"cls": "DisplacementFieldTransform", "alt": 1},
                            {"cls": "StationaryVelocityFieldTransform"}, {"cls": "StationaryVelocityFieldTransform", "alt": 2})
    for members in ([T, R, S], [R, K, T, I]):
        out.append({"cls": "MultiLevel", "members": members})
    for members in ([T, R, S], [S, K, R, T]):
        out.append({"cls": "Sequential", "members": members})
        out.append({"cls": "Sequential", "members": members[::-1]})
    for members in ([T, DDF, R], [DDF, S, SVF, T]):
        out.append({"cls": "MultiLevel", "members": members})
        out.append({"cls": "Sequential", "members": members})
        out.append({"cls": "Sequential", "members": members[::-1]})
    for members in ([DDF, SVF, DDF2], [SVF, DDF, SVF2, DDF2]):
        out.append({"cls": "MultiLevel", "members": members})
        out.append({"cls": "Sequential", "members": members})
        out.append({"cls": "Sequential", "members": members[::-1]})
    # generic configurable transform
    for transform, model in (("Affine", "TRS"), ("Affine", "T o R o S"), ("Affine", "A"), ("Affine", "SRT"), ("Affine o SVF", "TRS"),
                             ("FFD o Affine", "TRS"), ("SVF", "TRS"), ("Affine o DDF", "A")):
        out.append({"cls": "Generic", "transform": transform, "model": model})
    if tier == "thorough":
        out.append({"cls": "Generic", "transform": "Affine", "model": "TKRS"})
        out.append({"cls": "Generic", "transform": "SVFFD o Affine", "model": "TQS"} if D == 3 else {"cls": "Generic", "transform": "SVFFD o Affine", "model": "RT"})
        out.append({"cls": "Generic", "transform": "DDF o Affine", "model": "TRS", "cps": 2})
    return out


def needs_ac_true(desc) -> bool:
    if desc["cls"] in ("FreeFormDeformation", "StationaryVelocityFreeFormDeformation"):
        return True
    if desc["cls"] == "Generic":
        return "FFD" in desc["transform"]
    return any(needs_ac_true(m) for m in desc.get("members", []))


def is_dense_desc(desc) -> bool:
    if desc["cls"] in DENSE:
        return True
    if desc["cls"] == "Generic":
        return any(c in GENERIC_NONRIGID for c in desc["transform"].split(" o "))
    return any(is_dense_desc(m) for m in desc.get("members", []))


def family(desc) -> str:
    cls = desc["cls"]
    if cls in LINEAR_ELEMENTARY:
        return "linear"
    if cls in DENSE:
        return "dense"
    return "composite" if is_dense_desc(desc) else "linear-composite"


def label(desc) -> str:
    cls = desc["cls"]
    if cls in SHORT:
        s = SHORT[cls] + ("'" if desc.get("alt") else "")
        if "stride" in desc:
            s += f"[stride={desc['stride']}" + (",noresize" if desc.get("resize") is False else "") + (",transpose" if desc.get("transpose") else "") + "]"
        return s
    if cls == "EulerRotation" and "order" in desc:
        return f"EulerRotation[{desc['order']}]"
    if cls in ("Sequential", "MultiLevel"):
        return f"{cls}[{','.join(label(m) for m in desc['members'])}]"
    if cls in LINEAR_ELEMENTARY and desc.get("alt"):
        return cls + "'"
    if cls == "Generic":
        return f"Generic[{desc['transform'].replace(' ', '')};{desc['model'].replace(' ', '')}" + (f";cps={desc['cps']}" if "cps" in desc else "") + "]"
    return cls


def configs(tier: str, seed: int):
    out = []
    for D in (2, 3):
        grids = grid_menu(D, tier, seed)
        for ci, desc in enumerate(class_menu(D, tier)):
            dense = is_dense_desc(desc)
            pms = ("default", "const", "small", "large") if dense else ("default", "small", "large")
            k = 0
            for gi, g in enumerate(grids):
                if needs_ac_true(desc) and not g["ac"]:
                    continue
                for N in (1, 2):
                    for kind in ("param", "buffer"):
                        for pm in pms:
                            if desc["cls"] == "Generic" and N > 1 and pm == "default":
                                continue  # the generic transform has no 'groups' argument: the batch size comes from the data set
                            k += 1
                            if tier == "quick":
                                # deterministic thinning: every value of every factor and every pair (grid, pm),
                                # (N, kind) is kept for every class; the full product is the thorough tier.
                                # The explicit 3-D Euler orders keep every 6th, composites with >= 3 members every 9th, the Homogeneous-first pairs every 6th and the
                                # generic transform every 4th entry.
                                mod = 3
                                if desc["cls"] == "EulerRotation" and desc.get("order"):
                                    mod = 6
                                elif len(desc.get("members", [])) >= 3:
                                    mod = 9
                                elif desc.get("hom_first"):
                                    mod = 6
                                elif desc["cls"] == "Generic":
                                    mod = 4
                                if (gi + (0 if N == 1 else 1) + (0 if kind == "param" else 1) + pms.index(pm) + ci) % mod != 0:
                                    continue
                            out.append({"D": D, "desc": desc, "grid": g, "N": N, "kind": kind, "pm": pm, "seed": seed})
    return out


def bounds(tier):
    cf = configs(tier, 0)
    return {
        "configurations": len(cf),
        "classes_D2": len(class_menu(2, tier)),
        "classes_D3": len(class_menu(3, tier)),
        "transform_grids_per_D": len(grid_menu(2, tier, 0)),
        "groups": [1, 2],
        "parameter_kinds": ["param", "buffer"],
        "parameter_menu": ["default", "const (dense)", "small", "large"],
        "views": {"repeat(call,tensor,disp,call x grad/no_grad)": 8, "state_dict fingerprint": 1, "call": 4, "disp/flow": 9, "tensor/matrix": 2, "points(grid x axes x to_axes omitted/explicit, + to_grid forms)": 102 if tier == "quick" else 275, "pointset": 23 if tier == "quick" else 113, "image(target/source omitted or explicit)": 17 if tier == "quick" else 23},
        "layout_cases(non-contiguous parameters / point sets / image data)": len(layout_cases(tier, 0)),
        "depth": 1,
    }


# ---------------------------------------------------------------------------
# building real objects + reference denotation
def _tensor(v):
    return torch.tensor(np.asarray(v, dtype=np.float64), dtype=torch.float32)


def _set_elementary(t, cls, values, pm="set"):
    """Set parameters of an elementary linear model through its public setter (never for the fresh object)."""
    if pm == "default" or any(v is None for v in values):
        return
    arg = _tensor(values)
    if cls == "Translation":
        t.offset_(arg)
    elif cls in ("EulerRotation", "Shearing"):
        t.angles_(arg)
    elif cls == "QuaternionRotation":
        t.quaternion_(arg)
    elif cls in ("IsotropicScaling", "AnisotropicScaling"):
        t.scales_(arg)
    elif cls == "HomogeneousTransform":
        t.matrix_(arg)
    else:
        raise KeyError(cls)


def _params_arg(kind):
    return True if kind == "param" else False


class Built:
    """Real transform + how to obtain its reference denotation."""

    def __init__(self, t, make_ref, expect_u=None, lin=None):
        self.t = t
        self.make_ref = make_ref  # callable () -> ref (reads dense buffers of the real object)
        self.expect_u = expect_u or []  # list of (real dense member, (how, expected u))
        self.lin = lin or []  # list of (member name, real elementary linear member, RefLinear from the setter values)


def build(desc, D, grid, N, kind, pm, seed, alt=0) -> Built:
    import deepali.spatial as S

    cls = desc["cls"]
    ac = grid.align_corners()
    sd = seed + alt
    if cls in LINEAR_ELEMENTARY:
        kw = {}
        if cls == "EulerRotation" and desc.get("order") is not None:
            kw["order"] = desc["order"]
        t = getattr(S, cls)(grid, groups=N, params=_params_arg(kind), **kw)
        vals = rt.linear_values(cls, D, pm, N, sd)
        _set_elementary(t, cls, vals, pm)
        M = rt.linear_matrix(cls, D, vals, desc.get("order"))
        r = rt.RefLinear(M)
        return Built(t, lambda: r, lin=[(cls, t, r)])
    if cls in LINEAR_COMPOSITE:
        parts = LINEAR_COMPOSITE[cls]
        kw = {name: _params_arg(kind) for name, _ in parts}
        t = getattr(S, cls)(grid, groups=N, **kw)
        refs, lin = [], []
        for j, (name, mcls) in enumerate(parts):
            vals = rt.linear_values(mcls, D, pm, N, sd + j)
            _set_elementary(getattr(t, name), mcls, vals, pm)
            refs.append(rt.RefLinear(rt.linear_matrix(mcls, D, vals, None)))
            lin.append((mcls, getattr(t, name), refs[-1]))
        return Built(t, lambda: rt.RefSeq(refs), lin=lin)
    if cls in DENSE:
        kw = {}
        if "stride" in desc:
            kw["stride"] = desc["stride"]
        if "resize" in desc:
            kw["resize"] = desc["resize"]
        if "transpose" in desc:
            kw["transpose"] = desc["transpose"]
        t = getattr(S, cls)(grid, groups=N, params=_params_arg(kind), **kw)
        shape = tuple(t.data_shape)[1:]
        field = rt.dense_field(shape, D, pm, N, sd, ac)
        if pm != "default":
            t.data_(_tensor(field))
        exp_u = None
        if pm in ("default", "const"):
            # zero / constant parameters denote a zero / constant displacement for every dense model
            exp_u = ("const", field.reshape(N, D, -1)[:, :, 0])
        elif cls == "DisplacementFieldTransform" and "stride" not in desc:
            exp_u = ("params", field)

        def make_ref(t=t):
            t.update()
            u = t.u.detach().double().numpy()
            return rt.RefDense(u, ac)

        return Built(t, make_ref, [(t, exp_u)] if exp_u is not None else [])
    if cls in ("Sequential", "MultiLevel"):
        subs = [build(m, D, grid, N, kind, pm, seed, alt=alt + 1 + j + m.get("alt", 0)) for j, m in enumerate(desc["members"])]
        C_ = S.SequentialTransform if cls == "Sequential" else S.MultiLevelTransform
        t = C_(*[b.t for b in subs])
        R = rt.RefSeq if cls == "Sequential" else rt.RefMulti
        return Built(t, lambda: R([b.make_ref() for b in subs]), [e for b in subs for e in b.expect_u], [e for b in subs for e in b.lin])
    if cls == "Generic":
        from deepali.spatial.generic import GenericSpatialTransform, TransformConfig

        cfg = TransformConfig(transform=desc["transform"], affine_model=desc["model"], rotation_model="ZXZ",
                              control_point_spacing=desc.get("cps", 2 if "FFD" in desc["transform"] else 1), scaling_and_squaring_steps=5)
        t = GenericSpatialTransform(grid, params=_params_arg(kind), config=cfg)
        comps = desc["transform"].split(" o ")
        # function-composition notation: the right-most component is applied first
        order = []
        for comp in reversed(comps):
            if comp == "Affine":
                letters = desc["model"].replace(" o ", "")
                for j, ch in enumerate(reversed(letters)):
                    order.append(("lin", ch, j))
            else:
                order.append(("dense", comp, 0))
        makers = []
        expect = []
        lin = []
        for what, key, j in order:
            if what == "lin":
                name, mcls = GENERIC_LETTER[key]
                vals = rt.linear_values(mcls, D, pm, N, sd + j)
                m = t[name]
                _set_elementary(m, mcls, vals, pm)
                r = rt.RefLinear(rt.linear_matrix(mcls, D, vals, "ZXZ"))
                lin.append((mcls, m, r))
                makers.append(lambda r=r: r)
            else:
                m = t["nonrigid"]
                mg = m.grid()
                shape = tuple(m.data_shape)[1:]
                field = rt.dense_field(shape, D, pm, N, sd, mg.align_corners())
                if pm != "default":
                    m.data_(_tensor(field))
                if pm in ("default", "const"):
                    expect.append((m, ("const", field.reshape(N, D, -1)[:, :, 0])))

                def mk(m=m, mg=mg):
                    m.update()
                    return rt.RefDense(m.u.detach().double().numpy(), mg.align_corners())

                makers.append(mk)
        return Built(t, lambda: rt.RefSeq([mk() for mk in makers]), expect, lin)
    raise KeyError(cls)


# ---------------------------------------------------------------------------
def probe_points(D: int, dense: bool):
    """Cube-coordinate probes of the transform grid: D+1 affinely independent, interior generic, one outside."""
    if D == 2:
        pts = [[0.0, 0.0], [0.5, 0.0], [0.0, 0.5], [-0.35, 0.62], [0.71, -0.55], [1.4, -1.2]]
    else:
        pts = [[0.0, 0.0, 0.0], [0.5, 0.0, 0.0], [0.0, 0.5, 0.0], [0.0, 0.0, 0.5], [-0.35, 0.62, 0.27], [0.71, -0.55, -0.4], [1.4, -1.2, 1.1]]
    return np.array(pts, dtype=np.float64)


class Ctx:
    def __init__(self, spec, acc: Acc):
        self.spec = spec
        self.acc = acc
        self.out = []  # (sig, detail)
        self.lab = label(spec["desc"])
        self.fresh = "fresh" if spec["pm"] == "default" else "set"
        self.family = family(spec["desc"])
        self.key = (self.lab, spec["D"], spec["grid"]["name"], spec["N"], spec["kind"], spec["pm"])

    def sig(self, view, form, kind):
        tail = f"{self.lab}/{self.fresh}/N={self.spec['N']}"
        if kind.startswith("raises="):
            # an exception is named by its type and the innermost deepali frame, not by the argument form
            return f"C06/{view}/{self.family}/{kind}/{tail}"
        return f"C06/{view}/{self.family}/{form}/{kind}/{tail}"

    def viol(self, view, form, kind, detail):
        s = self.sig(view, form, kind)
        self.out.append((s, detail))
        if self.acc is not None:
            case = {"spec": self.spec, "view": view, "form": form}
            self.acc.violation(s, case, detail, size=1)

    def ratio(self, r):
        if self.acc is None:
            return
        if r > 0.1:
            self.acc.info["tol_ratio_gt_0.1"] = self.acc.info.get("tol_ratio_gt_0.1", 0) + 1
        if r > 0.5:
            self.acc.info["tol_ratio_gt_0.5"] = self.acc.info.get("tol_ratio_gt_0.5", 0) + 1


def raises_kind(e: BaseException) -> str:
    import traceback

    where = "outside-deepali"
    for fr in reversed(traceback.extract_tb(e.__traceback__)):
        if "/deepali/" in fr.filename:
            where = fr.filename.split("/deepali/")[-1].replace(".py", "").replace("/", ".") + "." + fr.name
            break
    return f"raises={type(e).__name__}@{where}"


def judge_world(ctx: Ctx, view, form, got_w, exp_w, valid, tol, moved, res_bytes):
    """Compare world positions where the reference is defined; bookkeeping of trace / outcome / nontrivial."""
    acc = ctx.acc
    nvalid = int(valid.sum())
    if acc is not None:
        acc.trace(view, depth=1)
        acc.outcome(ctx.key, view, form, res_bytes)
        if nvalid < valid.size:
            acc.undef("outside-hull-of-dense-model-or-source-image", int(valid.size - nvalid))
    if nvalid == 0:
        if acc is not None:
            acc.undef("no-judged-point:" + view)
        return
    if not np.all(np.isfinite(got_w[valid])):
        ctx.viol(view, form, "non-finite", "result contains nan/inf at judged points")
        return
    err = np.abs(got_w - exp_w)[valid]
    e = float(err.max())
    if e <= tol:
        ctx.ratio(e / tol)
    if e > tol:
        ctx.viol(view, form, "mismatch", f"max world error {e:.3e} > tol {tol:.2e} over {nvalid} judged points (reference moves them by up to {moved:.3e})")
    if acc is not None and moved > 1e-3:
        acc.nontriv(ctx.key, view, form)


def run_config(spec, acc: Acc = None, only=None):
    """Execute every view on one configuration. Returns [(sig, detail)]."""
    from deepali.core.grid import Axes
    from deepali.spatial import ImageTransformer, PointSetTransformer

    ctx = Ctx(spec, acc)
    D, N, seed = spec["D"], spec["N"], spec["seed"]
    desc = spec["desc"]
    rgrid = rg.ref_grid(spec["grid"])
    grid = rg.real_grid(spec["grid"])
    ax = rt.cube_axes(rgrid.ac)
    if acc is not None:
        acc.state(ctx.key)

    st, b = guarded(build, desc, D, grid, N, spec["kind"], spec["pm"], seed)
    if acc is not None:
        acc.trans()
    if st == "raises":
        ctx.viol("construct", "setters", raises_kind(b), exc_text(b))
        return ctx.out
    t = b.t
    st, ref = guarded(b.make_ref)
    if st == "raises":
        ctx.viol("update", "buffers", raises_kind(ref), exc_text(ref))
        return ctx.out
    dense = not rt.is_linear(ref)
    others = other_grids(spec["grid"], seed)
    real_others = {k: real_from_ref(v) for k, v in others.items()}
    real_others["own"] = grid
    R = {"ref": ref, "cond": max(1.0, ref.norm()) * cube_cond(rgrid)}

    def tolw(*gs):
        return C * EPS32 * wscale(rgrid, *gs) * R["cond"]

    def want(view):
        return only is None or only == view

    P = probe_points(D, dense)
    PW = rgrid.map_points(P, ax, WORLD)

    def expected_world(w, n):
        return rt.world_map(R["ref"], rgrid, w, n)

    # -- (c) fingerprint of every parameter / persistent buffer before the views ---------------------------------
    def fingerprint():
        fp = {}
        st_, sd = guarded(lambda: dict(t.state_dict(keep_vars=True)))
        if st_ == "ok":
            for k_, v_ in sd.items():
                if isinstance(v_, torch.Tensor):
                    fp["state_dict:" + k_] = (tensor_bytes(v_), v_._version)
        for name_, m_ in t.named_modules():
            prm = getattr(m_, "params", None) if hasattr(m_, "data_shape") or hasattr(m_, "params") else None
            if isinstance(prm, torch.Tensor):
                fp["params:" + (name_ or "<root>")] = (tensor_bytes(prm), prm._version)
        return fp

    fp_before = fingerprint()

    # -- (b) repeated evaluation of the same object: call, tensor, disp, call - twice, the second time under no_grad ---
    xrep = _tensor(P[None])
    reps = {"call": [], "tensor": [], "disp": []}
    rep_ok = True
    for mode in ("grad", "no_grad"):
        for what in ("call", "tensor", "disp", "call"):
            def one():
                if what == "call":
                    return t(xrep)
                return getattr(t, what)()
            if mode == "no_grad":
                with torch.no_grad():
                    st_, r_ = guarded(one)
            else:
                st_, r_ = guarded(one)
            if acc is not None:
                acc.trans()
            if st_ == "raises":
                ctx.viol("repeat", f"{what}[{mode}]", raises_kind(r_), exc_text(r_))
                rep_ok = False
                continue
            reps[what].append((mode, r_.detach().clone()))
    for what, lst in reps.items():
        if acc is not None:
            acc.trace("repeat", depth=1)
        for mode, r_ in lst[1:]:
            if r_.shape != lst[0][1].shape or not torch.equal(r_, lst[0][1]):
                d_ = float((r_ - lst[0][1]).abs().max()) if r_.shape == lst[0][1].shape else float("nan")
                ctx.viol("repeat", what, "not-bit-identical", f"{what} evaluated again on the same object ({mode}) differs from its first evaluation by {d_:.3e}")
                break

    # -- parameter -> map of the members -------------------------------------------------------------------
    # (a) displacement buffer of dense members with zero / constant / (DDF) arbitrary parameters
    for m, (how, val) in b.expect_u:
        if acc is not None:
            acc.trans()
        u = m.u.detach().double().numpy()
        mname = SHORT.get(type(m).__name__, type(m).__name__)
        if how == "const":
            expu = np.broadcast_to(val.reshape(val.shape + (1,) * D), u.shape) if u.shape[0] == val.shape[0] else None
        else:
            expu = val if val.shape == u.shape else None
        if expu is None:
            ctx.viol("tensor", f"buffer-u[{mname}]", "shape", f"u shape {u.shape}")
            continue
        e = float(np.abs(u - expu).max())
        tol_u = C * EPS32 * (1.0 + float(np.abs(expu).max())) * (8 if how == "const" else 1)
        if acc is not None:
            acc.trace("tensor", depth=1)
        if e > tol_u:
            ctx.viol("tensor", f"buffer-u[{mname}]/{how}", "mismatch", f"displacement buffer differs from the {how} parameters by {e:.3e} cube units (tol {tol_u:.1e})")

    # (b) matrix of every elementary linear member == textbook matrix of the values handed to its setter.
    #     On a mismatch the violation is reported HERE and the member's own tensor() becomes its denotation for
    #     the remaining views, which then report only additional disagreements between views.
    def lin_compare(T, rlin, form, replace):
        Tn = T.detach().double().numpy()
        if Tn.ndim != 3 or Tn.shape[0] != rlin.N or Tn.shape[1] != D or Tn.shape[2] not in (1, D, D + 1):
            ctx.viol("tensor", form, "shape", f"shape {tuple(Tn.shape)} for {rlin.N} group(s)")
            return None
        impl = np.stack([rt.as_hom(Tn[n]) for n in range(Tn.shape[0])])
        got = np.stack([rgrid.map_points(rt.hom_apply(impl[n], P), ax, WORLD) for n in range(len(impl))])
        exp = np.stack([rgrid.map_points(rt.hom_apply(rlin.matrix(n), P), ax, WORLD) for n in range(len(impl))])
        tol = C * EPS32 * wscale(rgrid) * max(1.0, rlin.norm()) * cube_cond(rgrid)
        e = float(np.abs(got - exp).max())
        if acc is not None:
            acc.trace("tensor", depth=1)
            acc.outcome(ctx.key, "tensor", form, tensor_bytes(T))
            if float(np.abs(exp - PW).max()) > 1e-3:
                acc.nontriv(ctx.key, "tensor", form)
        if not np.isfinite(e) or e > tol:
            ctx.viol("tensor", form, "mismatch", f"matrix representation differs from the denotation of the parameters: max world error {e:.3e} > tol {tol:.2e} on the probe points")
            return impl if np.all(np.isfinite(impl)) else None
        ctx.ratio(e / tol)
        return None

    for mcls, m, rlin in b.lin:
        if m is t:
            continue
        st, T = guarded(m.tensor)
        if acc is not None:
            acc.trans()
        if st == "raises":
            ctx.viol("tensor", f"member[{mcls}].tensor", raises_kind(T), exc_text(T))
            continue
        impl = lin_compare(T, rlin, f"member[{mcls}].tensor", True)
        if impl is not None:
            rlin.M = impl

    # -- V3: tensor / matrix of the object itself -------------------------------------------------------------
    for meth in ("tensor", "matrix"):
        if meth == "matrix" and not hasattr(t, "matrix"):
            continue
        st, T = guarded(getattr(t, meth))
        if acc is not None:
            acc.trans()
        if st == "raises":
            ctx.viol("tensor", meth, raises_kind(T), exc_text(T))
            continue
        if not dense:
            if meth == "matrix" and tuple(T.shape) != (N, D, D + 1):
                ctx.viol("tensor", meth, "shape", f"shape {tuple(T.shape)} for {N} group(s)")
                continue
            top = rt.RefLinear(np.stack([R["ref"].matrix(n) for n in range(N)]))
            impl = lin_compare(T, top, meth, meth == "tensor")
            if impl is not None and meth == "tensor":
                R["ref"] = rt.RefLinear(impl)
                R["cond"] = max(1.0, R["ref"].norm()) * cube_cond(rgrid)
        else:
            # displacement field on the own grid in cube units: judged like disp()
            Tn = T.detach().double().numpy()
            shape = tuple(int(v) for v in rgrid.n[::-1])
            if tuple(Tn.shape) != (N, D) + shape:
                if desc.get("resize") is False:
                    if acc is not None:
                        acc.undef("tensor-shape-with-resize=False")
                else:
                    ctx.viol("tensor", meth, "shape", f"shape {tuple(Tn.shape)}, expected {(N, D) + shape}")
                continue
            idx = grid_indices(rgrid)
            cw = rgrid.index_to_world(idx)
            A, _ = rgrid.to_world(ax)
            got, exp, valid = [], [], []
            for n in range(N):
                got.append(cw + Tn[n].reshape(D, -1).T @ A.T)
                e, v = expected_world(cw, n)
                exp.append(e)
                valid.append(v)
            got, exp, valid = np.stack(got), np.stack(exp), np.stack(valid)
            moved = float(np.abs(exp - cw)[valid].max()) if valid.any() else 0.0
            judge_world(ctx, "tensor", meth, got, exp, valid[..., None] & np.ones_like(got, bool), tolw(), moved, tensor_bytes(T))

    # -- V1: __call__ on cube points -----------------------------------------------------------------------
    if want("call"):
        forms = [("pts1", 1)]
        if N > 1:
            forms.append(("ptsN", N))
        for form, nb in forms:
            x = _tensor(np.broadcast_to(P, (nb,) + P.shape).copy())
            st, y = guarded(lambda: t(x))
            if acc is not None:
                acc.trans()
            if st == "raises":
                ctx.viol("call", form, raises_kind(y), exc_text(y))
                continue
            if tuple(y.shape) != (max(N, nb),) + P.shape:
                ctx.viol("call", form, "shape", f"result shape {tuple(y.shape)} for points {tuple(x.shape)} and {N} group(s)")
                continue
            yn = y.detach().double().numpy()
            got = np.stack([rgrid.map_points(yn[n], ax, WORLD) for n in range(yn.shape[0])])
            ev = [expected_world(PW, n) for n in range(yn.shape[0])]
            exp = np.stack([e[0] for e in ev])
            valid = np.stack([e[1] for e in ev])
            moved = float(np.abs(exp - PW)[valid].max()) if valid.any() else 0.0
            judge_world(ctx, "call", form, got, exp, valid[..., None] & np.ones_like(got, bool), tolw(), moved, tensor_bytes(y))
        # grid=True on undeformed grid points of the own grid / a grid of the same domain and other size
        for form, gname in (("grid-own", "own"), ("grid-size", "size")):
            rgo, go = others[gname], real_others[gname]
            st, y = guarded(lambda: t(go.coords(align_corners=rgrid.ac).unsqueeze(0), grid=True))
            if acc is not None:
                acc.trans()
            if st == "raises":
                ctx.viol("call", form, raises_kind(y), exc_text(y))
                continue
            idx = grid_indices(rgo)
            cw = rgo.index_to_world(idx)
            if tuple(y.shape) != (N,) + tuple(int(v) for v in rgo.n[::-1]) + (D,) and not (N == 1 and y.shape[0] == 1):
                ctx.viol("call", form, "shape", f"result shape {tuple(y.shape)}")
                continue
            yn = y.detach().double().numpy().reshape(y.shape[0], -1, D)
            got = np.stack([rgrid.map_points(yn[n], ax, WORLD) for n in range(yn.shape[0])])
            ev = [expected_world(cw, n) for n in range(yn.shape[0])]
            exp = np.stack([e[0] for e in ev])
            valid = np.stack([e[1] for e in ev])
            moved = float(np.abs(exp - cw)[valid].max()) if valid.any() else 0.0
            judge_world(ctx, "call", form, got, exp, valid[..., None] & np.ones_like(got, bool), tolw(rgo), moved, tensor_bytes(y))

    # -- V2: disp / flow on a grid menu ---------------------------------------------------------------------
    if want("disp"):
        forms = [("none", None, "disp"), ("own", "own", "disp"), ("size", "size", "disp"), ("dom", "dom", "disp"), ("ac", "ac", "disp"),
                 ("domac", "domac", "disp"), ("none", None, "flow"), ("dom", "dom", "flow"), ("ac", "ac", "flow")]
        for form, gname, meth in forms:
            rgo = others[gname or "own"]
            go = real_others[gname] if gname else None
            st, u = guarded(lambda: getattr(t, meth)(go) if go is not None else getattr(t, meth)())
            if acc is not None:
                acc.trans()
            fform = f"{meth}(grid={form})"
            if st == "raises":
                ctx.viol("disp", fform, raises_kind(u), exc_text(u))
                continue
            if meth == "flow":
                st2, a2 = guarded(lambda: (u.axes(), u.grid(), u.tensor()))
                if st2 == "raises":
                    ctx.viol("disp", fform, raises_kind(a2), exc_text(a2))
                    continue
                faxes, fgrid, u = a2
                if faxes.value != rt.cube_axes(rgo.ac) and faxes.value != WORLD:
                    # vectors are converted below according to the axes the FlowFields object declares
                    pass
                vec_axes = faxes.value
                robs = RefGrid.from_real(fgrid)
                if not np.array_equal(robs.n, rgo.n) or np.abs(robs.c - rgo.c).max() > C * EPS32 * rgo.scale():
                    ctx.viol("disp", fform, "flow-grid", "FlowFields returned by flow() is not defined on the requested grid")
                    continue
            else:
                vec_axes = rt.cube_axes(rgo.ac)
            shape = tuple(int(v) for v in rgo.n[::-1])
            if tuple(u.shape) != (N, D) + shape and not (tuple(u.shape) == (1, D) + shape):
                ctx.viol("disp", fform, "shape", f"result shape {tuple(u.shape)}, expected {(N, D) + shape}")
                continue
            un = u.detach().double().numpy()
            idx = grid_indices(rgo)
            cw = rgo.index_to_world(idx)
            A, _ = rgo.to_world(vec_axes)
            got, exp, valid = [], [], []
            for n in range(un.shape[0]):
                vec = un[n].reshape(D, -1).T  # (M, D) in axes units of the requested grid
                got.append(cw + vec @ A.T)
                e, v = expected_world(cw, n)
                exp.append(e)
                valid.append(v)
            got, exp, valid = np.stack(got), np.stack(exp), np.stack(valid)
            moved = float(np.abs(exp - cw)[valid].max()) if valid.any() else 0.0
            judge_world(ctx, "disp", fform, got, exp, valid[..., None] & np.ones_like(got, bool), tolw(rgo), moved, tensor_bytes(u))

    # -- V4 / V5: points() and PointSetTransformer ------------------------------------------------------------
    def point_form(view, form, call, gin: RefGrid, ain: str, gout: RefGrid, aout: str):
        x64 = gin.map_points(PW, WORLD, ain)
        x = _tensor(x64[None])
        st, y = guarded(call, x)
        if acc is not None:
            acc.trans()
        if st == "raises":
            ctx.viol(view, form, raises_kind(y), exc_text(y))
            return
        if tuple(y.shape) != (N,) + P.shape:
            ctx.viol(view, form, "shape", f"result shape {tuple(y.shape)} for {N} group(s)")
            return
        yn = y.detach().double().numpy()
        got = np.stack([gout.map_points(yn[n], aout, WORLD) for n in range(N)])
        ev = [expected_world(PW, n) for n in range(N)]
        exp = np.stack([e[0] for e in ev])
        valid = np.stack([e[1] for e in ev])
        moved = float(np.abs(exp - PW)[valid].max()) if valid.any() else 0.0
        judge_world(ctx, view, form, got, exp, valid[..., None] & np.ones_like(got, bool), tolw(gin, gout), moved, tensor_bytes(y))

    # Argument forms of points() / PointSetTransformer: (grid, axes, to_grid, to_axes), None = argument omitted.
    # Documented defaults: grid -> transform grid, axes -> transform axes (NOT the axes of `grid`), to_grid -> grid, to_axes -> axes.
    GN = (None, "own", "size", "dom", "ac", "domac")  # omitted / own / other grid with the same flag (2) / with the other flag (2)
    AN = (None,) + tuple(AXES)
    thorough = spec.get("tier") == "thorough"
    rot = (sum(map(ord, spec["grid"]["name"])) + N + (1 if spec["kind"] == "param" else 0) + len(ctx.lab)) % 4

    def arg_forms(grids, tgrids, full):
        forms = []
        for g in grids:
            for a_ in AN:
                for b_ in AN:
                    if not full and a_ is not None and b_ is not None and g is not None:
                        # quick tier: with an explicit grid only one (rotating) explicit axes pair per grid; every form with an
                        # omitted axes / to_axes argument and all 16 explicit pairs for the omitted grid are always run
                        if (AXES.index(a_) + rot + GN.index(g)) % 4 != AXES.index(b_) or AXES.index(a_) != (rot + GN.index(g)) % 4:
                            continue
                    forms.append((g, a_, None, b_))
        for g, tg in tgrids:
            for a_ in AN:
                for b_ in AN:
                    if not full and a_ is not None and b_ is not None:
                        continue
                    forms.append((g, a_, tg, b_))
        return forms

    def resolve_form(g, a_, tg, b_):
        rin = others[g] if g else rgrid
        ain = a_ if a_ else ax
        rout = others[tg] if tg else rin
        aout = b_ if b_ else ain
        kw = {}
        if g:
            kw["grid"] = real_others[g]
        if a_:
            kw["axes"] = a_
        if tg:
            kw["to_grid"] = real_others[tg]
        if b_:
            kw["to_axes"] = b_
        name = f"grid={g or '-'}/axes={a_ or '-'}/to_grid={tg or '-'}/to_axes={b_ or '-'}"
        return name, kw, rin, ain, rout, aout

    if want("points"):
        for fm in arg_forms(GN, ((None, "dom"), ("size", "domac"), ("ac", "own")) + (((None, "ac"), ("dom", "size")) if thorough else ()), thorough):
            name, kw, rin, ain, rout, aout = resolve_form(*fm)
            point_form("points", name, lambda x, kw=kw: t.points(x, **kw), rin, ain, rout, aout)

    if want("pointset"):
        if thorough:
            psforms = arg_forms(GN, ((None, "domac"), ("ac", "own")), False)
        else:
            psforms = [(g, a_, None, b_) for g in (None, "size", "ac", "dom")
                       for a_, b_ in ((None, None), (None, WORLD), (GRID, None), (WORLD, None), (CUBE, CORNERS))]
            psforms += [(None, None, "domac", None), (None, None, "domac", CORNERS), ("ac", CUBE, "own", None)]
        for fm in psforms:
            name, kw, rin, ain, rout, aout = resolve_form(*fm)
            st, pst = guarded(lambda: PointSetTransformer(t, **kw))
            if acc is not None:
                acc.trans()
            if st == "raises":
                ctx.viol("pointset", name, raises_kind(pst), exc_text(pst))
                continue
            point_form("pointset", name, lambda x, pst=pst: pst(x), rin, ain, rout, aout)

    # -- V6: ImageTransformer on a ramp image --------------------------------------------------------------------
    if want("image"):
        names = ("own", "size", "dom", "ac")
        combos = [(None, None)] + [(a, b_) for a in names for b_ in names]
        if spec.get("tier") != "thorough":
            # quick tier: every target with the own source, every source with the own target, and one diagonal
            combos = [c_ for c_ in combos if c_[0] in (None, "own") or c_[1] == "own" or c_ in (("dom", "dom"), ("size", "ac"), ("ac", "dom"))]
        # one argument omitted: source defaults to the target grid, target defaults to the transform grid
        combos += [(a, None) for a in names[1:]] + [(None, b_) for b_ in names[1:]]
        for tg, sg in combos:
            rt_g = others[tg or "own"]
            rs_g = others[sg or (tg or "own")]
            form = f"target={tg or 'default'}/source={sg or 'default'}"
            kw = {}
            if tg:
                kw["target"] = real_others[tg]
            if sg:
                kw["source"] = real_others[sg]
            st, it = guarded(lambda: ImageTransformer(t, **kw))
            if acc is not None:
                acc.trans()
            if st == "raises":
                ctx.viol("image", form, raises_kind(it), exc_text(it))
                continue
            sidx = grid_indices(rs_g)
            sw = rs_g.index_to_world(sidx)  # (M, D)
            sshape = tuple(int(v) for v in rs_g.n[::-1])
            ramp = np.concatenate([np.ones((1, len(sw))), sw.T], axis=0).reshape((1, D + 1) + sshape)
            img = _tensor(np.broadcast_to(ramp, (N,) + ramp.shape[1:]).copy())
            st, out = guarded(lambda: it(img))
            if acc is not None:
                acc.trans()
            if st == "raises":
                ctx.viol("image", form, raises_kind(out), exc_text(out))
                continue
            tshape = tuple(int(v) for v in rt_g.n[::-1])
            if not isinstance(out, torch.Tensor) or tuple(out.shape) != (N, D + 1) + tshape:
                ctx.viol("image", form, "shape", f"output {tuple(out.shape) if isinstance(out, torch.Tensor) else type(out).__name__}, expected {(N, D + 1) + tshape}")
                continue
            on = out.detach().double().numpy()
            tw = rt_g.index_to_world(grid_indices(rt_g))
            got, exp, valid = [], [], []
            for n in range(N):
                e, v = expected_world(tw, n)
                si = rs_g.world_to_index(e)
                inside = np.all((si >= 0) & (si <= rs_g.n - 1), axis=1)
                got.append(on[n, 1:].reshape(D, -1).T)
                exp.append(e)
                valid.append(v & inside)
            got, exp, valid = np.stack(got), np.stack(exp), np.stack(valid)
            ones_err = float(np.abs(on[:, 0] - 1).max())
            if ones_err > C * EPS32:
                ctx.viol("image", form, "constant-channel", f"constant image not reproduced, max error {ones_err:.3e}")
            moved = float(np.abs(exp - tw[None])[valid].max()) if valid.any() else 0.0
            judge_world(ctx, "image", form, got, exp, valid[..., None] & np.ones_like(got, bool), tolw(rt_g, rs_g) * 2, moved, tensor_bytes(out))
            if acc is not None:
                acc.info["image_samples_judged"] = acc.info.get("image_samples_judged", 0) + int(valid.sum())
                acc.info["image_samples_total"] = acc.info.get("image_samples_total", 0) + int(valid.size)

    # -- (c) views must not change parameters ------------------------------------------------------------------------
    fp_after = fingerprint()
    if acc is not None:
        acc.trace("repeat", depth=1)
    changed = sorted(k_ for k_ in fp_before if k_ not in fp_after or fp_after[k_][0] != fp_before[k_][0])
    bumped = sorted(k_ for k_ in fp_before if k_ in fp_after and fp_after[k_][0] == fp_before[k_][0] and fp_after[k_][1] != fp_before[k_][1])
    added = sorted(k_ for k_ in fp_after if k_ not in fp_before)
    if changed or added:
        ctx.viol("state", "state_dict", "parameters-mutated", f"evaluating the views changed {changed[:4]} (new entries {added[:4]})")
    elif bumped:
        ctx.viol("state", "state_dict", "parameters-written-in-place", f"evaluating the views wrote in place to {bumped[:4]} (same values, _version bumped)")
    return ctx.out


def grid_indices(r: RefGrid) -> np.ndarray:
    """(M, D) integer indices (x first) in the memory order of a tensor of shape (..., Y, X)."""
    shape = tuple(int(v) for v in r.n[::-1])
    mesh = np.stack(np.meshgrid(*[np.arange(s, dtype=np.float64) for s in shape], indexing="ij"), axis=-1)  # (..., D) in (z,y,x)
    return mesh.reshape(-1, r.D)[:, ::-1].copy()


# ---------------------------------------------------------------------------
SHARD_SIZE = {"quick": 6, "thorough": 12}


# ---------------------------------------------------------------------------
# layout sub-check: non-contiguous user tensors (parameters, point sets, image data)
LAYOUT_POINT_CLASSES = ("Translation", "HomogeneousTransform", "AffineTransform", "DisplacementFieldTransform",
                        "StationaryVelocityFieldTransform", "FreeFormDeformation")
LAYOUT_IMAGE_CLASSES = ("AffineTransform", "DisplacementFieldTransform", "StationaryVelocityFreeFormDeformation")


def layout_cases(tier: str, seed: int):
    out = []
    for D in (2, 3):
        k = 0
        for cls in LS.classes(D):
            for form in LS.FORMS:
                for route in ("ctor", "data_"):
                    k += 1
                    kinds = ("buffer", "param") if tier == "thorough" else (("buffer", "param")[k % 2],)
                    for kind in kinds:
                        out.append({"sub": "layout", "target": "params", "cls": cls, "D": D, "form": form, "route": route, "kind": kind, "seed": seed})
        for cls in LAYOUT_POINT_CLASSES:
            for form in ("transposed", "sliced", "expanded"):
                for api in ("call", "call-grid", "points-world", "pointset"):
                    out.append({"sub": "layout", "target": "points", "cls": cls, "D": D, "form": form, "api": api, "seed": seed})
        for cls in LAYOUT_IMAGE_CLASSES:
            for form in LS.FORMS:
                out.append({"sub": "layout", "target": "image", "cls": cls, "D": D, "form": form, "seed": seed})
    return out


def run_layout(case, acc: Acc = None):
    """One layout case. Returns [(sig, detail)]."""
    from deepali.spatial import ImageTransformer, PointSetTransformer

    out = []
    D, cls, form, seed = case["D"], case["cls"], case["form"], case["seed"]
    gspec = [g for g in grid_menu(D, "quick", seed) if g["name"] == "g1T"][0]
    grid = rg.real_grid(gspec)
    rgrid = rg.ref_grid(gspec)
    N = 2
    short = SHORT.get(cls, cls)

    def emit(where, kind, detail):
        out.append((f"C06/layout/{case['target']}/{short}/{where}/layout={form}/{kind}", detail))

    def judged(key):
        if acc is not None:
            acc.trace("layout", depth=1)
            acc.state("layout", json_key(case))
            acc.nontriv("layout", json_key(case), key)

    if case["target"] == "params":
        st, b = guarded(LS.build, cls, D, grid, N, case["kind"], case["route"], form, seed)
        if acc is not None:
            acc.trans(2)
        where = f"{case['route']}[{case['kind']}]"
        if st == "raises":
            emit(where, raises_kind(b), exc_text(b))
            return out
        if b is None:
            if acc is not None:
                acc.undef("layout form not applicable to the parameter shape")
            return out
        t, r, supplied = b
        x = LS.probe_points(D, N)
        for view, fn in (("call", lambda o: o(x.clone())), ("tensor", lambda o: o.tensor()), ("disp", lambda o: o.disp())):
            st1, a1 = guarded(fn, t)
            st2, a2 = guarded(fn, r)
            if acc is not None:
                acc.trans(2)
            if st2 == "raises":
                if acc is not None:
                    acc.undef("contiguous form raises (judged by the main sub-checks)")
                continue
            if st1 == "raises":
                emit(f"{where}/{view}", raises_kind(a1), exc_text(a1))
                continue
            c_ = LS.compare(a1, a2)
            if c_:
                emit(f"{where}/{view}", c_[0], c_[1])
            if acc is not None:
                acc.outcome("layout", json_key(case), view, tensor_bytes(a1))
            judged(view)
        if LS.mutated(supplied):
            emit(where, "operand-mutated", f"parameter tensor(s) {LS.mutated(supplied)} handed to the transform were modified")
        return out

    # contiguous transform (the layout under test is that of the points / the image)
    st, b = guarded(LS.build, cls, D, grid, N, "buffer", "ctor", "expanded" if cls in LS.LINEAR + tuple(LS.COMPOSITE) else "sliced", seed)
    if st == "raises" or b is None:
        if acc is not None:
            acc.undef("transform for the layout case could not be built")
        return out
    t = b[1]
    if case["target"] == "points":
        api = case["api"]
        if api == "call-grid":
            X = grid.coords().unsqueeze(0).repeat((N,) + (1,) * (D + 1)).contiguous()
            X[1] = X[1] * 1.0
        else:
            X = LS.probe_points(D, N)
            if api == "points-world":
                X = torch.tensor(np.stack([rgrid.map_points(X[n].double().numpy(), rt.cube_axes(rgrid.ac), WORLD) for n in range(N)]), dtype=torch.float32)
        if not LS.applicable(X, form):
            return out
        xa, xb = LS.variant(X, form)
        fp = LS.fingerprint(xa)
        if api == "call":
            fn = lambda x: t(x)
        elif api == "call-grid":
            fn = lambda x: t(x, grid=True)
        elif api == "points-world":
            fn = lambda x: t.points(x, axes="world")
        else:
            pst = PointSetTransformer(t, axes="world", to_axes="cube")
            fn = lambda x: pst(x)
            xa2 = xa
        st1, a1 = guarded(fn, xa)
        st2, a2 = guarded(fn, xb)
        if acc is not None:
            acc.trans(2)
        if st2 == "raises":
            if acc is not None:
                acc.undef("contiguous form raises (judged by the main sub-checks)")
            return out
        if st1 == "raises":
            emit(api, raises_kind(a1), exc_text(a1))
        else:
            c_ = LS.compare(a1, a2)
            if c_:
                emit(api, c_[0], c_[1])
            if acc is not None:
                acc.outcome("layout", json_key(case), tensor_bytes(a1))
        if LS.fingerprint(xa) != fp:
            emit(api, "operand-mutated", "the point tensor handed to the transform was modified")
        judged(api)
        return out
    if case["target"] == "image":
        sw = rgrid.index_to_world(grid_indices(rgrid))
        shape = tuple(int(v) for v in rgrid.n[::-1])
        ramp = np.concatenate([np.ones((1, len(sw))), sw.T], axis=0).reshape((1, D + 1) + shape)
        img = _tensor(np.concatenate([ramp, 0.5 * ramp], axis=0))
        if not LS.applicable(img, form):
            return out
        ia, ib = LS.variant(img, form)
        fp = LS.fingerprint(ia)
        it = ImageTransformer(t)
        st1, a1 = guarded(lambda: it(ia))
        st2, a2 = guarded(lambda: it(ib))
        if acc is not None:
            acc.trans(2)
        if st2 == "raises":
            if acc is not None:
                acc.undef("contiguous form raises (judged by the main sub-checks)")
            return out
        if st1 == "raises":
            emit("ImageTransformer", raises_kind(a1), exc_text(a1))
        else:
            c_ = LS.compare(a1, a2)
            if c_:
                emit("ImageTransformer", c_[0], c_[1])
            if acc is not None:
                acc.outcome("layout", json_key(case), tensor_bytes(a1))
        if LS.fingerprint(ia) != fp:
            emit("ImageTransformer", "operand-mutated", "the image tensor handed to the transformer was modified")
        judged("image")
        return out
    raise KeyError(case["target"])


def json_key(case) -> str:
    return repr(sorted((k, str(v)) for k, v in case.items()))


LAYOUT_SHARD = 40


def shards(tier: str, seed: int):
    cf = configs(tier, seed)
    n = len(cf)
    k = SHARD_SIZE[tier]
    out = [{"tier": tier, "seed": seed, "lo": i, "hi": min(i + k, n), "labs": sorted({label(c["desc"]) + f"/D{c['D']}" for c in cf[i:i + k]})} for i in range(0, n, k)]
    nl = len(layout_cases(tier, seed))
    out += [{"tier": tier, "seed": seed, "sub": "layout", "lo": i, "hi": min(i + LAYOUT_SHARD, nl)} for i in range(0, nl, LAYOUT_SHARD)]
    return out


def run_shard(shard) -> Acc:
    acc = Acc()
    if shard.get("sub") == "layout":
        for case in layout_cases(shard["tier"], shard["seed"])[shard["lo"]: shard["hi"]]:
            st, r = guarded(run_layout, case, acc)
            if st == "raises":
                acc.violation(f"C06/harness/layout/raises={type(r).__name__}/{case['cls']}", {"layout": case, "harness": True}, exc_text(r), size=1)
                continue
            for sig, detail in r:
                acc.violation(sig, {"layout": case}, detail, size=1)
        return acc
    cf = configs(shard["tier"], shard["seed"])
    for i in range(shard["lo"], shard["hi"]):
        spec = dict(cf[i])
        spec["tier"] = shard["tier"]
        st, r = guarded(run_config, spec, acc)
        if st == "raises":
            # an exception escaping the per-view guards is a defect of the harness, reported loudly
            acc.violation(f"C06/harness/{family(spec['desc'])}/raises={type(r).__name__}/{label(spec['desc'])}", {"spec": spec, "view": None, "form": None}, exc_text(r), size=1)
        if len(acc.samples) < 2 and spec["pm"] != "default":
            acc.sample({"config": {k: spec[k] for k in ("D", "desc", "N", "kind", "pm")}, "grid": spec["grid"]["name"], "views": "all"})
    return acc


def replay(case):
    if "layout" in case:
        st, r = guarded(run_layout, case["layout"], None)
        if st == "raises":
            return [(f"C06/harness/layout/raises={type(r).__name__}/{case['layout']['cls']}", exc_text(r))]
        return r
    spec = case["spec"]
    st, r = guarded(run_config, spec, None, None)
    if st == "raises":
        return [(f"C06/harness/{family(spec['desc'])}/raises={type(r).__name__}/{label(spec['desc'])}", exc_text(r))]
    return r
