"""C07 - inverse() really inverts, and stays an inverse while parameters change.

Transition system: state = (forward transform t, at most one inverse made from it, the callable(s) that
provide parameters) + reference flags; alphabet = {make-inverse x 5 forms, in-place edits (add_/copy_),
replace through the public setter, recondition (callable parameters), update() on either object,
evaluation through __call__}.  State-dedup BFS over all histories up to the tier depth; the canonical key is
the *concrete* content of every parameter / buffer of both objects plus their sharing topology, so two
histories with equal keys hold equal tensors in equal containers and have identical futures.  Every new
state is judged:  inv(t(x)) == x  and  t(inv(x)) == x  through __call__, and (where the documentation says the
buffers are current) the product of the two tensor()/displacement representations.
"""
from __future__ import annotations

import math

import numpy as np
import torch

# imported here (not lazily) so that the runner's parent process holds the modules before it forks one process per shard
import deepali.modules  # noqa: F401
import deepali.spatial  # noqa: F401
import deepali.spatial.generic  # noqa: F401

from mc.core import Acc, exc_text, guarded, h64, tensor_bytes
from checks import layout_spatial as LS
from ref import grid as rg
from ref import transform as rt

PROPERTY = "C07"
RULE = (
    "state-dedup BFS over all histories of the 14-letter alphabet (5 ways to make the inverse, add_/copy_ edits, setter "
    "replace, recondition, grid_() subdivision (dense velocity models), update on either object, evaluation through __call__, "
    "direct evaluation without __call__ (forward / points / disp / tensor)) up to the tier depth, for every invertible class x D x "
    "parameter kind (Parameter / fixed tensor / callable / stateful callable) plus mirror variants; distinct = concrete content of all "
    "parameters and buffers of both objects (buffer p only while its owner is up to date) + sharing topology + reference flags; every new "
    "state is judged through __call__ in both composition orders and, where the documentation makes un-updated use legal (both objects "
    "updated since the last change, or tensor parameters + inverse made with update_buffers=True from a forward transform without stale "
    "buffers), also directly through forward(), points(), disp() and the product of the tensor() representations; non-trivial = an inverse "
    "exists, the judgement is defined and the forward map moves a probe by > 1e-3; plus amplitude-pair order tests of the velocity models "
    "and ExpFlow on larger grids; plus the `layout` sub-check: invertible transforms built from transposed / step-sliced / stride-0 expanded / "
    "channels-last parameter tensors (constructor and data_()), inverted in three forms and evaluated on non-contiguous point sets, must equal "
    "the contiguous build, still invert (linear models), raise nothing and leave the supplied tensors unchanged; plus the `chain` sub-check: "
    "every chain of 2 and 3 inverse-making steps over {.inv, inverse(link=True), inverse()} (36 chains) for every class x D x {Parameter, fixed "
    "tensor}: the last two links are an inverse pair in both orders, the chain end is the same map as t (even length) or a fresh t.inverse() "
    "(odd length), and for all-linking chains both still hold after an in-place edit of the forward parameters"
)
EXPLANATION = "bounded explicit-state exploration of (transform, inverse) pairs sharing parameters; inv o t = t o inv = id after every history"
ASSUMPTIONS = [
    "CPU float32; evaluation through __call__ (the update() pre-forward hook), forward evaluated before the inverse",
    "linear models and composites: |inv(t(x)) - x| <= 64 * 2^-23 * max(1,|x|,|t(x)|) * 8 in cube units (menus have condition <= 4, checked by the reference)",
    "velocity models on smooth band-limited fields vanishing at the boundary: error <= 0.5 * A^2 sample (+1e-4), A = observed forward amplitude in samples; "
    "err(A)/err(A/2) <= 6 for A in {0.5, 1}",
    "after the forward parameters were replaced (setter / recondition) an inverse made with link=False is not judged until a new inverse is made "
    "(documentation: shared tensors may be replaced); after grid_() on the forward transform nothing is promised for an inverse made before",
    "direct (no __call__) judgement only where the documentation makes it legal: both objects updated / evaluated since the last parameter change, or "
    "tensor parameters + update_buffers=True + no in-place edit since the forward's last update()/data_()/grid_() (these clear the buffers); in-place edits "
    "without update() and callable parameters before update() stay undefined; DDF and FFD offer no inverse() and are outside C07 (their buffers are C09's)",
]
MIN_NONTRIVIAL = {"quick": 2000, "thorough": 12000}
MIN_OUTCOMES = {"quick": 900, "thorough": 2500}
MIN_SUB_TRACES = {"history": 3000, "order": 30, "expflow": 24, "layout": 80, "chain": 1200}

EPS32 = 2.0 ** -23
C = 64.0
COND_BOUND = 8.0

LINEAR_ELEMENTARY = ("Translation", "EulerRotation", "QuaternionRotation", "IsotropicScaling", "AnisotropicScaling", "Shearing", "HomogeneousTransform")
LINEAR_COMPOSITE = {
    "RigidTransform": (("rotation", "EulerRotation"), ("translation", "Translation")),
    "RigidQuaternionTransform": (("rotation", "QuaternionRotation"), ("translation", "Translation")),
    "SimilarityTransform": (("scaling", "IsotropicScaling"), ("rotation", "EulerRotation"), ("translation", "Translation")),
    "AffineTransform": (("scaling", "AnisotropicScaling"), ("rotation", "EulerRotation"), ("translation", "Translation")),
    "FullAffineTransform": (("scaling", "AnisotropicScaling"), ("shearing", "Shearing"), ("rotation", "EulerRotation"), ("translation", "Translation")),
}
VELOCITY = ("StationaryVelocityFieldTransform", "StationaryVelocityFreeFormDeformation")
SHORT = {"StationaryVelocityFieldTransform": "SVF", "StationaryVelocityFreeFormDeformation": "SVFFD"}
GENERIC_LETTER = {"A": ("affine", "HomogeneousTransform"), "K": ("shearing", "Shearing"), "T": ("translation", "Translation"),
                  "R": ("rotation", "EulerRotation"), "S": ("scaling", "AnisotropicScaling"), "Q": ("quaternion", "QuaternionRotation")}

MAKE_INV = ("inv", "inv_ub", "inv_link", "inv_link_ub", "inv_prop")
OPS = MAKE_INV + ("edit_add", "edit_copy", "replace", "recond", "regrid", "update_t", "update_inv", "call", "direct")
NOT_FIRST = ("update_inv", "call", "direct")  # need an inverse


# ---------------------------------------------------------------------------
# value menus (setter space; moderate magnitudes, condition <= 4)
_T = {"V0": ((0.3, -0.2, 0.25), (-0.15, 0.35, 0.2), (0.25, 0.3, -0.2), (-0.3, -0.25, 0.15)),
      "V1": ((-0.4, 0.15, 0.1), (0.2, -0.3, -0.35), (-0.1, -0.4, 0.3), (0.35, 0.1, -0.25)),
      "R": ((0.1, 0.45, -0.3), (-0.45, -0.1, 0.3), (0.4, -0.2, 0.1), (-0.2, 0.4, 0.35))}
_A = {"V0": ((0.5, -0.4, 0.3), (-0.6, 0.3, 0.45), (0.35, 0.55, -0.5), (-0.45, -0.35, 0.6)),
      "V1": ((-0.7, 0.25, 0.5), (0.4, -0.65, -0.3), (-0.3, -0.5, 0.7), (0.6, 0.2, -0.4)),
      "R": ((0.2, 0.8, -0.6), (-0.8, -0.2, 0.5), (0.7, -0.3, 0.2), (-0.25, 0.7, 0.45))}
_S = {"V0": ((1.2, 0.85, 1.1), (0.9, 1.25, 1.15), (1.15, 1.2, 0.85), (0.85, 0.9, 1.25)),
      "V1": ((0.8, 1.3, 0.9), (1.3, 0.8, 0.85), (0.9, 0.8, 1.3), (1.25, 1.1, 0.8)),
      "R": ((1.35, 1.1, 0.75), (0.75, 0.95, 1.35), (1.3, 0.75, 1.05), (1.05, 1.35, 0.9))}
_K = {"V0": ((0.3, -0.25, 0.2), (-0.2, 0.3, 0.25), (0.25, 0.2, -0.3), (-0.3, -0.2, 0.25)),
      "V1": ((-0.35, 0.15, 0.3), (0.3, -0.35, -0.15), (-0.15, -0.3, 0.35), (0.35, 0.25, -0.2)),
      "R": ((0.15, 0.4, -0.35), (-0.4, -0.15, 0.3), (0.35, -0.25, 0.15), (-0.25, 0.35, 0.4))}
_QAX = ((1.0, 2.0, -1.5), (-2.0, 1.0, 1.0), (0.5, -1.0, 2.0), (1.5, 1.0, 1.0))
_QANG = {"V0": 0.8, "V1": -1.1, "R": 1.4}
EDIT_DELTA = 0.2


def setter_values(cls: str, D: int, which: str, seed: int, shift: int = 0):
    """One group of setter-space values (list) for an elementary linear class."""
    s = (seed + shift) % 4
    if cls == "Translation":
        return list(_T[which][s][:D])
    if cls == "EulerRotation":
        return list(_A[which][s][: (1 if D == 2 else 3)])
    if cls == "QuaternionRotation":
        return rt.quat_from_axis_angle(_QAX[s], _QANG[which]).tolist()
    if cls == "IsotropicScaling":
        return list(_S[which][s][:1])
    if cls == "AnisotropicScaling":
        return list(_S[which][s][:D])
    if cls == "Shearing":
        return list(_K[which][s][: (1 if D == 2 else 3)])
    if cls == "HomogeneousTransform":
        a = _A[which][s][: (1 if D == 2 else 3)]
        A = rt.euler_matrix(a, "ZXZ", D) @ rt.shear_matrix(_K[which][s][: (1 if D == 2 else 3)], D) @ np.diag(_S[which][s][:D])
        return rt.hom(A, np.array(_T[which][s][:D]), D).tolist()
    raise KeyError(cls)


def smooth_field(shape, D: int, ac: bool, amp: float, seed: int, variant: int = 0) -> np.ndarray:
    """(1, D, *shape) smooth band-limited field in cube units, vanishing at the boundary samples; amp in samples."""
    shape = tuple(int(s) for s in shape)
    n = np.array(shape[::-1], dtype=np.float64)
    idx = np.stack(np.meshgrid(*[np.arange(s, dtype=np.float64) for s in shape], indexing="ij"), axis=0)[::-1]
    w = np.ones(shape)
    for d in range(D):
        w = w * np.sin(math.pi * idx[d] / (n[d] - 1))
    ph = (0.3, 1.1, 2.0, 2.9)[seed % 4] + 0.9 * variant
    out = np.zeros((1, D) + shape)
    for d in range(D):
        arg = ph + 1.3 * d
        for e in range(D):
            arg = arg + (1.0 + 0.5 * ((d + e + variant) % D)) * (2 * idx[e] / (n[e] - 1) - 1)
        unit = 2.0 / (n[d] - 1) if ac else 2.0 / n[d]
        out[0, d] = amp * unit * w * np.sin(arg)
    return out


# ---------------------------------------------------------------------------
# configurations
def grids(D: int):
    if D == 2:
        return {"lin": {"size": [6, 5], "spacing": [0.5, 1.25], "origin": [10.5, -3.25], "direction": rg.rot2(33.0).tolist()},
                "vel": {"size": [17, 15], "spacing": [0.5, 1.25], "origin": [10.5, -3.25], "direction": rg.rot2(33.0).tolist()},
                "big": {"size": [21, 17], "spacing": [1.0, 1.0], "origin": [0.0, 0.0], "direction": None}}
    return {"lin": {"size": [6, 5, 4], "spacing": [0.5, 1.25, 2.0], "origin": [10.5, -3.25, 7.0], "direction": rg.rot3(0.3, -0.5, 0.7).tolist()},
            "vel": {"size": [11, 10, 9], "spacing": [0.5, 1.25, 2.0], "origin": [10.5, -3.25, 7.0], "direction": rg.rot3(0.3, -0.5, 0.7).tolist()},
            "big": {"size": [13, 12, 11], "spacing": [1.0, 1.0, 1.0], "origin": [0.0, 0.0, 0.0], "direction": None}}


def class_menu(D: int, tier: str):
    out = []
    for cls in LINEAR_ELEMENTARY:
        if cls == "QuaternionRotation" and D == 2:
            continue
        out.append({"cls": cls})
    if D == 3:
        out.append({"cls": "EulerRotation", "order": "XYZ"})
        if tier == "thorough":
            out.append({"cls": "EulerRotation", "order": "YZY"})
    for cls in LINEAR_COMPOSITE:
        if cls == "RigidQuaternionTransform" and D == 2:
            continue
        out.append({"cls": cls})
    out.append({"cls": "Sequential", "members": [{"cls": "Translation"}, {"cls": "EulerRotation"}, {"cls": "AnisotropicScaling"}]})
    out.append({"cls": "Generic", "transform": "Affine", "model": "TRS"})
    if tier == "thorough":
        out.append({"cls": "Generic", "transform": "Affine", "model": "A"})
        out.append({"cls": "Generic", "transform": "Affine", "model": "TKRS" if D == 2 else "TQKS"})
    for cls in VELOCITY:
        out.append({"cls": cls})
    out.append({"cls": "Sequential", "members": [{"cls": "AffineTransform"}, {"cls": "StationaryVelocityFieldTransform"}]})
    out.append({"cls": "Generic", "transform": "Affine o SVF", "model": "TRS"})
    if tier == "thorough":
        out.append({"cls": "Generic", "transform": "SVFFD o Affine", "model": "TRS"})
    return out


def is_velocity(desc) -> bool:
    if desc["cls"] in VELOCITY:
        return True
    if desc["cls"] == "Generic":
        return "SV" in desc["transform"]
    return any(is_velocity(m) for m in desc.get("members", []))


def needs_ac_true(desc) -> bool:
    if desc["cls"] == "StationaryVelocityFreeFormDeformation":
        return True
    if desc["cls"] == "Generic":
        return "FFD" in desc["transform"]
    return any(needs_ac_true(m) for m in desc.get("members", []))


def label(desc) -> str:
    cls = desc["cls"]
    if cls in SHORT:
        return SHORT[cls]
    if cls == "EulerRotation" and "order" in desc:
        return f"EulerRotation[{desc['order']}]"
    if cls == "Sequential":
        return f"Sequential[{','.join(label(m) for m in desc['members'])}]"
    if cls == "Generic":
        return f"Generic[{desc['transform'].replace(' ', '')};{desc['model']}]"
    return cls


def family(desc) -> str:
    if is_velocity(desc):
        return "velocity" if desc["cls"] in VELOCITY else "velocity-composite"
    return "linear" if desc["cls"] in LINEAR_ELEMENTARY else "linear-composite"


def configs(tier: str, seed: int):
    out = []
    for D in (2, 3):
        for desc in class_menu(D, tier):
            vel = is_velocity(desc)
            kinds = ("param", "buffer", "callable", "stateful")
            variants = [(True, 1)]
            if vel and not needs_ac_true(desc):
                variants.append((False, 1))
            if tier == "thorough" and not vel and (desc["cls"] in LINEAR_ELEMENTARY or desc["cls"] in ("RigidTransform", "Sequential")):
                variants += [(False, 1), (True, 2)]  # batch / flag handling variants (explored to depth 3)
            for ac, N in variants:
                for kind in kinds:
                    out.append({"D": D, "desc": desc, "ac": ac, "kind": kind, "N": N, "seed": seed, "vel": vel, "mirror": False})
            if has_mirror(desc):
                # negative / mixed-sign scale factors and matrices with negative determinant (mirror, flip): possible for
                # fixed tensors and predicted parameters (optimisable scalings are exp(tanh(.)) > 0)
                for kind in ("buffer", "callable"):
                    out.append({"D": D, "desc": desc, "ac": True, "kind": kind, "N": 2 if tier == "thorough" else 1, "seed": seed, "vel": vel, "mirror": True})
    return out


MIRROR_CLASSES = ("IsotropicScaling", "AnisotropicScaling", "HomogeneousTransform")


def has_mirror(desc) -> bool:
    cls = desc["cls"]
    if cls in MIRROR_CLASSES or cls in ("SimilarityTransform", "AffineTransform", "FullAffineTransform"):
        return True
    if cls == "Generic":
        return "Affine" in desc["transform"].split(" o ") and any(ch in desc["model"] for ch in "SA") and not is_velocity(desc)
    if cls == "Sequential" and not is_velocity(desc):
        return any(has_mirror(m) for m in desc["members"])
    return False


def mirrored(cls: str, D: int, v, n: int):
    """Mirror variant of one group of setter values: negative isotropic factor, one flipped axis, negative determinant."""
    if cls == "IsotropicScaling":
        return [-float(v[0])]
    if cls == "AnisotropicScaling":
        out = [float(a) for a in v]
        out[n % D] = -out[n % D]
        if D == 3 and n % 2 == 1:
            out[(n + 1) % D] = -out[(n + 1) % D]  # two flipped axes (rotation-like, still negative factors)
        return out
    if cls == "HomogeneousTransform":
        M = np.array(v, dtype=np.float64)
        M[:, n % D] = -M[:, n % D]
        return M.tolist()
    return v


def depth_of(cfg, tier: str) -> int:
    """History depth: quick 3 (velocity models 2); thorough 5 for Parameter / fixed-tensor kinds and 4 for callable
    parameters (their state space grows with every edit), velocity models 4 / 3; the extra thorough variants
    (N = 2 groups, align_corners=False for linear models) vary the batch / flag handling and are explored to depth 3."""
    vel, kind = cfg["vel"], cfg.get("kind", "param")
    if kind == "stateful":
        if tier == "quick":
            return 2  # the obligations of a linked inverse show after inverse + one evaluation / update
        kind = "callable"
    if cfg.get("mirror"):
        return 2 if tier == "quick" else 3  # the sign of the factors matters, not the history depth
    if tier == "quick":
        # update -> replace -> inverse(update_buffers=True) -> (direct evaluation of the reached state) needs three letters
        return 3
    if cfg.get("N", 1) > 1 or (not vel and not cfg.get("ac", True)):
        return 3
    if vel:
        return 3 if kind == "callable" else 4
    return 4 if kind == "callable" else 5


def bounds(tier):
    cf = configs(tier, 0)
    return {
        "configurations": len(cf),
        "alphabet": list(OPS),
        "inverse_chains": {"steps": list(CHAIN_STEPS), "lengths": [2, 3], "cases": len(chain_cases(tier, 0))},
        "depth_linear": {k: depth_of({"vel": False, "kind": k}, tier) for k in ("param", "buffer", "callable")},
        "depth_velocity(SVF, SVFFD)": {k: depth_of({"vel": True, "kind": k, "desc": {"cls": VELOCITY[0]}}, tier) for k in ("param", "buffer", "callable")},
        "depth_velocity_composites": {k: depth_of({"vel": True, "kind": k, "desc": {"cls": "Sequential"}}, tier) for k in ("param", "buffer", "callable")},
        "depth_extra_variants(N=2, ac=False)": 3,
        "parameter_kinds": ["param", "buffer", "callable", "stateful (callable whose output differs between invocations)"],
        "mirror_variants(negative / mixed-sign scale factors, det < 0; depth 2 quick / 3 thorough)": sum(1 for c_ in cf if c_.get("mirror")),
        "order_tests": len(order_cases(tier, 0)),
        "expflow_tests": len(expflow_cases(tier, 0)),
        "layout_cases(non-contiguous parameters x inverse form x non-contiguous points)": len(layout_cases(tier, 0)),
    }


# ---------------------------------------------------------------------------
class Net(torch.nn.Module):
    """Callable that provides parameters: W * c (c = conditioning scalar, default 1); counts its invocations.

    Stateful variant (menu given): a deterministic predictor whose output differs between invocations - the k-th
    invocation returns menu[k % 3] * c."""

    def __init__(self, W: torch.Tensor, menu=None):
        super().__init__()
        self.W = torch.nn.Parameter(W.clone())
        self.menu = None if menu is None else torch.nn.ParameterList([torch.nn.Parameter(v.clone()) for v in menu])
        self.k = 0
        self.count = 0

    def tensors(self, key=None):
        return [self.W] if self.menu is None else list(self.menu)

    def forward(self, c: float = 1.0):
        self.count += 1
        if self.menu is None:
            return self.W * c
        v = self.menu[self.k % len(self.menu)] * c
        self.k += 1
        return v


class DictNet(torch.nn.Module):
    """Callable that provides the parameter dictionary of a GenericSpatialTransform: {name: W[name] * c}; stateful variant as Net."""

    def __init__(self, W: dict, menu=None):
        super().__init__()
        self.W = torch.nn.ParameterDict({k: torch.nn.Parameter(v.clone()) for k, v in W.items()})
        self.menu = None if menu is None else torch.nn.ModuleList(
            [torch.nn.ParameterDict({k: torch.nn.Parameter(v.clone()) for k, v in m.items()}) for m in menu])
        self.k = 0
        self.count = 0

    def tensors(self, key=None):
        return [self.W[key]] if self.menu is None else [m[key] for m in self.menu]

    def forward(self, c: float = 1.0):
        self.count += 1
        if self.menu is None:
            return {k: v * c for k, v in self.W.items()}
        m = self.menu[self.k % len(self.menu)]
        self.k += 1
        return {k: v * c for k, v in m.items()}


CALLABLE_KINDS = ("callable", "stateful")


def _tensor(v):
    return torch.tensor(np.asarray(v, dtype=np.float64), dtype=torch.float32)


def _apply_setter(m, cls, values):
    arg = _tensor(values)
    if cls == "Translation":
        m.offset_(arg)
    elif cls in ("EulerRotation", "Shearing"):
        m.angles_(arg)
    elif cls == "QuaternionRotation":
        m.quaternion_(arg)
    elif cls in ("IsotropicScaling", "AnisotropicScaling"):
        m.scales_(arg)
    elif cls == "HomogeneousTransform":
        m.matrix_(arg)
    else:
        m.data_(arg)


class Leaf:
    """One parametric member of the forward transform."""

    def __init__(self, path, cls, module, net, values, key=None):
        self.path = path  # tuple of names from the root
        self.cls = cls
        self.module = module
        self.net = net
        self.values = values  # dict which -> setter-space values (N groups) / fields
        self.key = key  # entry of a DictNet


class System:
    """Real objects of one configuration + reference flags."""

    def __init__(self, cfg):
        import deepali.spatial as S
        from deepali.core.grid import Grid

        self.cfg = cfg
        self.D, self.N, self.kind, self.seed = cfg["D"], cfg["N"], cfg["kind"], cfg["seed"]
        gs = grids(self.D)
        gspec = dict(gs["vel" if cfg["vel"] else "lin"])
        gspec["ac"] = cfg["ac"]
        self.gspec = gspec
        self.rgrid = rg.ref_grid(gspec)
        self.grid = rg.real_grid(gspec)
        self.leaves = []
        self.callable_kind = self.kind in CALLABLE_KINDS
        self.stateful = self.kind == "stateful"
        self.mirror = bool(cfg.get("mirror"))
        self.problems = []  # (kind, detail) observed inside apply() / evaluate_call()
        self.t = self._build(cfg["desc"], (), 0)
        self.inv = None
        # reference flags
        self.has_inv = False
        self.link = False
        self.defined = False
        self.t_current = False
        self.inv_current = False
        self.cond = 1.0  # current conditioning scalar (callable kind)
        self.t_dirty = False  # an in-place edit happened since the last update() / replacing operation (buffers may be stale)
        self.inv_fresh = False  # inverse made with update_buffers=True from a forward transform without stale buffers, no change since
        self.inv_invalid = False  # the forward grid was replaced after the inverse was made (nothing is promised for the old inverse)
        self.regridded = False
        self.pure_velocity = cfg["desc"]["cls"] in VELOCITY
        self.acc = None  # accumulator for headroom counters (optional)

    # -- construction ------------------------------------------------------------------------------------
    def _values(self, cls, shift, module=None):
        D, N = self.D, self.N
        if cls in LINEAR_ELEMENTARY:
            vals = {w: [setter_values(cls, D, w, self.seed, shift + n) for n in range(N)] for w in ("V0", "V1", "R")}
            if self.mirror:
                vals = {w: [mirrored(cls, D, g, n) for n, g in enumerate(v)] for w, v in vals.items()}
            for w, v in vals.items():
                for g in v:
                    M = rt.linear_matrix(cls, D, [g], None)[0]
                    assert np.linalg.cond(M[:, :D]) <= 4.0, (cls, w, np.linalg.cond(M[:, :D]))
            return vals
        shape = tuple(module.data_shape)[1:]
        ac = module.grid().align_corners()
        return {w: np.concatenate([smooth_field(shape, D, ac, a, self.seed + n, variant=k) for n in range(N)], axis=0)
                for k, (w, a) in enumerate((("V0", 0.5), ("V1", 0.4), ("R", 0.6), ("DELTA", 0.2)))}

    def _leaf(self, cls, path, shift, ctor):
        """Create one parametric member according to the parameter kind."""
        kind = self.kind
        if kind in ("param", "buffer"):
            m = ctor(True if kind == "param" else False)
            vals = self._values(cls, shift, m)
            _apply_setter(m, cls, vals["V0"])
            self.leaves.append(Leaf(path, cls, m, None, vals))
            return m
        # callable: scratch object to learn the data shape, then the real one with a Net
        scratch = ctor(False)
        vals = self._values(cls, shift, scratch)
        net = self._net(vals)
        m = ctor(net)
        self.leaves.append(Leaf(path, cls, m, net, vals))
        return m

    def _net(self, vals):
        menu = [_tensor(vals[w]) for w in ("V0", "V1", "R")] if self.stateful else None
        return Net(_tensor(vals["V0"]), menu)

    def _build(self, desc, path, shift):
        import deepali.spatial as S

        cls, grid, N = desc["cls"], self.grid, self.N
        if cls in LINEAR_ELEMENTARY:
            kw = {"order": desc["order"]} if desc.get("order") else {}
            return self._leaf(cls, path, shift, lambda p: getattr(S, cls)(grid, groups=N, params=p, **kw))
        if cls in VELOCITY:
            kw = {"stride": 2} if cls == "StationaryVelocityFreeFormDeformation" else {}
            return self._leaf(cls, path, shift, lambda p: getattr(S, cls)(grid, groups=N, params=p, **kw))
        if cls in LINEAR_COMPOSITE:
            parts = LINEAR_COMPOSITE[cls]
            if self.callable_kind:
                # members are created by the composite's constructor from the callables
                nets, pend = {}, []
                for j, (name, mcls) in enumerate(parts):
                    scratch = getattr(S, mcls)(grid, groups=N, params=False)
                    vals = self._values(mcls, shift + j, scratch)
                    nets[name] = self._net(vals)
                    pend.append((name, mcls, vals))
                t = getattr(S, cls)(grid, groups=N, **nets)
                for name, mcls, vals in pend:
                    self.leaves.append(Leaf(path + (name,), mcls, getattr(t, name), nets[name], vals))
                return t
            flag = self.kind == "param"
            t = getattr(S, cls)(grid, groups=N, **{name: flag for name, _ in parts})
            for j, (name, mcls) in enumerate(parts):
                m = getattr(t, name)
                vals = self._values(mcls, shift + j, m)
                _apply_setter(m, mcls, vals["V0"])
                self.leaves.append(Leaf(path + (name,), mcls, m, None, vals))
            return t
        if cls == "Sequential":
            members = [self._build(m, path + (str(j),), shift + 3 * j) for j, m in enumerate(desc["members"])]
            return S.SequentialTransform(*members)
        if cls == "Generic":
            from deepali.spatial.generic import GenericSpatialTransform, TransformConfig

            cfgobj = TransformConfig(transform=desc["transform"], affine_model=desc["model"], rotation_model="ZXZ",
                                     control_point_spacing=2 if "FFD" in desc["transform"] else 1, scaling_and_squaring_steps=5)
            if self.callable_kind:
                probe = GenericSpatialTransform(grid, params=False, config=cfgobj)
                W, pend = {}, []
                for j, (name, m) in enumerate(probe.named_transforms()):
                    mcls = type(m).__name__
                    vals = self._values(mcls if mcls in LINEAR_ELEMENTARY else "dense", j, m)
                    W[name] = _tensor(vals["V0"])
                    pend.append((name, mcls, vals))
                menu = [{name: _tensor(vals[w]) for name, _, vals in pend} for w in ("V0", "V1", "R")] if self.stateful else None
                net = DictNet(W, menu)
                t = GenericSpatialTransform(grid, params=net, config=cfgobj)
                for name, mcls, vals in pend:
                    self.leaves.append(Leaf(path + (name,), mcls, t[name], net, vals, key=name))
                return t
            t = GenericSpatialTransform(grid, params=(self.kind == "param"), config=cfgobj)
            for j, (name, m) in enumerate(t.named_transforms()):
                mcls = type(m).__name__
                vals = self._values(mcls if mcls in LINEAR_ELEMENTARY else "dense", j, m)
                _apply_setter(m, mcls if mcls in LINEAR_ELEMENTARY else "dense", vals["V0"])
                self.leaves.append(Leaf(path + (name,), mcls, m, None, vals))
            return t
        raise KeyError(cls)

    # -- alphabet ------------------------------------------------------------------------------------------
    def enabled(self, op: str) -> bool:
        if op == "recond":
            return self.callable_kind
        if op == "replace":
            return not self.callable_kind  # documented ReadOnlyParameters
        if op == "edit_copy":
            return not self.stateful  # the stateful predictor cycles through the menu itself
        if op == "update_inv":
            # a linked inverse reads the parameters the forward transform has buffered ("directly access the parameters
            # from this transformation"): updating it while the forward's predicted parameters are not current is stale
            # usage (documented AssertionError "params must be set first" for a never-updated generic transform)
            return self.has_inv and not self.inv_invalid and not (self.link and self.callable_kind and not self.t_current)
        if op == "call":
            return self.has_inv and not self.inv_invalid
        if op == "direct":
            return self.direct_defined()
        if op == "regrid":
            # grid_() of the dense velocity models (SVF: resampling, SVFFD: subdivision) with tensor parameters, once per history
            return self.pure_velocity and not self.callable_kind and not self.regridded
        return True

    def direct_defined(self) -> bool:
        """May the pair be evaluated WITHOUT __call__ (forward / points / disp / tensor)?  Yes if both objects were updated or
        evaluated since the last parameter change, or - for tensor parameters - if the inverse was made with update_buffers=True
        ("If False, the update() function of the returned inverse transformation has to be called before it is used") from a forward
        transform whose buffers are not stale (no in-place edit since its last update() or replacing data_/grid_ call, which clear
        the buffers) and nothing changed since.  Callable parameters: observations before update() stay undefined."""
        if not (self.has_inv and self.defined) or self.inv_invalid:
            return False
        if self.t_current and self.inv_current:
            return True
        return (not self.callable_kind) and self.inv_fresh and not self.t_dirty

    def _param_tensors(self, leaf: Leaf):
        if leaf.net is None:
            return [leaf.module.params]
        return leaf.net.tensors(leaf.key)

    def _param_tensor(self, leaf: Leaf):
        return self._param_tensors(leaf)[0]

    def nets(self):
        seen, out = set(), []
        for leaf in self.leaves:
            if leaf.net is not None and id(leaf.net) not in seen:
                seen.add(id(leaf.net))
                out.append(leaf.net)
        return out

    def invocations(self) -> int:
        return sum(n.count for n in self.nets())

    def _raw_of(self, leaf: Leaf, which: str):
        """Raw parameter tensor that the public setter produces for the menu value `which` (scratch object)."""
        if leaf.cls not in LINEAR_ELEMENTARY or self.kind != "param":
            return _tensor(leaf.values[which])
        import deepali.spatial as S

        kw = {}
        if leaf.cls == "EulerRotation":
            kw["order"] = leaf.module.order
        scratch = getattr(S, leaf.cls)(self.grid, groups=self.N, params=True, **kw)
        _apply_setter(scratch, leaf.cls, leaf.values[which])
        return scratch.params.detach().clone()

    def apply(self, op: str):
        """Real API call(s) of one letter; updates the reference flags. Returns None or an observation."""
        t = self.t
        if op in MAKE_INV:
            if op == "inv":
                self.inv = t.inverse()
            elif op == "inv_ub":
                self.inv = t.inverse(update_buffers=True)
            elif op == "inv_link":
                self.inv = t.inverse(link=True)
            elif op == "inv_link_ub":
                self.inv = t.inverse(link=True, update_buffers=True)
            else:
                self.inv = t.inv
            self.has_inv = True
            self.link = op in ("inv_link", "inv_link_ub", "inv_prop")
            # stateful predictor: an unlinked inverse invokes the predictor itself and obtains other parameters (rule 1)
            self.defined = self.link or not self.stateful
            self.inv_current = self.t_current and op in ("inv_ub", "inv_link_ub", "inv_prop")
            self.inv_fresh = (not self.t_dirty) and op in ("inv_ub", "inv_link_ub", "inv_prop")
            self.inv_invalid = False
            return None
        if op in ("edit_add", "edit_copy"):
            with torch.no_grad():
                for leaf in self.leaves:
                    for p in self._param_tensors(leaf):
                        if op == "edit_add":
                            if "DELTA" in leaf.values:
                                p.add_(_tensor(leaf.values["DELTA"]))
                            elif self.mirror and leaf.cls in ("IsotropicScaling", "AnisotropicScaling"):
                                p.add_(EDIT_DELTA * torch.sign(p))  # away from zero: factors keep their sign and condition
                            elif self.mirror and leaf.cls == "HomogeneousTransform":
                                p[..., -1].add_(EDIT_DELTA)  # translation column only: determinant and condition unchanged
                            else:
                                p.add_(EDIT_DELTA)
                        else:
                            p.copy_(self._raw_of(leaf, "V1"))
            self.t_current = False
            self.inv_current = False
            self.t_dirty = True
            self.inv_fresh = False
            return None
        if op == "replace":
            for leaf in self.leaves:
                _apply_setter(leaf.module, leaf.cls if leaf.cls in LINEAR_ELEMENTARY else "dense", leaf.values["R"])
            self.t_current = False
            self.inv_current = False
            self.t_dirty = False  # data_() replaces the parameters and clears the buffers
            self.inv_fresh = False
            if self.has_inv and not self.link:
                self.defined = False
            return None
        if op == "recond":
            self.cond = 0.75 if self.cond == 1.0 else 1.0
            t.condition_(self.cond)
            self.t_current = False
            self.inv_current = False
            self.inv_fresh = False
            if self.has_inv and not self.link:
                self.defined = False
            return None
        if op == "regrid":
            r = self.rgrid
            rnew = rg.resized(r, 2 * r.n - 1, r.ac)  # same domain, subdivided: the only grid change SVFFD supports
            from deepali.core.grid import Grid

            gnew = Grid(size=tuple(int(v) for v in rnew.n), spacing=tuple(rnew.s.tolist()), center=tuple(rnew.c.tolist()),
                        direction=rnew.R.tolist(), align_corners=rnew.ac)
            t.grid_(gnew)
            self.rgrid = rnew
            for leaf in self.leaves:
                leaf.values = self._values(leaf.cls, 0, leaf.module)  # menu fields for the new parameter shape
            self.regridded = True
            self.t_current = False
            self.inv_current = False
            self.t_dirty = False  # grid_() resamples / subdivides the parameters through data_(), which clears the buffers
            self.inv_fresh = False
            if self.has_inv:
                self.inv_invalid = True  # the old inverse keeps the old grid: nothing is promised for it
                self.defined = False
            return None
        if op == "update_t":
            t.update()
            self.t_current = True
            self.t_dirty = False
            if self.stateful:
                self.inv_current = False  # the forward transform now holds the next prediction
            return None
        if op == "update_inv":
            n0 = self.invocations()
            self.inv.update()
            if self.link and self.callable_kind and self.invocations() != n0:
                self.problems.append(("linked-inverse-invokes-predictor", f"update() of an inverse made with link=True called the parameter callable {self.invocations() - n0} time(s)"))
            # a linked inverse copies the forward's *buffered* parameters (t.p for callable parameters):
            # its buffers are current only if the forward's are
            self.inv_current = self.defined and (self.t_current or not (self.link and self.callable_kind))
            return None
        if op == "call":
            return self.evaluate_call()
        if op == "direct":
            return self.evaluate_direct()
        raise KeyError(op)

    # -- observations ---------------------------------------------------------------------------------------
    def probe(self):
        D = self.D
        if self.cfg["vel"]:
            r = self.rgrid
            idx = grid_indices(r)
            c = rt.index_to_cube(idx, r.n, r.ac)
            shape = tuple(int(v) for v in r.n[::-1])
            return c.reshape((1,) + shape + (D,))
        if D == 2:
            pts = [[0.0, 0.0], [0.5, 0.0], [0.0, 0.5], [-0.35, 0.62], [0.71, -0.55], [1.4, -1.2]]
        else:
            pts = [[0.0, 0.0, 0.0], [0.5, 0.0, 0.0], [0.0, 0.5, 0.0], [0.0, 0.0, 0.5], [-0.35, 0.62, 0.27], [0.71, -0.55, -0.4], [1.4, -1.2, 1.1]]
        return np.array(pts, dtype=np.float64)[None]

    def evaluate_call(self):
        """y = t(x); x1 = inv(y); z = inv(x); x2 = t(z)  (forward first). Returns dict of float64 arrays."""
        x64 = self.probe()
        x = _tensor(x64)
        y = self.t(x)
        n0 = self.invocations()
        x1 = self.inv(y)
        if self.link and self.callable_kind and self.invocations() != n0:
            self.problems.append(("linked-inverse-invokes-predictor", f"evaluating an inverse made with link=True called the parameter callable {self.invocations() - n0} time(s)"))
        if self.stateful:
            # t(inv(x)) would re-invoke the predictor for t after inv read the previous prediction: only inv(t(x)) is judged
            z, x2 = x1, x
        else:
            z = self.inv(x)
            x2 = self.t(z)
        self.t_current = True
        self.t_dirty = False
        self.inv_current = self.defined
        return {"x": x64, "y": y.detach().double().numpy(), "x1": x1.detach().double().numpy(),
                "z": z.detach().double().numpy(), "x2": x2.detach().double().numpy(),
                "bytes": tensor_bytes(y) + tensor_bytes(x1) + tensor_bytes(z) + tensor_bytes(x2)}

    def evaluate_direct(self):
        """The same compositions WITHOUT __call__ (no update() pre-hook): forward(), and points() with default arguments."""
        x64 = self.probe()
        x = _tensor(x64)
        t, inv = self.t, self.inv
        y = t.forward(x)
        x1 = inv.forward(y)
        z = inv.forward(x)
        x2 = t.forward(z)
        xs = x.reshape(x.shape[0], -1, x.shape[-1])
        yp = t.points(xs)
        x1p = inv.points(yp)
        self.t_current = True
        self.inv_current = True
        return {"x": x64, "y": y.detach().double().numpy(), "x1": x1.detach().double().numpy(),
                "z": z.detach().double().numpy(), "x2": x2.detach().double().numpy(),
                "xs": xs.detach().double().numpy(), "yp": yp.detach().double().numpy(), "x1p": x1p.detach().double().numpy(),
                "bytes": tensor_bytes(y) + tensor_bytes(x1) + tensor_bytes(z) + tensor_bytes(x2) + tensor_bytes(x1p)}

    def judge_direct(self, obs):
        probs, nt = self.judge_call(obs, both=True)
        pobs = {"x": obs["xs"], "y": obs["yp"], "x1": obs["x1p"], "z": obs["yp"], "x2": obs["xs"]}
        p2, _ = self.judge_call(pobs, both=False)
        probs = [("forward/" + k, d) for k, d in probs] + [("points/" + k, d) for k, d in p2]
        # dense models: disp() on the own grid is the tensor representation
        if self.pure_velocity:
            st, res = guarded(lambda: (self.t.disp(), self.t.tensor(), self.inv.disp(), self.inv.tensor()))
            if st == "raises":
                probs.append(("disp/" + raises_kind(res), exc_text(res)))
            elif not (torch.equal(res[0], res[1]) and torch.equal(res[2], res[3])):
                probs.append(("disp/differs-from-tensor", "disp() on the own grid is not the tensor() representation"))
        return probs, nt

    def judge_call(self, obs, both=None):
        """Problems [(kind, detail)] + nontrivial flag for an evaluation (both=None: both orders unless the predictor is stateful)."""
        out = []
        x = obs["x"]
        Ng = obs["y"].shape[0]
        second = not (both is False or (both is None and self.stateful))  # is t(inv(x)) judged (and was it evaluated at all)?
        if obs["x1"].shape != obs["y"].shape or (second and obs["x2"].shape != obs["y"].shape) or obs["y"].shape[1:] != x.shape[1:]:
            return [("shape", f"shapes y={obs['y'].shape} inv(y)={obs['x1'].shape} t(inv(x))={obs['x2'].shape}")], False
        xb = np.broadcast_to(x, obs["y"].shape)
        moved = float(np.abs(obs["y"] - xb).max())
        for name, got in (("inv(t(x))", obs["x1"]), ("t(inv(x))", obs["x2"])):
            if name == "t(inv(x))" and (both is False or (both is None and self.stateful)):
                continue
            if not np.all(np.isfinite(got)):
                out.append((f"{name}/non-finite", "result contains nan/inf"))
                continue
            if self.cfg["vel"]:
                r = self.rgrid
                unit = 2.0 / (r.n - 1) if r.ac else 2.0 / r.n
                A = self.velocity_amplitude()
                e = float((np.abs(got - xb) / unit).max())
                bound = 0.5 * A * A + 1e-4
                if self.linear_part():
                    # error of the velocity member is carried through the (inverse) linear members, condition <= 4
                    bound = 4.0 * bound + C * EPS32 * COND_BOUND * float(max(1.0, np.abs(obs["y"]).max())) * float((1.0 / unit).max())
                self._headroom(e / bound)
                if e > bound:
                    out.append((f"{name}/not-identity", f"max error {e:.4f} samples > 0.5*A^2 = {bound:.4f} (A = {A:.3f} samples)"))
            else:
                scale = max(1.0, float(np.abs(xb).max()), float(np.abs(obs["y"]).max()), float(np.abs(obs["z"]).max()))
                tol = C * EPS32 * scale * COND_BOUND
                e = float(np.abs(got - xb).max())
                self._headroom(e / tol)
                if e > tol:
                    out.append((f"{name}/not-identity", f"max error {e:.3e} cube units > tol {tol:.2e} (forward moves the probes by up to {moved:.3e})"))
        return out, moved > 1e-3

    def linear_part(self) -> bool:
        return self.cfg["desc"]["cls"] not in VELOCITY

    def _headroom(self, ratio: float):
        """Count judgements that used more than 10 % / 50 % of their tolerance (reported in the evidence)."""
        if self.acc is None or ratio > 1.0:
            return
        fam = "velocity" if self.cfg["vel"] else "linear"
        for thr in (0.1, 0.5):
            if ratio > thr:
                k = f"judgements_above_{thr}_of_tolerance_{fam}"
                self.acc.info[k] = self.acc.info.get(k, 0) + 1

    def velocity_amplitude(self) -> float:
        """Largest displacement (in samples) of the forward velocity members, read from their buffer u after evaluation."""
        A = 0.0
        for leaf in self.leaves:
            if type(leaf.module).__name__ in VELOCITY:
                u = leaf.module.__dict__.get("_buffers", {}).get("u", None)
                if u is None:
                    continue
                g = leaf.module.grid()
                n = np.array([float(v) for v in g.size()])
                unit = 2.0 / (n - 1) if g.align_corners() else 2.0 / n
                un = u.detach().double().numpy()
                for d in range(self.D):
                    A = max(A, float(np.abs(un[:, d]).max() / unit[d]))
        return A

    def judge_tensor(self):
        """Product of the tensor representations of t and inv, without __call__; only where buffers are documented current."""
        out = []
        st, res = guarded(lambda: (self.t.tensor(), self.inv.tensor()))
        if st == "raises":
            return [("tensor/" + raises_kind(res), exc_text(res))], None
        Tt, Ti = (v.detach().double().numpy() for v in res)
        D = self.D
        if Tt.ndim == 3:
            if Ti.ndim != 3 or Ti.shape[0] != Tt.shape[0]:
                return [("tensor/shape", f"t.tensor() {Tt.shape} inv.tensor() {Ti.shape}")], None
            e = 0.0
            for n in range(Tt.shape[0]):
                A, B = rt.as_hom(Tt[n]), rt.as_hom(Ti[n])
                for P in (rt.hom_compose(A, B), rt.hom_compose(B, A)):
                    e = max(e, float(np.abs(P - rt.hom(None, None, D)).max()))
            tol = C * EPS32 * COND_BOUND * 2
            if not np.isfinite(e) or e > tol:
                out.append(("tensor/product-not-identity", f"inv.tensor() x t.tensor() differs from identity by {e:.3e} (tol {tol:.1e})"))
        else:
            if Ti.shape != Tt.shape:
                return [("tensor/shape", f"t.tensor() {Tt.shape} inv.tensor() {Ti.shape}")], None
            r = self.rgrid
            if Tt.shape[2:] != tuple(int(v) for v in r.n[::-1]) or self.linear_part():
                return out, None  # composites with linear members: judged through __call__ only
            e, A = compose_error(Tt, Ti, r.ac)
            bound = 0.5 * A * A + 1e-4
            if e > bound:
                out.append(("tensor/composition-not-identity", f"u_t o u_inv differs from identity by {e:.4f} samples > {bound:.4f} (A = {A:.3f})"))
        return out, tensor_bytes(res[0]) + tensor_bytes(res[1])

    # -- canonical state -------------------------------------------------------------------------------------------
    def key(self) -> bytes:
        parts = [repr((self.has_inv, self.link, self.defined, self.t_current, self.inv_current, self.cond,
                       self.t_dirty, self.inv_fresh, self.inv_invalid, self.regridded)).encode()]
        fwd = {}
        for leaf in self.leaves:
            for p in self._param_tensors(leaf):
                parts.append(b"P" + tensor_bytes(p))
            fwd[leaf.path] = leaf.module
        if self.stateful:
            parts.append(repr([n.k % 3 for n in self.nets()]).encode())  # which menu entry the next invocation returns
        for who, root in (("t", self.t), ("i", self.inv)):
            if root is None:
                parts.append(b"none")
                continue
            for leaf in self.leaves:
                m = resolve(root, leaf.path, self.t)
                if m is None:
                    parts.append(b"missing")
                    continue
                d = m.__dict__
                prm = d.get("_parameters", {}).get("params", None)
                if prm is None:
                    prm = d.get("_buffers", {}).get("params", None)
                if prm is None:
                    prm = d.get("_modules", {}).get("params", None)
                if prm is None:
                    prm = d.get("params", None)
                f = fwd[leaf.path]
                if isinstance(prm, torch.Tensor):
                    rel = b"same" if prm is f.__dict__.get("_parameters", {}).get("params", f.__dict__.get("_buffers", {}).get("params")) else b"own:" + tensor_bytes(prm)
                elif prm is f and m is not f:
                    rel = b"linked"
                elif prm is leaf.net and prm is not None:
                    rel = b"net"
                else:
                    rel = repr(type(prm).__name__).encode()
                share = b"D1" if (m is not f and m.__dict__.get("_parameters") is f.__dict__.get("_parameters")) else b"D0"
                bufs = []
                current = self.t_current if who == "t" else self.inv_current
                for name in ("p", "u", "v"):
                    b_ = m.__dict__.get("_buffers", {}).get(name, None)
                    if name == "p" and b_ is not None and not current:
                        # The buffer of predicted / linked parameters is only read (tensor(), a linked inverse's update())
                        # in states where its owner is current; otherwise every use is preceded by update(), which overwrites
                        # it.  Its content must not enter the key: for callable parameters of the scaling / quaternion /
                        # homogeneous models it is uninitialised memory (torch.empty) until the first update().
                        bufs.append(b"p:not-current")
                        continue
                    bufs.append(name.encode() + (b"-" if b_ is None else tensor_bytes(b_)))
                extra = repr((getattr(m, "invert", None), getattr(getattr(m, "exp", None), "scale", None), m.__dict__.get("_args"))).encode()
                parts.append(who.encode() + rel + share + b"|".join(bufs) + extra)
            if who == "i":
                order = [n for n, _ in root.named_transforms()] if hasattr(root, "named_transforms") else []
                parts.append(repr((order, type(root.__dict__.get("params", None)).__name__)).encode())
        return b"#".join(parts)


def resolve(root, path, forward_root):
    """Member of `root` corresponding to the forward member at `path` (composite inverses reverse the order but keep names)."""
    m = root
    for name in path:
        tr = m.__dict__.get("_modules", {}).get("_transforms", None)
        if tr is None:
            return None
        if name not in tr:
            return None
        m = tr[name]
    return m


def grid_indices(r) -> np.ndarray:
    shape = tuple(int(v) for v in r.n[::-1])
    mesh = np.stack(np.meshgrid(*[np.arange(s, dtype=np.float64) for s in shape], indexing="ij"), axis=-1)
    return mesh.reshape(-1, r.D)[:, ::-1].copy()


def compose_error(ua: np.ndarray, ub: np.ndarray, ac: bool):
    """max over both orders of |x + b(x) + a(x + b(x)) - x| in samples; fields (N, D, ...) in cube units. Returns (err, amplitude)."""
    N, D = ua.shape[:2]
    shape = ua.shape[2:]
    n = np.array(shape[::-1], dtype=np.float64)
    unit = 2.0 / (n - 1) if ac else 2.0 / n
    idx = np.stack(np.meshgrid(*[np.arange(s, dtype=np.float64) for s in shape], indexing="ij"), axis=-1).reshape(-1, D)[:, ::-1]
    err, amp = 0.0, 0.0
    for k in range(N):
        for a, b in ((ua[k], ub[k]), (ub[k], ua[k])):
            bi = (b.reshape(D, -1).T) / unit  # displacement in samples at the grid points
            av, _ = rt.interp_nlinear(a, idx + bi)
            tot = bi + av / unit
            err = max(err, float(np.abs(tot).max()))
            amp = max(amp, float(np.abs(bi).max()))
    return err, amp


def raises_kind(e: BaseException) -> str:
    import traceback

    where = "outside-deepali"
    for fr in reversed(traceback.extract_tb(e.__traceback__)):
        if "/deepali/" in fr.filename:
            where = fr.filename.split("/deepali/")[-1].replace(".py", "").replace("/", ".") + "." + fr.name
            break
    return f"raises={type(e).__name__}@{where}"


# ---------------------------------------------------------------------------
def ops_sig(hist) -> str:
    """Argument form of a history for signatures: the way the inverse was made + the kinds of parameter change
    before / after it (sets, not sequences, so one defect gives few signatures; the full history is in the case)."""
    last = None
    for i, op in enumerate(hist):
        if op in MAKE_INV:
            last = i
    if last is None:
        return "no-inverse"
    change = ("edit_add", "edit_copy", "replace", "recond", "regrid")
    before = sorted(set(op for op in hist[:last] if op in change))
    after = sorted(set(op for op in hist[last + 1:] if op in change))
    s = hist[last]
    if before:
        s += "/before=" + "+".join(before)
    if after:
        s += "/after=" + "+".join(after)
    return s


def run_history(cfg, hist, acc: Acc = None, judge: bool = True):
    """Execute one history on fresh objects. Returns (key or None, [(sig, detail)], nontrivial, outcome_bytes)."""
    lab, fam = label(cfg["desc"]), family(cfg["desc"])
    tail = f"{lab}/kind={cfg['kind']}" + ("/mirror" if cfg.get("mirror") else "")
    out = []
    st, sysm = guarded(System, cfg)
    if st == "raises":
        return None, [(f"C07/construct/{fam}/{raises_kind(sysm)}/{tail}", exc_text(sysm))], False, b""
    sysm.acc = acc
    nontriv = False
    obytes = b""
    for i, op in enumerate(hist):
        if not sysm.enabled(op):
            return None, out, False, b"disabled"
        st, res = guarded(sysm.apply, op)
        if st == "raises":
            # an exception is named by the letter, its type and the innermost deepali frame (the history is in the case)
            out.append((f"C07/{op}/{fam}/{raises_kind(res)}/{tail}", exc_text(res)))
            return None, out, False, b"raise"
        if sysm.problems:
            for kind, detail in sysm.problems:
                out.append((f"C07/{op}/{fam}/{ops_sig(hist[: i + 1])}/{kind}/{tail}", detail))
            return None, out, False, b"problem"
        if op == "direct" and judge:
            probs, nt = sysm.judge_direct(res)
            nontriv |= nt
            obytes += res["bytes"]
            for kind, detail in probs:
                out.append((f"C07/direct/{fam}/{ops_sig(hist[: i + 1])}/{kind}/{tail}", detail))
            if probs:
                return None, out, nontriv, obytes
        if op == "call" and judge and sysm.defined:
            probs, nt = sysm.judge_call(res)
            nontriv |= nt
            obytes += res["bytes"]
            for kind, detail in probs:
                out.append((f"C07/call/{fam}/{ops_sig(hist[: i + 1])}/{kind}/{tail}", detail))
            if probs:
                return None, out, nontriv, obytes
    key = sysm.key()
    if not judge:
        return key, out, nontriv, obytes
    # judgement of the reached state
    if sysm.has_inv:
        if sysm.defined:
            if (sysm.t_current and sysm.inv_current) or sysm.direct_defined():
                probs, ob = sysm.judge_tensor()
                if ob:
                    obytes += ob
                for kind, detail in probs:
                    out.append((f"C07/state/{fam}/{ops_sig(hist)}/{kind}/{tail}", detail))
            elif acc is not None:
                acc.undef("tensor-level: buffers not documented current")
            if sysm.direct_defined():
                st, res = guarded(sysm.evaluate_direct)
                if st == "raises":
                    out.append((f"C07/state/{fam}/direct/{raises_kind(res)}/{tail}", exc_text(res)))
                else:
                    probs, nt = sysm.judge_direct(res)
                    nontriv |= nt
                    obytes += res["bytes"]
                    for kind, detail in probs:
                        out.append((f"C07/state/{fam}/{ops_sig(hist)}/direct/{kind}/{tail}", detail))
                    if acc is not None:
                        acc.info["direct_evaluations_judged"] = acc.info.get("direct_evaluations_judged", 0) + 1
            elif acc is not None:
                acc.undef("direct evaluation: update() required first (in-place edit / callable parameters / no update_buffers)")
            st, res = guarded(sysm.evaluate_call)
            if st == "raises":
                out.append((f"C07/state/{fam}/call/{raises_kind(res)}/{tail}", exc_text(res)))
            else:
                probs, nt = sysm.judge_call(res)
                probs = list(sysm.problems) + probs
                nontriv |= nt
                obytes += res["bytes"]
                for kind, detail in probs:
                    out.append((f"C07/state/{fam}/{ops_sig(hist)}/{kind}/{tail}", detail))
        elif acc is not None:
            acc.undef("unlinked inverse after the forward parameters were replaced")
    return key, out, nontriv, obytes


def explore(cfg, first_op: str, depth: int, acc: Acc):
    """State-dedup BFS over histories starting with first_op."""
    seen = set()
    frontier = [[first_op]]
    level = 1
    ckey = (label(cfg["desc"]), cfg["D"], cfg["ac"], cfg["kind"], cfg["N"], bool(cfg.get("mirror")))
    ck = cfg["kind"] in CALLABLE_KINDS
    if (first_op == "recond" and not ck) or (first_op == "replace" and ck) or (first_op == "edit_copy" and cfg["kind"] == "stateful") \
            or (first_op == "regrid" and (ck or cfg["desc"]["cls"] not in VELOCITY)):
        acc.undef("op-not-enabled:" + first_op)
        return
    while frontier and level <= depth:
        nxt = []
        for hist in frontier:
            key, probs, nontriv, ob = run_history(cfg, hist, acc)
            acc.trans(1)
            acc.info["replayed_prefix_steps"] = acc.info.get("replayed_prefix_steps", 0) + len(hist) - 1
            case = {"cfg": cfg, "hist": hist}
            for sig, detail in probs:
                acc.violation(sig, case, detail, size=len(hist))
            if ob == b"disabled":
                acc.undef("op-not-enabled")
                continue
            if key is None:
                acc.trace("history", depth=len(hist))
                continue
            k = h64(key)
            if k in seen:
                acc.info["merged_by_state_dedup"] = acc.info.get("merged_by_state_dedup", 0) + 1
                continue
            seen.add(k)
            acc.state(ckey, key)
            acc.trace("history", depth=len(hist))
            acc.outcome(ckey, ob)
            if nontriv:
                acc.nontriv(ckey, key)
            if len(acc.samples) < 1 and len(hist) >= depth:
                acc.sample({"config": {k_: cfg[k_] for k_ in ("D", "desc", "kind", "N", "ac")}, "history": hist})
            if level < depth:
                has_inv = any(o in MAKE_INV for o in hist)
                for op in OPS:
                    if op == "recond" and not ck:
                        continue
                    if op == "replace" and ck:
                        continue
                    if op == "edit_copy" and cfg["kind"] == "stateful":
                        continue
                    if op in NOT_FIRST and not has_inv:
                        continue
                    if op == "regrid" and (ck or cfg["desc"]["cls"] not in VELOCITY or "regrid" in hist):
                        continue
                    nxt.append(hist + [op])
        frontier = nxt
        level += 1


# ---------------------------------------------------------------------------
# order tests of the velocity models (amplitude pairs) and ExpFlow
def order_cases(tier: str, seed: int):
    out = []
    for D in (2, 3):
        for cls in VELOCITY:
            for ac in ((True,) if cls.endswith("FreeFormDeformation") else (True, False)):
                for form in MAKE_INV:
                    for variant in ((0, 1) if tier == "quick" else (0, 1, 2)):
                        for kind in (("buffer",) if tier == "quick" else ("buffer", "param")):
                            out.append({"sub": "order", "D": D, "cls": cls, "ac": ac, "form": form, "variant": variant, "kind": kind, "seed": seed})
    return out


def expflow_cases(tier: str, seed: int):
    out = []
    for D in (2, 3):
        for ac in (True, False):
            for steps in ((5, None) if tier == "quick" else (5, None, 7, 3)):
                for scale in (None, 0.5, -1.0):
                    for variant in (0, 1):
                        out.append({"sub": "expflow", "D": D, "ac": ac, "steps": steps, "scale": scale, "variant": variant, "seed": seed})
    return out


def run_order(case, acc: Acc = None):
    import deepali.spatial as S

    out = []
    D, ac, seed = case["D"], case["ac"], case["seed"]
    gspec = dict(grids(D)["big"])
    gspec["ac"] = ac
    grid = rg.real_grid(gspec)
    r = rg.ref_grid(gspec)
    unit = 2.0 / (r.n - 1) if ac else 2.0 / r.n
    cls = case["cls"]
    lab = SHORT[cls]
    errs = {}
    idx = grid_indices(r)
    x64 = rt.index_to_cube(idx, r.n, ac).reshape((1,) + tuple(int(v) for v in r.n[::-1]) + (D,))
    for A in (0.25, 0.5, 1.0):
        def make():
            kw = {"stride": 2} if cls.endswith("FreeFormDeformation") else {}
            t = getattr(S, cls)(grid, params=(case["kind"] == "param"), **kw)
            shape = tuple(t.data_shape)[1:]
            t.data_(_tensor(smooth_field(shape, D, ac, A, seed, case["variant"])))
            f = case["form"]
            inv = {"inv": lambda: t.inverse(), "inv_ub": lambda: t.inverse(update_buffers=True), "inv_link": lambda: t.inverse(link=True),
                   "inv_link_ub": lambda: t.inverse(link=True, update_buffers=True), "inv_prop": lambda: t.inv}[f]()
            x = _tensor(x64)
            y = t(x)
            x1 = inv(y)
            z = inv(x)
            x2 = t(z)
            return [v.detach().double().numpy() for v in (y, x1, z, x2)]
        st, res = guarded(make)
        if acc is not None:
            acc.trans(5)
        if st == "raises":
            out.append((f"C07/order/velocity/{case['form']}/{raises_kind(res)}/{lab}/kind={case['kind']}", exc_text(res)))
            return out
        y, x1, z, x2 = res
        amp = max(float((np.abs(y - x64) / unit).max()), float((np.abs(z - x64) / unit).max()))
        e = max(float((np.abs(x1 - x64) / unit).max()), float((np.abs(x2 - x64) / unit).max()))
        errs[A] = (e, amp)
        if acc is not None:
            acc.outcome("order", lab, case["form"], case["variant"], ac, D, A, tensor_bytes(torch.tensor(x1)))
        if e > 0.5 * amp * amp + 1e-4:
            out.append((f"C07/order/velocity/{case['form']}/not-identity/{lab}/kind={case['kind']}", f"A={A}: error {e:.4f} samples > 0.5*A_obs^2 = {0.5 * amp * amp:.4f}"))
    for A in (0.5, 1.0):
        e1, e0 = errs[A][0], errs[A / 2][0]
        if e1 > 6.0 * e0 + 1e-3:
            out.append((f"C07/order/velocity/{case['form']}/not-second-order/{lab}/kind={case['kind']}", f"err({A}) = {e1:.4f}, err({A / 2}) = {e0:.4f}: ratio {e1 / max(e0, 1e-12):.2f} > 6"))
    if acc is not None:
        acc.trace("order", depth=1)
        acc.state("order", lab, case["form"], case["variant"], ac, D, case["kind"])
        if errs[1.0][1] > 0.1:
            acc.nontriv("order", lab, case["form"], case["variant"], ac, D, case["kind"])
    return out


def run_expflow(case, acc: Acc = None):
    from deepali.modules import ExpFlow

    out = []
    D, ac, seed = case["D"], case["ac"], case["seed"]
    shape = tuple(grids(D)["big"]["size"][::-1])
    kw = {"align_corners": ac}
    if case["steps"] is not None:
        kw["steps"] = case["steps"]
    if case["scale"] is not None:
        kw["scale"] = case["scale"]
    form_tail = f"steps={case['steps']}/scale={case['scale']}"
    for A in (0.25, 0.5, 1.0):
        amp_field = A / abs(case["scale"] or 1.0)
        v = _tensor(smooth_field(shape, D, ac, amp_field, seed, case["variant"]))

        def make():
            exp = ExpFlow(**kw)
            u = exp(v)
            forms = {"inverse()": exp.inverse()(v), "inv": exp.inv(v), "forward(inverse=True)": exp(v, inverse=True),
                     "inverse().inverse()": exp.inverse().inverse()(v), "inverse()(inverse=True)": exp.inverse()(v, inverse=True)}
            return u, forms
        st, res = guarded(make)
        if acc is not None:
            acc.trans(6)
        if st == "raises":
            out.append((f"C07/expflow/module/{raises_kind(res)}/{form_tail}", exc_text(res)))
            return out
        u, forms = res
        un = u.detach().double().numpy()
        for name in ("inverse()", "inv", "forward(inverse=True)"):
            w = forms[name].detach().double().numpy()
            e, amp = compose_error(un, w, ac)
            if e > 0.5 * amp * amp + 1e-4:
                out.append((f"C07/expflow/module/{name}/not-identity/{form_tail}", f"A={A}: exp(v) o {name}(v) differs from identity by {e:.4f} samples > 0.5*A^2 = {0.5 * amp * amp:.4f}"))
            if acc is not None:
                acc.outcome("expflow", name, D, ac, case["steps"], case["scale"], case["variant"], A, tensor_bytes(forms[name]))
        for name in ("inverse().inverse()", "inverse()(inverse=True)"):
            if not torch.equal(forms[name], u):
                out.append((f"C07/expflow/module/{name}/not-forward/{form_tail}", f"A={A}: {name}(v) is not bit-identical to exp(v), max diff {(forms[name] - u).abs().max().item():.3e}"))
        if not torch.equal(forms["inverse()"], forms["forward(inverse=True)"]) or not torch.equal(forms["inverse()"], forms["inv"]):
            out.append((f"C07/expflow/module/forms-differ/{form_tail}", "inverse()(v), inv(v) and forward(v, inverse=True) are not bit-identical"))
    if acc is not None:
        acc.trace("expflow", depth=1)
        acc.state("expflow", D, ac, case["steps"], case["scale"], case["variant"])
        acc.nontriv("expflow", D, ac, case["steps"], case["scale"], case["variant"])
    return out


# ---------------------------------------------------------------------------
# layout sub-check: invertible transforms built from non-contiguous parameter tensors, evaluated on non-contiguous point sets
def layout_cases(tier: str, seed: int):
    out = []
    invs = ("inverse", "inv", "inverse_ub")
    pforms = ("transposed", "sliced", "expanded")
    for D in (2, 3):
        k = 0
        for cls in LS.classes(D, invertible_only=True):
            for form in LS.FORMS:
                for route in ("ctor", "data_"):
                    k += 1
                    combos = [(invs[k % 3], pforms[(k // 2) % 3], ("buffer", "param")[k % 2])]
                    if tier == "thorough":
                        combos = [(i_, p_, kd) for i_ in invs for p_ in pforms for kd in ("buffer", "param")]
                    for i_, p_, kd in combos:
                        out.append({"sub": "layout", "cls": cls, "D": D, "form": form, "route": route, "kind": kd, "inv": i_, "pform": p_, "seed": seed})
    return out


def run_layout(case, acc: Acc = None):
    out = []
    D, cls, form, seed = case["D"], case["cls"], case["form"], case["seed"]
    short = SHORT.get(cls, cls)
    vel = cls in VELOCITY
    gspec = dict(grids(D)["vel" if vel else "lin"])
    gspec["ac"] = True
    grid = rg.real_grid(gspec)
    N = 2
    where = f"{short}/{case['route']}[{case['kind']}]/{case['inv']}/points={case['pform']}"

    def emit(view, kind, detail):
        out.append((f"C07/layout/{where}/{view}/layout={form}/{kind}", detail))

    st, b = guarded(LS.build, cls, D, grid, N, case["kind"], case["route"], form, seed)
    if acc is not None:
        acc.trans(2)
    if st == "raises":
        emit("construct", raises_kind(b), exc_text(b))
        return out
    if b is None:
        if acc is not None:
            acc.undef("layout form not applicable to the parameter shape")
        return out
    t, r, supplied = b
    X = LS.probe_points(D, N)
    if LS.applicable(X, case["pform"]):
        xa, xb = LS.variant(X, case["pform"])
    else:
        xa, xb = X.clone(), X.clone()
    fpx = LS.fingerprint(xa)

    def mkinv(o):
        if case["inv"] == "inverse":
            return o.inverse()
        if case["inv"] == "inv":
            return o.inv
        return o.inverse(update_buffers=True)

    def run(o, x):
        i_ = mkinv(o)
        y = o(x)
        x1 = i_(y)
        z = i_(x)
        x2 = o(z)
        return y, x1, z, x2

    st1, a1 = guarded(run, t, xa)
    st2, a2 = guarded(run, r, xb)
    if acc is not None:
        acc.trans(10)
    if st2 == "raises":
        if acc is not None:
            acc.undef("contiguous form raises (judged by the history sub-check)")
        return out
    if st1 == "raises":
        emit("call", raises_kind(a1), exc_text(a1))
        return out
    for name, u, v in zip(("t(x)", "inv(t(x))", "inv(x)", "t(inv(x))"), a1, a2):
        c_ = LS.compare(u, v)
        if c_:
            emit(name, c_[0], c_[1])
    if not vel:
        xr = xb.double()
        scale = max(1.0, float(a1[0].abs().max()), float(a1[2].abs().max()))
        tol = C * EPS32 * scale * COND_BOUND
        for name, u in (("inv(t(x))", a1[1]), ("t(inv(x))", a1[3])):
            if tuple(u.shape) == tuple(xr.shape):
                e = float((u.double() - xr).abs().max())
                if not np.isfinite(e) or e > tol:
                    emit(name, "not-identity", f"max error {e:.3e} cube units > tol {tol:.2e}")
    bad = LS.mutated(supplied)
    if bad:
        emit("construct", "operand-mutated", f"parameter tensor(s) {bad} handed to the transform were modified")
    if LS.fingerprint(xa) != fpx:
        emit("call", "operand-mutated", "the point tensor handed to the transform was modified")
    if acc is not None:
        acc.trace("layout", depth=1)
        key = repr(sorted((k, str(v)) for k, v in case.items()))
        acc.state("layout", key)
        acc.nontriv("layout", key)
        acc.outcome("layout", key, tensor_bytes(a1[1]))
    return out



# ---------------------------------------------------------------------------
# chains of inverses: inverse of an inverse (of an inverse), every mix of the three ways to obtain one
CHAIN_STEPS = ("inv_prop", "inv_link", "inv")


def _chain_step(o, step: str):
    if step == "inv_prop":
        return o.inv
    if step == "inv_link":
        return o.inverse(link=True)
    return o.inverse()


def chain_cases(tier: str, seed: int):
    import itertools

    out = []
    for i, cfg in enumerate(configs(tier, seed)):
        if cfg["kind"] not in ("param", "buffer") or cfg.get("mirror") or cfg["N"] != 1 or not cfg["ac"]:
            continue
        for k in (2, 3):
            for steps in itertools.product(CHAIN_STEPS, repeat=k):
                out.append({"sub": "chain", "cfg": i, "tier": tier, "seed": seed, "steps": list(steps), "lab": f"{label(cfg['desc'])}/D{cfg['D']}/{cfg['kind']}"})
    return out


def run_chain(case, acc: Acc = None):
    """c_0 = t, c_i = step_i(c_{i-1}).  Judged: (c_{k-1}, c_k) is an inverse pair in both orders; c_k is the same map as
    t (k even) or as a fresh t.inverse() (k odd); when every step links, both still hold after an in-place edit of the
    forward parameters (the chain shares them)."""
    out = []
    cfg = configs(case["tier"], case["seed"])[case["cfg"]]
    steps = case["steps"]
    where = f"{family(cfg['desc'])}/{'.'.join(steps)}/{label(cfg['desc'])}/kind={cfg['kind']}"
    sysm = System(cfg)
    t0 = sysm.t

    def build():
        chain = [t0]
        for st_ in steps:
            chain.append(_chain_step(chain[-1], st_))
        return chain

    st, chain = guarded(build)
    if acc is not None:
        acc.trans(len(steps))
    if st == "raises":
        out.append((f"C07/chain/{where}/construct/{raises_kind(chain)}", exc_text(chain)))
        return out
    linked = all(s_ != "inv" for s_ in steps)

    def observe(tag):
        if cfg["vel"]:
            guarded(lambda: t0(_tensor(sysm.probe())))  # fills the buffers velocity_amplitude() reads (members of t0; copies hold equal values)
        sysm.t, sysm.inv = chain[-2], chain[-1]
        sysm.has_inv, sysm.link, sysm.defined, sysm.inv_invalid = True, steps[-1] != "inv", True, False
        st1, obs = guarded(sysm.evaluate_call)
        sysm.t = t0
        if acc is not None:
            acc.trans(4)
        if st1 == "raises":
            out.append((f"C07/chain/{where}/{tag}/call/{raises_kind(obs)}", exc_text(obs)))
            return None
        probs, nt = sysm.judge_call(obs, both=True)
        for kind, detail in probs:
            out.append((f"C07/chain/{where}/{tag}/{kind}", detail))
        # the end of the chain is the same map as t (even length) or as a fresh inverse of t (odd length)
        x = _tensor(sysm.probe())
        st2, pair = guarded(lambda: (chain[-1](x), (t0 if len(steps) % 2 == 0 else t0.inverse())(x)))
        if acc is not None:
            acc.trans(2)
        if st2 == "raises":
            out.append((f"C07/chain/{where}/{tag}/same-map/{raises_kind(pair)}", exc_text(pair)))
            return None
        a, b = (v.detach().double().numpy() for v in pair)
        tol = C * EPS32 * COND_BOUND * max(1.0, float(np.abs(b).max()))
        if a.shape != b.shape or not np.all(np.isfinite(a)) or float(np.abs(a - b).max()) > tol:
            e = float(np.abs(a - b).max()) if a.shape == b.shape else float("nan")
            out.append((f"C07/chain/{where}/{tag}/same-map/differs", f"chain end vs {'t' if len(steps) % 2 == 0 else 't.inverse()'}: max |diff| {e:.3e} > tol {tol:.2e}"))
        if acc is not None:
            acc.outcome("chain", where, tag, obs["bytes"])
            if nt:
                acc.nontriv("chain", where, tag)
        return obs

    observe("fresh")
    if linked and not out:
        st3, r3 = guarded(sysm.apply, "edit_add")
        if st3 == "raises":
            out.append((f"C07/chain/{where}/edit/{raises_kind(r3)}", exc_text(r3)))
        else:
            observe("after-edit")
    if acc is not None:
        acc.trace("chain", depth=len(steps))
        acc.state("chain", where)
    return out

# ---------------------------------------------------------------------------
def shards(tier: str, seed: int):
    out = []
    cf = configs(tier, seed)
    for i, cfg in enumerate(cf):
        if cfg["kind"] == "stateful" or cfg.get("mirror"):
            # shallow explorations: one shard per configuration (all first letters), the runner forks one process per shard
            out.append({"tier": tier, "seed": seed, "sub": "history", "cfg": i, "first": "*",
                        "lab": f"{label(cfg['desc'])}/D{cfg['D']}/{cfg['kind']}" + ("/mirror" if cfg.get("mirror") else "")})
            continue
        for op in OPS:
            if op in NOT_FIRST:
                continue  # not enabled in the initial state (no inverse yet)
            if op == "regrid" and (cfg["kind"] in CALLABLE_KINDS or cfg["desc"]["cls"] not in VELOCITY):
                continue
            out.append({"tier": tier, "seed": seed, "sub": "history", "cfg": i, "first": op, "lab": f"{label(cfg['desc'])}/D{cfg['D']}/{cfg['kind']}" + ("/mirror" if cfg.get("mirror") else "")})
    oc = order_cases(tier, seed)
    for i in range(0, len(oc), 4):
        out.append({"tier": tier, "seed": seed, "sub": "order", "lo": i, "hi": min(i + 4, len(oc))})
    ec = expflow_cases(tier, seed)
    for i in range(0, len(ec), 6):
        out.append({"tier": tier, "seed": seed, "sub": "expflow", "lo": i, "hi": min(i + 6, len(ec))})
    nc = len(chain_cases(tier, seed))
    for i in range(0, nc, 72):
        out.append({"tier": tier, "seed": seed, "sub": "chain", "lo": i, "hi": min(i + 72, nc)})
    nl = len(layout_cases(tier, seed))
    for i in range(0, nl, 32):
        out.append({"tier": tier, "seed": seed, "sub": "layout", "lo": i, "hi": min(i + 32, nl)})
    return out


def run_shard(shard) -> Acc:
    acc = Acc()
    tier, seed = shard["tier"], shard["seed"]
    if shard["sub"] == "history":
        cfg = configs(tier, seed)[shard["cfg"]]
        firsts = [op for op in OPS if op not in NOT_FIRST] if shard["first"] == "*" else [shard["first"]]
        for first in firsts:
            st, r = guarded(explore, cfg, first, depth_of(cfg, tier), acc)
            if st == "raises":
                acc.violation(f"C07/harness/{family(cfg['desc'])}/raises={type(r).__name__}/{label(cfg['desc'])}", {"cfg": cfg, "hist": [first], "harness": True}, exc_text(r), size=1)
        return acc
    cases = {"order": order_cases, "expflow": expflow_cases, "layout": layout_cases, "chain": chain_cases}[shard["sub"]](tier, seed)
    fn = {"order": run_order, "expflow": run_expflow, "layout": run_layout, "chain": run_chain}[shard["sub"]]
    for case in cases[shard["lo"]: shard["hi"]]:
        st, r = guarded(fn, case, acc)
        if st == "raises":
            acc.violation(f"C07/harness/{case['sub']}/raises={type(r).__name__}", {"case": case, "harness": True}, exc_text(r), size=1)
            continue
        for sig, detail in r:
            acc.violation(sig, {"case": case}, detail, size=1)
        if len(acc.samples) < 1:
            acc.sample({"case": case})
    return acc


def replay(case):
    if "case" in case:
        c = case["case"]
        fn = {"order": run_order, "expflow": run_expflow, "layout": run_layout, "chain": run_chain}[c["sub"]]
        st, r = guarded(fn, c, None)
        if st == "raises":
            return [(f"C07/harness/{c['sub']}/raises={type(r).__name__}", exc_text(r))]
        return r
    cfg, hist = case["cfg"], list(case["hist"])
    if case.get("harness"):
        acc = Acc()
        st, r = guarded(explore, cfg, hist[0], 2, acc)
        if st == "raises":
            return [(f"C07/harness/{family(cfg['desc'])}/raises={type(r).__name__}/{label(cfg['desc'])}", exc_text(r))]
        return []
    key, probs, _, _ = run_history(cfg, hist, None)
    return probs
