"""Shared helpers of the `layout` sub-checks of C06 and C07: spatial transforms built from NON-CONTIGUOUS user tensors.

Forms (ref/layout.py): transposed view, step-sliced view, stride-0 expanded batch; plus `permuted` (channels-last memory
of a dense field).  Every variant holds exactly the values of the contiguous form, so every result must equal the result of the
contiguous form (bit-identical, or within 64 eps where another kernel is legitimately selected), nothing may raise and the
supplied tensors (and the buffers they are views of) must stay unchanged (bits and _version).
"""
from __future__ import annotations

import numpy as np
import torch

from mc.core import tensor_bytes
from ref import layout as rl
from ref import transform as rt

EPS32 = 2.0 ** -23
FORMS = ("transposed", "sliced", "expanded", "permuted")

LINEAR = ("Translation", "EulerRotation", "QuaternionRotation", "IsotropicScaling", "AnisotropicScaling", "Shearing", "HomogeneousTransform")
COMPOSITE = {
    "RigidTransform": (("rotation", "EulerRotation"), ("translation", "Translation")),
    "RigidQuaternionTransform": (("rotation", "QuaternionRotation"), ("translation", "Translation")),
    "AffineTransform": (("scaling", "AnisotropicScaling"), ("rotation", "EulerRotation"), ("translation", "Translation")),
    "FullAffineTransform": (("scaling", "AnisotropicScaling"), ("shearing", "Shearing"), ("rotation", "EulerRotation"), ("translation", "Translation")),
}
DENSE = ("DisplacementFieldTransform", "StationaryVelocityFieldTransform", "FreeFormDeformation", "StationaryVelocityFreeFormDeformation")
INVERTIBLE = LINEAR + tuple(COMPOSITE) + ("StationaryVelocityFieldTransform", "StationaryVelocityFreeFormDeformation")


def classes(D: int, invertible_only: bool = False):
    out = [c for c in LINEAR if not (c == "QuaternionRotation" and D == 2)]
    out += [c for c in COMPOSITE if not (c == "RigidQuaternionTransform" and D == 2)]
    out += list(DENSE)
    if invertible_only:
        out = [c for c in out if c in INVERTIBLE]
    return out


def applicable(t: torch.Tensor, form: str) -> bool:
    if form == "permuted":
        return t.ndim >= 4 and t.shape[1] > 1
    if form == "expanded":
        return True
    return rl.applicable(t, form)


def relayout(t: torch.Tensor, form: str, n: int = 0) -> torch.Tensor:
    if form == "permuted":  # channels-last memory, logical shape unchanged
        perm = (0,) + tuple(range(2, t.ndim)) + (1,)
        inv = (0, t.ndim - 1) + tuple(range(1, t.ndim - 1))
        return t.permute(*perm).contiguous().permute(*inv)
    return rl.relayout(t, form, n)


def variant(value: torch.Tensor, form: str):
    """(non-contiguous tensor, contiguous reference tensor) with equal values; value has a leading group dimension."""
    if form == "expanded":
        n = value.shape[0]
        return relayout(value[0], "expanded", n), relayout(value[0], "repeat", n)
    return relayout(value, form), value.clone().contiguous()


def fingerprint(t: torch.Tensor):
    base = t._base if t._base is not None else t
    return (tensor_bytes(t), t._version, tensor_bytes(base), base._version)


def raw_values(cls: str, D: int, N: int, seed: int, shift: int = 0) -> torch.Tensor:
    v = rt.linear_values(cls, D, "small", N, seed + shift)
    return torch.tensor(np.asarray(v, dtype=np.float64), dtype=torch.float32)


def dense_values(shape, D: int, N: int, seed: int, ac: bool) -> torch.Tensor:
    return torch.tensor(rt.dense_field(shape, D, "small", N, seed, ac), dtype=torch.float32)


def build(cls: str, D: int, grid, N: int, kind: str, route: str, form: str, seed: int):
    """Build the transform from non-contiguous parameter tensors (form) and its twin from the contiguous form.

    Returns (t, t_ref, supplied) with supplied = [(tensor handed to deepali, fingerprint before)] or None if the form does not
    apply to any parameter tensor of the class."""
    import deepali.spatial as S

    supplied = []
    used = [False]

    def pair(value):
        if applicable(value if form != "expanded" else value, form):
            a, b = variant(value, form)
            used[0] = True
        else:
            a, b = value.clone().contiguous(), value.clone().contiguous()
        supplied.append((a, fingerprint(a)))
        return a, b

    def wrap(x):
        return torch.nn.Parameter(x) if kind == "param" else x

    flag = kind == "param"
    if cls in LINEAR:
        a, b = pair(raw_values(cls, D, N, seed))
        if route == "ctor":
            t, r = getattr(S, cls)(grid, groups=N, params=wrap(a)), getattr(S, cls)(grid, groups=N, params=wrap(b))
        else:
            t, r = getattr(S, cls)(grid, groups=N, params=flag), getattr(S, cls)(grid, groups=N, params=flag)
            t.data_(a)
            r.data_(b)
    elif cls in COMPOSITE:
        parts = COMPOSITE[cls]
        vals = {name: pair(raw_values(mcls, D, N, seed, j)) for j, (name, mcls) in enumerate(parts)}
        if route == "ctor":
            t = getattr(S, cls)(grid, groups=N, **{k: wrap(v[0]) for k, v in vals.items()})
            r = getattr(S, cls)(grid, groups=N, **{k: wrap(v[1]) for k, v in vals.items()})
        else:
            t = getattr(S, cls)(grid, groups=N, **{k: flag for k in vals})
            r = getattr(S, cls)(grid, groups=N, **{k: flag for k in vals})
            for k, v in vals.items():
                getattr(t, k).data_(v[0])
                getattr(r, k).data_(v[1])
    elif cls in DENSE:
        kw = {"stride": 2} if "FreeForm" in cls else {}
        scratch = getattr(S, cls)(grid, groups=N, params=False, **kw)
        shape = tuple(scratch.data_shape)[1:]
        a, b = pair(dense_values(shape, D, N, seed, grid.align_corners()))
        if route == "ctor":
            t, r = getattr(S, cls)(grid, groups=N, params=wrap(a), **kw), getattr(S, cls)(grid, groups=N, params=wrap(b), **kw)
        else:
            t, r = getattr(S, cls)(grid, groups=N, params=flag, **kw), getattr(S, cls)(grid, groups=N, params=flag, **kw)
            t.data_(a)
            r.data_(b)
    else:
        raise KeyError(cls)
    if not used[0]:
        return None
    return t, r, supplied


def mutated(supplied):
    return [i for i, (x, fp) in enumerate(supplied) if fingerprint(x) != fp]


def compare(out: torch.Tensor, ref: torch.Tensor):
    """None if equal (bitwise or within 64 eps of the magnitude), else (kind, detail)."""
    if not isinstance(out, torch.Tensor) or not isinstance(ref, torch.Tensor):
        return ("shape", f"result types {type(out).__name__} / {type(ref).__name__}")
    if tuple(out.shape) != tuple(ref.shape):
        return ("shape", f"shape {tuple(out.shape)} instead of {tuple(ref.shape)}")
    if torch.equal(out, ref):
        return None
    d = float((out.double() - ref.double()).abs().max())
    tol = 64 * EPS32 * max(1.0, float(ref.double().abs().max()))
    if not np.isfinite(d) or d > tol:
        return ("value", f"differs from the contiguous form by {d:.3e} (tol {tol:.1e})")
    return None


def probe_points(D: int, N: int) -> torch.Tensor:
    """(N, M, D) point sets in cube coordinates, M = 5 (so that M != D and views are genuinely non-contiguous)."""
    base = np.array([[0.0, 0.0, 0.0], [0.5, 0.1, -0.2], [-0.3, 0.5, 0.4], [-0.35, 0.62, 0.27], [0.71, -0.55, -0.4]])[:, :D]
    return torch.tensor(np.stack([base * (1.0 - 0.15 * n) for n in range(N)]), dtype=torch.float32)
