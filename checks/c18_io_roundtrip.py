"""C18 - images and flow fields survive a write/read round trip in every supported format.

The configuration space is finite and enumerated completely:
  format x D x channels x dtype x grid x compress  (x size in the thorough tier)
and for every configuration every (chain, entry point, path form) case:

  d2d   deepali write -> deepali read (== original) -> SimpleITK cross-read of the same file (== original)
        -> Grid.from_file (== grid) -> deepali write of what was read -> deepali read (fixpoint)
  s2d   SimpleITK writes an image built from numpy alone -> deepali read (== what SimpleITK itself reads,
        and == original where SimpleITK's own round trip preserves it) -> Grid.from_file
        -> deepali write of what was read -> SimpleITK read (== first SimpleITK reading)
  flow  (channels == D, float types) FlowField in each of the 4 start representations: write (default:
        world vectors, checked through SimpleITK) -> read (WORLD label) -> .axes(start) returns the
        original; explicit form write(axes=a) / read(axes=a) returns the stored tensor exactly

  layout (reduced menu) the data tensor that is written is a non-contiguous view (transposed, step-sliced, stride-0
        expanded channels): file content (SimpleITK) and read-back equal its values exactly, operand untouched
  entry points: write_image/read_image, Image.write/Image.read(align_corners=flag), Image.to_uri/from_uri;
  path forms str, pathlib.Path, file:// URI.
Oracle: voxel values equal exactly (value-wise, and the dtype is the stored dtype), channel count, size;
origin / spacing / direction within float32 precision (8 ulp(float32); the grid menu includes values that need all
9 significant digits, a large-magnitude origin and spacings down to 1e-3).
"""
from __future__ import annotations

import os
import shutil
import tempfile
from pathlib import Path

import numpy as np
import torch

from mc.core import Acc, h64
from mc.core import exc_text as _exc_text
from mc.core import guarded as _guarded
from ref import flowfield as ff
from ref import grid as rg
from ref.grid import AXES, WORLD, RefGrid


def guarded(fn, *a, **kw):
    """mc.core.guarded + defusing of the caught exception: its text (with the deepali file:line) is computed at once and
    the traceback frames are cleared immediately. Otherwise the frames of the failed library call (e.g. a BytesIO with an
    exported memoryview inside the MetaImage reader) stay alive until the cyclic garbage collector frees them in
    arbitrary order, which was seen to crash the interpreter (segmentation fault during GC) on a mutated tree."""
    import traceback

    st, v = _guarded(fn, *a, **kw)
    if st == "raises":
        try:
            v._verif_text = _exc_text(v)
            traceback.clear_frames(v.__traceback__)
        except Exception:  # noqa: BLE001
            pass
        v.__traceback__ = None
        v.__context__ = None
        v.__cause__ = None
    return st, v


def exc_text(e):
    return getattr(e, "_verif_text", None) or _exc_text(e)


def _sweep_stale_tmp(prefix="c18-", older_than_s=3600.0):
    """Temp directories of workers that were killed (pool.terminate on a budget cap) never reach their `finally`:
    remove our own leftovers that are older than an hour. Never part of any hash or verdict."""
    import os, shutil, time

    root = os.environ.get("VERIF_TMP", "/var/tmp")
    try:
        for name in os.listdir(root):
            if name.startswith(prefix):
                q = os.path.join(root, name)
                if time.time() - os.path.getmtime(q) > older_than_s:
                    shutil.rmtree(q, ignore_errors=True)
    except OSError:
        pass


PROPERTY = "C18"
RULE = (
    "complete product format x D x channels x dtype x grid x compress (x size, thorough) and, per configuration, every "
    "(chain in {d2d, s2d, flow, layout}, entry point, path form / start representation / memory layout of the written tensor) case, each a chain of <= 2 write->read "
    "rounds on real files in a private temp directory; distinct outcome = (stage statuses, bytes of the data read back, "
    "grid read back); non-trivial = a chain that completed a read whose data has > 4 distinct values on a grid or layout "
    "that differs from the default (non-default grid, > 1 channel, or D = 2)"
)
EXPLANATION = "exhaustive enumeration of the I/O configuration space (incl. non-contiguous data on a reduced menu) with write->read chains judged against numpy/SimpleITK"
ASSUMPTIONS = [
    "SimpleITK 2.5 (ITK MetaIO / NIfTI / NRRD readers and writers) and numpy are the trusted base; a format/dtype that SimpleITK itself cannot write or does not preserve is counted as undefined for the s2d direction",
    "header tolerances (copies, not computations): 8 ulp(float32) = 8 x 2^-23 x (|center| + extent) for origin (origin<->center conversions inside Grid, worst case 5.5 ulp), 8 x 2^-23 relative for spacing, 8 x 2^-23 absolute for direction cosines; measured <= 0.7 ulp; grids 'scan' and 'fine' need all 9 significant digits",
    "values must be equal exactly and the returned dtype must be the stored dtype (all five listed dtypes are native in every listed format)",
    "sizes with one single-sample axis ((X,1), (1,Y), (X,Y,1), (X,1,Z), (1,Y,Z)) are enumerated for every format; the grid read back must have the D written. Undefined: NIfTI vector images with a trailing single-sample axis (ITK's vector convention cannot represent them; SimpleITK itself does not preserve them) and the CUBE_CORNERS start representation of a flow field on such a grid",
    "sizes <= 7 per axis; .nia is excluded (neither nibabel nor SimpleITK handle it)",
]
MIN_NONTRIVIAL = {"quick": 7500, "thorough": 35000}
MIN_OUTCOMES = {"quick": 800, "thorough": 3800}
MIN_SUB_TRACES = {"d2d": 3600, "s2d": 3600, "flow": 600, "layout": 200}

EPS32 = 2.0 ** -23
C = 64.0  # computed quantities (flow vector conversions)
# Header fields are COPIES, not computations: a float32 attribute is printed / stored and parsed again. The only
# arithmetic is origin <-> center inside Grid (two conversions of D+2 roundings each at magnitude |center| + extent,
# plus input rounding: <= (2D+5)/2 ulp = 5.5 ulp for D = 3) and, for NIfTI, direction*spacing products and column norms
# (<= 2.5 ulp). Tolerance 8 ulp(float32); measured on the unchanged tree <= 0.7 ulp for every format, stage and seed.
# A header written with 6 significant digits ("%g") is off by up to 42 ulp.
HDR_K = 8.0
NP_DT = {"uint8": np.uint8, "int16": np.int16, "int32": np.int32, "float32": np.float32, "float64": np.float64}
TORCH_DT = {"uint8": torch.uint8, "int16": torch.int16, "int32": torch.int32, "float32": torch.float32, "float64": torch.float64}


# ---------------------------------------------------------------------------
def formats(tier):
    f = [".mha", ".mhd", ".nii", ".nii.gz", ".nrrd"]
    if tier == "thorough":
        f += [".hdr", ".img", ".img.gz", ".nhdr"]
    return f


def sizes(D, tier):
    s = [(4, 3)] if D == 2 else [(4, 3, 2)]
    if tier == "thorough":
        s += [(7, 5)] if D == 2 else [(5, 6, 4)]
    return s


def grid_spec(D, size, gk, seed):
    dirs = rg.direction_menu(D, seed)
    if gk == "default":
        return {"size": list(size), "spacing": [1.0] * D, "center": [0.0] * D, "direction": None, "ac": True}
    if gk == "scan":  # scanner-like values that need all 9 significant digits of a float32; generic rotation
        return {"size": list(size), "spacing": [1.2345649, 0.98765432, 2.3456789][:D], "origin": [-123.456789, 98.7654321, 1234.56489][:D],
                "direction": dirs["rot"], "ac": True}
    if gk == "fine":  # tiny spacings (1e-2 .. 1e-3) and small origin with 9 significant digits; signed permutation
        return {"size": list(size), "spacing": [0.012345678, 0.0012345649, 0.0045678912][:D], "origin": [0.123456789, -0.0123456489, 1.23456789][:D],
                "direction": dirs["perm"], "ac": True}
    sp = [0.5, 1.25, 2.0][:D]
    org = [10.5, -3.25, 100.0][:D]
    return {"size": list(size), "spacing": sp, "origin": org, "direction": dirs["perm" if gk == "perm" else "rot"], "ac": True}


GRID_KINDS = ("default", "perm", "rot", "scan", "fine")


def grid_kinds(tier):
    """Quick tier: 4 kinds ('fine' carries the signed permutation, 'scan' and 'rot' the generic rotation); thorough: all 5."""
    return GRID_KINDS if tier == "thorough" else ("default", "rot", "scan", "fine")


def singleton_sizes(D):
    """Sizes with one single-sample axis: the D of the grid read back must still be the D written."""
    return [(4, 1), (1, 3)] if D == 2 else [(4, 3, 1), (4, 1, 2), (1, 3, 2)]


def singleton_factors(tier, D):
    """(channels, dtypes, grid kinds) crossed with the singleton sizes: thinned in the quick tier, full in thorough."""
    if tier == "thorough":
        return (1, 2, 3), tuple(NP_DT), grid_kinds(tier)
    return (1, D), ("float32",), ("default", "scan")


def configs(tier, seed):
    out = _regular_configs(tier, seed)
    for fmt in formats(tier):
        for D in (2, 3):
            chans, dts, gks = singleton_factors(tier, D)
            for Cn in chans:
                for dt in dts:
                    for size in singleton_sizes(D):
                        for gk in gks:
                            for compress in (True, False):
                                out.append({"fmt": fmt, "D": D, "C": Cn, "dt": dt, "size": list(size), "gk": gk,
                                            "grid": grid_spec(D, size, gk, seed), "compress": compress, "seed": seed})
    return out


def _regular_configs(tier, seed):
    out = []
    for fmt in formats(tier):
        for D in (2, 3):
            for Cn in (1, 2, 3):
                for dt in NP_DT:
                    for size in sizes(D, tier):
                        for gk in grid_kinds(tier):
                            for compress in (True, False):
                                out.append({"fmt": fmt, "D": D, "C": Cn, "dt": dt, "size": list(size), "gk": gk,
                                            "grid": grid_spec(D, size, gk, seed), "compress": compress, "seed": seed})
    return out


def bounds(tier):
    return {
        "formats": formats(tier), "D": [2, 3], "channels": [1, 2, 3], "dtypes": list(NP_DT), "grids": list(grid_kinds(tier)),
        "compress": [True, False], "sizes": {"2": [list(s) for s in sizes(2, tier)], "3": [list(s) for s in sizes(3, tier)]},
        "singleton_sizes": {"2": [list(s) for s in singleton_sizes(2)], "3": [list(s) for s in singleton_sizes(3)]},
        "singleton_factors": {"channels": list(singleton_factors(tier, 3)[0]), "dtypes": list(singleton_factors(tier, 3)[1]), "grids": list(singleton_factors(tier, 3)[2])},
        "configurations": len(configs(tier, 0)), "chains": ["d2d", "s2d", "flow", "layout"],
        "layout": {"forms": list(LAYOUTS), "entries": ["write_image", "Image.write", "FlowField.write"], "menu": "grid scan x regular size x dtypes {int16, float32} x channels {1, D} x compress {T,F} x every format"},
        "entry_points": ["write_image/read_image", "Image.write/Image.read", "Image.to_uri/Image.from_uri", "Grid.from_file", "FlowField.write/read"],
        "path_forms": ["str", "pathlib.Path", "file:// URI (Image.to_uri/from_uri)"], "max_write_read_rounds": 2,
    }


def make_data(cfg) -> np.ndarray:
    """Deterministic voxel values (C, *shape) exercising the full range / precision of the dtype."""
    D, Cn, dt = cfg["D"], cfg["C"], cfg["dt"]
    shape = tuple(cfg["size"][::-1])
    n = int(np.prod(shape)) * Cn
    k = np.arange(n, dtype=np.int64)
    if dt == "uint8":
        v = (k * 37 + 11) % 256
    elif dt == "int16":
        v = (k * 2749 + 123) % 65536 - 32768
    elif dt == "int32":
        v = (k * 104729 * 997 + 70001) % (2 ** 32) - 2 ** 31
    elif dt == "float32":
        v = ((k - n / 3.0) * 0.37 + 1.0 / 3.0).astype(np.float32)
        v[1 % n] = np.float32(1e-20)
        v[2 % n] = np.float32(-3e20)
    else:
        v = (k - n / 3.0) * 0.37 + 1.0 / 3.0
        v[1 % n] = 1.0000000000000002
        v[2 % n] = -3e200
    return np.asarray(v).astype(NP_DT[dt]).reshape((Cn,) + shape)


def file_name(cfg, stem):
    return stem + cfg["fmt"]


# ---------------------------------------------------------------------------
class Rec:
    def __init__(self):
        self.problems = []
        self.trans = 0
        self.stages = []  # (stage, status) for the outcome hash
        self.undef = []
        self.nontrivial = False
        self.completed = False

    def add(self, sig, detail):
        self.problems.append((sig, detail))

    def call(self, fn, *a, **kw):
        self.trans += 1
        return guarded(fn, *a, **kw)


def sig_prefix(cfg, chain, entry):
    return f"C18/{chain}/{entry}/fmt={cfg['fmt']}/D={cfg['D']}/ch={'1' if cfg['C'] == 1 else 'n'}"


def judge_data(rec: Rec, pre: str, cfg, obs, exp: np.ndarray) -> bool:
    """obs: tensor returned by deepali (C, *shape); exp: numpy (C, *shape) of the stored dtype."""
    if not isinstance(obs, torch.Tensor):
        rec.add(f"{pre}/type", f"data is {type(obs).__name__}")
        return False
    if obs.ndim != exp.ndim:
        rec.add(f"{pre}/ndim", f"data shape {tuple(obs.shape)} expected {exp.shape}")
        return False
    if obs.shape[0] != exp.shape[0]:
        rec.add(f"{pre}/channels", f"data shape {tuple(obs.shape)} expected {exp.shape}")
        return False
    if tuple(obs.shape) != exp.shape:
        rec.add(f"{pre}/size", f"data shape {tuple(obs.shape)} expected {exp.shape}")
        return False
    ok = True
    o = obs.detach().cpu().numpy()
    if o.dtype != exp.dtype:
        rec.add(f"{pre}/dtype/dt={cfg['dt']}", f"returned dtype {o.dtype}, stored {exp.dtype}")
        ok = False
    wide = np.float64 if (np.issubdtype(exp.dtype, np.floating) or np.issubdtype(o.dtype, np.floating)) else np.int64
    if not np.array_equal(o.astype(wide), exp.astype(wide)):
        bad = int(np.sum(o.astype(wide) != exp.astype(wide)))
        rec.add(f"{pre}/values/dt={cfg['dt']}", f"{bad} of {exp.size} voxel values differ (first: {o.reshape(-1)[:3].tolist()} expected {exp.reshape(-1)[:3].tolist()})")
        ok = False
    return ok


def header_problems(D, size, origin, spacing, direction, r: RefGrid):
    """Compare a header (float64 arrays) with the reference grid; returns list of (kind, detail)."""
    out = []
    if len(size) != r.D:
        return [("grid-ndim", f"{len(size)}-D grid {list(size)}, expected {r.D}-D")]
    if not np.array_equal(np.asarray(size, dtype=np.float64), r.n):
        return [("grid-size", f"size {list(size)} expected {r.n.tolist()}")]
    sc = r.scale()
    if np.any(np.abs(origin - r.origin) > HDR_K * EPS32 * sc):
        out.append(("origin", f"origin {np.asarray(origin).tolist()} expected {r.origin.tolist()}"))
    if np.any(np.abs(spacing - r.s) > HDR_K * EPS32 * r.s):
        out.append(("spacing", f"spacing {np.asarray(spacing).tolist()} expected {r.s.tolist()}"))
    if np.any(np.abs(direction - r.R) > HDR_K * EPS32):
        out.append(("direction", f"direction {np.asarray(direction).reshape(-1).tolist()} expected {r.R.reshape(-1).tolist()}"))
    return out


def judge_grid(rec: Rec, pre: str, cfg, g, r: RefGrid) -> bool:
    from deepali.core.grid import Grid

    if not isinstance(g, Grid):
        rec.add(f"{pre}/type", f"grid is {type(g).__name__}")
        return False
    st, h = guarded(lambda: (tuple(g.size()), g.origin().double().numpy(), g.spacing().double().numpy(), g.direction().double().numpy()))
    if st == "raises":
        rec.add(f"{pre}/grid-unobservable", exc_text(h))
        return False
    probs = header_problems(cfg["D"], h[0], h[1], h[2], h[3], r)
    for kind, detail in probs:
        rec.add(f"{pre}/{kind}/grid={cfg['gk']}", detail)
    return not probs


def judge_sitk(rec: Rec, pre: str, cfg, img, exp: np.ndarray, r: RefGrid) -> bool:
    """A SimpleITK image (read from a file) against expected data (C, *shape) and grid."""
    import SimpleITK as sitk

    D, Cn = cfg["D"], exp.shape[0]
    if img.GetDimension() != D:
        rec.add(f"{pre}/ndim", f"SimpleITK sees a {img.GetDimension()}-D image of size {img.GetSize()}, expected {D}-D")
        return False
    if img.GetNumberOfComponentsPerPixel() != Cn:
        rec.add(f"{pre}/channels", f"SimpleITK sees {img.GetNumberOfComponentsPerPixel()} components, expected {Cn}")
        return False
    arr = sitk.GetArrayFromImage(img)
    arr = np.moveaxis(arr, -1, 0) if Cn > 1 else arr[None]
    ok = True
    if arr.shape != exp.shape:
        rec.add(f"{pre}/size", f"SimpleITK sees shape {arr.shape} expected {exp.shape}")
        return False
    if arr.dtype != exp.dtype:
        rec.add(f"{pre}/dtype/dt={cfg['dt']}", f"SimpleITK sees dtype {arr.dtype}, stored {exp.dtype}")
        ok = False
    wide = np.float64 if (np.issubdtype(exp.dtype, np.floating) or np.issubdtype(arr.dtype, np.floating)) else np.int64
    if not np.array_equal(arr.astype(wide), exp.astype(wide)):
        rec.add(f"{pre}/values/dt={cfg['dt']}", f"SimpleITK sees different voxel values (first: {arr.reshape(-1)[:3].tolist()} expected {exp.reshape(-1)[:3].tolist()})")
        ok = False
    probs = header_problems(D, img.GetSize(), np.array(img.GetOrigin()), np.array(img.GetSpacing()), np.array(img.GetDirection()).reshape(D, D), r)
    for kind, detail in probs:
        rec.add(f"{pre}/{kind}/grid={cfg['gk']}", "SimpleITK sees " + detail)
    return ok and not probs


def sitk_image(cfg, data: np.ndarray, r: RefGrid):
    """Build a SimpleITK image from numpy and the reference grid only."""
    import SimpleITK as sitk

    Cn = data.shape[0]
    arr = np.moveaxis(data, 0, -1) if Cn > 1 else data[0]
    img = sitk.GetImageFromArray(np.ascontiguousarray(arr), isVector=Cn > 1)
    img.SetOrigin([float(v) for v in r.origin])
    img.SetSpacing([float(v) for v in r.s])
    img.SetDirection([float(v) for v in r.R.reshape(-1)])
    return img


NIFTI_SUFFIXES = (".nii", ".nii.gz", ".hdr", ".img", ".img.gz", ".hdr.gz", ".nia")
NIFTI_VECTOR_REASON = (
    "NIfTI vector image whose LAST spatial axis has one sample: the vector convention (dim = [5, nx, ny, nz, 1, C], spatial "
    "dimension = last non-singleton axis; ITK itkNiftiImageIO.cxx L1112-1156, cited by deepali's reader and followed by its "
    "writer) cannot tell it from an image of one dimension less - SimpleITK does not preserve it either"
)


def nifti_cannot_represent(cfg) -> bool:
    return cfg["fmt"] in NIFTI_SUFFIXES and cfg["C"] > 1 and cfg["size"][-1] == 1


def pathform(p: str, form: str):
    if form == "uri":
        return "file://" + p
    return Path(p) if form == "Path" else p


def local_path(p):
    """Grid.from_file takes a local path only (PathStr)."""
    return p[len("file://"):] if isinstance(p, str) and p.startswith("file://") else p


def do_write(rec: Rec, entry: str, data_t, grid, path, compress):
    from deepali.data.image import Image
    from deepali.utils.imageio import write_image

    if entry == "func":
        return rec.call(write_image, data_t, grid, path, compress=compress)
    if isinstance(path, str) and path.startswith("file://"):
        return rec.call(lambda: Image(data_t, grid).to_uri(path, compress=compress))
    return rec.call(lambda: Image(data_t, grid).write(path, compress=compress))


def do_read(rec: Rec, entry: str, path, flag: bool):
    """Returns ("ok", (tensor, grid)) or ("raises", exc)."""
    from deepali.data.image import Image
    from deepali.utils.imageio import read_image

    if entry == "func":
        return rec.call(read_image, path)
    if isinstance(path, str) and path.startswith("file://"):
        st, im = rec.call(Image.from_uri, path, align_corners=flag)
    else:
        st, im = rec.call(Image.read, path, align_corners=flag)
    if st == "raises":
        return st, im
    if not isinstance(im, Image):
        return "raises", TypeError(f"Image.read returned {type(im).__name__}")
    return guarded(lambda: (im.tensor(), im.grid()))


def read_back_key(data_t, grid):
    try:
        return h64(str(data_t.dtype), tuple(data_t.shape), data_t.detach().cpu().contiguous().numpy().tobytes(),
                   grid.size_tensor().numpy().tobytes(), grid.origin().numpy().tobytes(), grid.spacing().numpy().tobytes(), grid.direction().numpy().tobytes())
    except Exception:  # noqa: BLE001
        return h64("unobservable")


def mark_nontrivial(rec: Rec, cfg, data_np):
    if len(np.unique(data_np)) > 4 and (cfg["gk"] != "default" or cfg["C"] > 1 or cfg["D"] == 2):
        rec.nontrivial = True


# ---------------------------------------------------------------------------
def run_d2d(cfg, entry: str, pform: str, tmp: str) -> Rec:
    import SimpleITK as sitk
    from deepali.core.grid import Grid

    rec = Rec()
    if nifti_cannot_represent(cfg):
        rec.undef.append(NIFTI_VECTOR_REASON)
        return rec
    pre = sig_prefix(cfg, "d2d", f"{entry}:{pform}")
    r = rg.ref_grid(cfg["grid"])
    data = make_data(cfg)
    flag = bool((cfg["C"] + cfg["D"]) % 2)
    st, grid = guarded(rg.real_grid, cfg["grid"])
    if st == "raises":
        rec.add(f"C18/construct-grid/raises={type(grid).__name__}", exc_text(grid))
        return rec
    data_t = torch.from_numpy(data.copy())
    d1 = os.path.join(tmp, "a")
    os.makedirs(d1, exist_ok=True)
    p1 = os.path.join(d1, file_name(cfg, "img"))
    st, res = do_write(rec, entry, data_t, grid, pathform(p1, pform), cfg["compress"])
    rec.stages.append(("w1", st))
    if st == "raises":
        rec.add(f"{pre}/w1/raises={type(res).__name__}", exc_text(res))
        return rec
    if not os.path.exists(p1):
        rec.add(f"{pre}/w1/no-file", "write returned without creating the file")
        return rec
    # SimpleITK reads the file written by the library
    st, img = guarded(sitk.ReadImage, p1)
    rec.stages.append(("sitk1", st))
    if st == "raises":
        rec.add(f"{pre}/sitk1/unreadable", "SimpleITK cannot read the file written by the library: " + str(img).strip().split("\n")[-1][:200])
    else:
        judge_sitk(rec, f"{pre}/sitk1", cfg, img, data, r)
    st, gf = rec.call(Grid.from_file, local_path(pathform(p1, pform)), align_corners=flag)
    rec.stages.append(("gridfile1", st))
    if st == "raises":
        rec.add(f"{pre}/gridfile1/raises={type(gf).__name__}", exc_text(gf))
    else:
        judge_grid(rec, f"{pre}/gridfile1", cfg, gf, r)
        if isinstance(gf, Grid) and bool(gf.align_corners()) != flag:
            rec.add(f"{pre}/gridfile1/flag", "align_corners argument not applied")
    # the library reads its own file
    st, res = do_read(rec, entry, pathform(p1, pform), flag)
    rec.stages.append(("r1", st))
    if st == "raises":
        rec.add(f"{pre}/r1/raises={type(res).__name__}", exc_text(res))
        return rec
    d_1, g_1 = res
    ok = judge_data(rec, f"{pre}/r1", cfg, d_1, data)
    ok = judge_grid(rec, f"{pre}/r1", cfg, g_1, r) and ok
    if entry == "Image" and ok and bool(g_1.align_corners()) != flag:
        rec.add(f"{pre}/r1/flag", "align_corners argument not applied")
    rec.stages.append(("r1key", read_back_key(d_1, g_1) if isinstance(d_1, torch.Tensor) else 0))
    mark_nontrivial(rec, cfg, data)
    if not ok:
        return rec
    # second round: write what was read, read again -> fixpoint
    d2 = os.path.join(tmp, "b")
    os.makedirs(d2, exist_ok=True)
    p2 = os.path.join(d2, file_name(cfg, "img"))
    st, res = do_write(rec, entry, d_1, g_1, pathform(p2, pform), cfg["compress"])
    rec.stages.append(("w2", st))
    if st == "raises":
        rec.add(f"{pre}/w2/raises={type(res).__name__}", exc_text(res))
        return rec
    st, res = do_read(rec, entry, pathform(p2, pform), flag)
    rec.stages.append(("r2", st))
    if st == "raises":
        rec.add(f"{pre}/r2/raises={type(res).__name__}", exc_text(res))
        return rec
    d_2, g_2 = res
    st, same = guarded(lambda: d_2.dtype == d_1.dtype and d_2.shape == d_1.shape and torch.equal(d_2, d_1))
    if st == "raises" or not same:
        rec.add(f"{pre}/r2/fixpoint-values/dt={cfg['dt']}", "second write->read round changed the voxel data")
    r1 = RefGrid.from_real(g_1)
    st, h = guarded(lambda: (tuple(g_2.size()), g_2.origin().double().numpy(), g_2.spacing().double().numpy(), g_2.direction().double().numpy()))
    if st == "raises":
        rec.add(f"{pre}/r2/grid-unobservable", exc_text(h))
    else:
        o1 = g_1.origin().double().numpy()
        sc = r1.scale()
        if tuple(g_1.size()) != h[0] or np.any(np.abs(h[1] - o1) > HDR_K * EPS32 * sc) or np.any(np.abs(h[2] - r1.s) > HDR_K * EPS32 * r1.s) or np.any(np.abs(h[3] - r1.R) > HDR_K * EPS32):
            rec.add(f"{pre}/r2/fixpoint-grid/grid={cfg['gk']}", f"second round changed the grid: origin {h[1].tolist()} vs {o1.tolist()}, spacing {h[2].tolist()} vs {r1.s.tolist()}")
    rec.completed = True
    return rec


def run_s2d(cfg, entry: str, pform: str, tmp: str) -> Rec:
    import SimpleITK as sitk
    from deepali.core.grid import Grid

    rec = Rec()
    pre = sig_prefix(cfg, "s2d", f"{entry}:{pform}")
    r = rg.ref_grid(cfg["grid"])
    data = make_data(cfg)
    flag = bool((cfg["C"] + cfg["D"] + 1) % 2)
    d1 = os.path.join(tmp, "a")
    os.makedirs(d1, exist_ok=True)
    p1 = os.path.join(d1, file_name(cfg, "img"))
    st, res = guarded(lambda: sitk.WriteImage(sitk_image(cfg, data, r), p1, cfg["compress"]))
    if st == "raises":
        rec.undef.append("SimpleITK cannot write this format/pixel type")
        return rec
    st, own = guarded(sitk.ReadImage, p1)
    if st == "raises":
        rec.undef.append("SimpleITK cannot read its own file")
        return rec
    probe = Rec()
    preserved = judge_sitk(probe, "own", cfg, own, data, r)
    # what SimpleITK sees in the file
    oD = own.GetDimension()
    oC = own.GetNumberOfComponentsPerPixel()
    oarr = sitk.GetArrayFromImage(own)
    oarr = np.moveaxis(oarr, -1, 0) if oC > 1 else oarr[None]
    if not preserved:
        rec.undef.append("SimpleITK's own round trip does not preserve this configuration: judged against SimpleITK's reading only")
        if oD != cfg["D"] or oarr.dtype != data.dtype:
            # layout changed by the format itself; nothing the statement fixes
            return rec
        rs = RefGrid(size=list(own.GetSize()), spacing=own.GetSpacing(), origin=own.GetOrigin(), direction=np.array(own.GetDirection()).reshape(oD, oD))
        exp_data, exp_r = oarr, rs
    else:
        exp_data, exp_r = data, r
    st, gf = rec.call(Grid.from_file, local_path(pathform(p1, pform)), align_corners=flag)
    rec.stages.append(("gridfile1", st))
    if st == "raises":
        rec.add(f"{pre}/gridfile1/raises={type(gf).__name__}", exc_text(gf))
    else:
        judge_grid(rec, f"{pre}/gridfile1", cfg, gf, exp_r)
    st, res = do_read(rec, entry, pathform(p1, pform), flag)
    rec.stages.append(("r1", st))
    if st == "raises":
        rec.add(f"{pre}/r1/raises={type(res).__name__}", exc_text(res))
        return rec
    d_1, g_1 = res
    ok = judge_data(rec, f"{pre}/r1", cfg, d_1, exp_data)
    ok = judge_grid(rec, f"{pre}/r1", cfg, g_1, exp_r) and ok
    rec.stages.append(("r1key", read_back_key(d_1, g_1) if isinstance(d_1, torch.Tensor) else 0))
    mark_nontrivial(rec, cfg, data)
    if not ok:
        return rec
    # library writes what it read; SimpleITK must see the same image again
    d2 = os.path.join(tmp, "b")
    os.makedirs(d2, exist_ok=True)
    p2 = os.path.join(d2, file_name(cfg, "img"))
    st, res = do_write(rec, entry, d_1, g_1, pathform(p2, pform), cfg["compress"])
    rec.stages.append(("w2", st))
    if st == "raises":
        rec.add(f"{pre}/w2/raises={type(res).__name__}", exc_text(res))
        return rec
    st, img2 = guarded(sitk.ReadImage, p2)
    rec.stages.append(("sitk2", st))
    if st == "raises":
        rec.add(f"{pre}/sitk2/unreadable", "SimpleITK cannot read the file re-written by the library: " + str(img2).strip().split("\n")[-1][:200])
        return rec
    judge_sitk(rec, f"{pre}/sitk2", cfg, img2, exp_data, exp_r)
    rec.completed = True
    return rec


def flow_field_spec(cfg):
    r = rg.ref_grid(cfg["grid"])
    return ff.make_field("affine", r, cfg["seed"])


def run_flow(cfg, start: str, explicit: bool, pform: str, tmp: str) -> Rec:
    import SimpleITK as sitk
    from deepali.core.grid import Axes
    from deepali.data.flow import FlowField

    rec = Rec()
    if nifti_cannot_represent(cfg):
        rec.undef.append(NIFTI_VECTOR_REASON)
        return rec
    pre = sig_prefix(cfg, "flow", f"{'explicit' if explicit else 'default'}:{pform}") + f"/start={start}"
    r = rg.ref_grid(cfg["grid"])
    D = cfg["D"]
    npdt = NP_DT[cfg["dt"]]
    eps = EPS32 if cfg["dt"] == "float32" else 2.0 ** -52
    u = ff.field_on_grid(flow_field_spec(cfg), r)
    v = ff.represent(r, u, start).astype(npdt)
    den = ff.to_world(r, v.astype(np.float64), start)
    umax = max(float(np.abs(den).max()), 1e-6)
    # grid attributes are float32 in any case: conversions carry float32 geometry rounding
    tol = C * EPS32 * 3 * ff.cond_spacing(r) * umax
    st, grid = guarded(rg.real_grid, cfg["grid"])
    if st == "raises":
        rec.add(f"C18/construct-grid/raises={type(grid).__name__}", exc_text(grid))
        return rec
    st, F = guarded(lambda: FlowField(torch.from_numpy(v.copy()), grid, Axes(start)))
    if st == "raises":
        rec.add(f"C18/construct-flow/raises={type(F).__name__}", exc_text(F))
        return rec
    d1 = os.path.join(tmp, "a")
    os.makedirs(d1, exist_ok=True)
    p1 = os.path.join(d1, file_name(cfg, "flow"))
    kw = {"compress": cfg["compress"]}
    if explicit:
        kw["axes"] = Axes(start)
    st, res = rec.call(F.write, pathform(p1, pform), **kw)
    rec.stages.append(("w1", st))
    if st == "raises":
        rec.add(f"{pre}/w1/raises={type(res).__name__}", exc_text(res))
        return rec
    stored = start if explicit else WORLD
    expect_stored = v.astype(np.float64) if explicit else den
    st, img = guarded(sitk.ReadImage, p1)
    rec.stages.append(("sitk1", st))
    if st == "raises":
        rec.add(f"{pre}/sitk1/unreadable", "SimpleITK cannot read the flow file: " + str(img).strip().split("\n")[-1][:200])
    elif img.GetDimension() != D or img.GetNumberOfComponentsPerPixel() != D:
        rec.add(f"{pre}/sitk1/layout", f"SimpleITK sees dimension {img.GetDimension()} with {img.GetNumberOfComponentsPerPixel()} components")
    else:
        arr = np.moveaxis(sitk.GetArrayFromImage(img), -1, 0)
        if arr.dtype != npdt:
            rec.add(f"{pre}/sitk1/dtype/dt={cfg['dt']}", f"stored as {arr.dtype}")
        if arr.shape != den.shape:
            rec.add(f"{pre}/sitk1/size", f"shape {arr.shape} expected {den.shape}")
        else:
            err = float(np.abs(ff.to_world(r, arr.astype(np.float64) - expect_stored, stored)).max())
            if not err <= (tol if not explicit else 0.0):
                rec.add(f"{pre}/sitk1/vectors", f"stored vectors are not the {'world' if not explicit else start} vectors: world error {err:.3e} > tol {tol if not explicit else 0.0:.2e}")
        for kind, detail in header_problems(D, img.GetSize(), np.array(img.GetOrigin()), np.array(img.GetSpacing()), np.array(img.GetDirection()).reshape(D, D), r):
            rec.add(f"{pre}/sitk1/{kind}/grid={cfg['gk']}", "SimpleITK sees " + detail)
    flag = bool((cfg["D"] + (1 if explicit else 0)) % 2)
    kw = {"align_corners": flag}
    if explicit:
        kw["axes"] = Axes(start)
    st, G = rec.call(FlowField.read, pathform(p1, pform), **kw)
    rec.stages.append(("r1", st))
    if st == "raises":
        rec.add(f"{pre}/r1/raises={type(G).__name__}", exc_text(G))
        return rec
    if not isinstance(G, FlowField):
        rec.add(f"{pre}/r1/type", f"returned {type(G).__name__}")
        return rec
    st, lab = guarded(G.axes)
    if st == "raises" or lab is not Axes(stored):
        rec.add(f"{pre}/r1/label", f"axes() is {lab!r}, expected {stored}")
        return rec
    st, tg = guarded(lambda: (G.tensor(), G.grid()))
    if st == "raises":
        rec.add(f"{pre}/r1/unobservable", exc_text(tg))
        return rec
    if not judge_grid(rec, f"{pre}/r1", cfg, tg[1], r):
        return rec
    if bool(tg[1].align_corners()) != flag:
        rec.add(f"{pre}/r1/flag", "align_corners argument not applied")
    o = tg[0].detach().cpu().numpy()
    if o.dtype != npdt:
        rec.add(f"{pre}/r1/dtype/dt={cfg['dt']}", f"returned dtype {o.dtype}, stored {npdt.__name__}")
    if o.shape != den.shape:
        rec.add(f"{pre}/r1/size", f"shape {o.shape} expected {den.shape}")
        return rec
    rec.stages.append(("r1key", read_back_key(tg[0], tg[1])))
    if explicit:
        if not np.array_equal(o.astype(np.float64), v.astype(np.float64)):
            rec.add(f"{pre}/r1/values/dt={cfg['dt']}", "write(axes=a) -> read(axes=a) changed the stored tensor")
    else:
        err = float(np.abs(o.astype(np.float64) - den).max())
        if not err <= tol:
            rec.add(f"{pre}/r1/vectors", f"world vectors read back differ from the original field by {err:.3e} > tol {tol:.2e}")
    st, H = rec.call(G.axes, Axes(start))
    if st == "raises":
        rec.add(f"{pre}/back/raises={type(H).__name__}", exc_text(H))
        return rec
    st, hb = guarded(lambda: H.tensor().detach().cpu().numpy().astype(np.float64))
    if st == "raises" or hb.shape != v.shape:
        rec.add(f"{pre}/back/shape", "shape changed")
        return rec
    d = float(np.abs(ff.to_world(r, hb - v.astype(np.float64), start)).max())
    if not d <= 2 * tol:
        rec.add(f"{pre}/back/vectors", f"read(...).axes({start}) differs from the original tensor by {d:.3e} (world units) > tol {2 * tol:.2e}")
    rec.nontrivial = start != WORLD or cfg["gk"] != "default"
    rec.completed = True
    return rec


# ---------------------------------------------------------------------------
# MEMORY LAYOUT of the data that is written (transposed view, step-sliced view, stride-0 expanded channels)
LAYOUTS = ("transposed", "sliced", "expanded")


def layout_enabled(cfg) -> bool:
    return (cfg["gk"] == "scan" and min(cfg["size"]) > 1 and cfg["size"] == list(sizes(cfg["D"], "quick")[0])
            and cfg["dt"] in ("int16", "float32") and cfg["C"] in (1, cfg["D"]))


def run_layout(cfg, entry: str, layout: str, tmp: str) -> Rec:
    """Write a NON-CONTIGUOUS data tensor; the file must hold exactly its values (SimpleITK and the library agree)."""
    import SimpleITK as sitk
    from deepali.core.grid import Axes
    from deepali.data.flow import FlowField
    from ref import layout as L

    rec = Rec()
    pre = f"C18/layout/{entry}/fmt={cfg['fmt']}/D={cfg['D']}/ch={'1' if cfg['C'] == 1 else 'n'}/layout={layout}"
    r = rg.ref_grid(cfg["grid"])
    data = make_data(cfg)
    if layout == "expanded":
        if cfg["C"] == 1:
            return rec
        base = torch.from_numpy(data[0].copy())
        t = L.relayout(base, "expanded", n=cfg["C"])  # all channels are one stride-0 view
        data = np.repeat(data[:1], cfg["C"], axis=0)
    else:
        t0 = torch.from_numpy(data.copy())
        if not L.applicable(t0, layout):
            rec.undef.append("layout: form not applicable to this shape")
            return rec
        t = L.relayout(t0, layout)
    if t.is_contiguous() or not np.array_equal(t.numpy(), data):
        rec.undef.append("layout: variant is contiguous or not equal (harness)")
        return rec
    # values and strides only: the statement is about what a round trip returns, and the comparison below uses the
    # operand after writing; the autograd version counter of the written tensor is outside it (DESIGN 11.3, C18)
    before = (t.numpy().tobytes(), tuple(t.stride()))
    st, grid = guarded(rg.real_grid, cfg["grid"])
    if st == "raises":
        rec.add(f"C18/construct-grid/raises={type(grid).__name__}", exc_text(grid))
        return rec
    d1 = os.path.join(tmp, "a")
    os.makedirs(d1, exist_ok=True)
    p1 = os.path.join(d1, file_name(cfg, "img"))
    if entry == "FlowField":
        st, res = rec.call(lambda: FlowField(t, grid, Axes("world")).write(p1, compress=cfg["compress"]))
    else:
        st, res = do_write(rec, entry, t, grid, p1, cfg["compress"])
    rec.stages.append(("w1", st))
    if st == "raises":
        rec.add(f"{pre}/w1/raises={type(res).__name__}", exc_text(res))
        return rec
    if (t.numpy().tobytes(), tuple(t.stride())) != before:
        rec.add(f"{pre}/operand-mutated", "writing modified the data tensor (values or strides)")
    st, img = guarded(sitk.ReadImage, p1)
    rec.stages.append(("sitk1", st))
    if st == "raises":
        rec.add(f"{pre}/sitk1/unreadable", "SimpleITK cannot read the file: " + str(img).strip().split("\n")[-1][:200])
    else:
        judge_sitk(rec, f"{pre}/sitk1", cfg, img, data, r)
    st, res = do_read(rec, "func", p1, True)
    rec.stages.append(("r1", st))
    if st == "raises":
        rec.add(f"{pre}/r1/raises={type(res).__name__}", exc_text(res))
        return rec
    judge_data(rec, f"{pre}/r1", cfg, res[0], data)
    judge_grid(rec, f"{pre}/r1", cfg, res[1], r)
    rec.stages.append(("r1key", read_back_key(res[0], res[1]) if isinstance(res[0], torch.Tensor) else 0))
    rec.nontrivial = True
    rec.completed = True
    return rec


# ---------------------------------------------------------------------------
def cases_of(cfg):
    out = []
    for entry in ("func", "Image"):
        for pform in ("str", "Path", "uri"):
            out.append({"chain": "d2d", "entry": entry, "path": pform})
            out.append({"chain": "s2d", "entry": entry, "path": pform})
    if cfg["C"] == cfg["D"] and cfg["dt"] in ("float32", "float64"):
        for start in AXES:
            if start == "cube_corners" and min(cfg["size"]) == 1:
                continue  # extrema -1/+1 of CUBE_CORNERS coincide for a single sample: the representation does not exist
            for explicit in (False, True):
                out.append({"chain": "flow", "start": start, "explicit": explicit, "path": "str" if (AXES.index(start) + explicit) % 2 == 0 else "Path"})
    if layout_enabled(cfg):
        entries = ["func", "Image"] + (["FlowField"] if cfg["C"] == cfg["D"] and cfg["dt"] == "float32" else [])
        for entry in entries:
            for lay in LAYOUTS:
                if lay == "expanded" and cfg["C"] == 1:
                    continue
                out.append({"chain": "layout", "entry": entry, "layout": lay})
    return out


def run_case(cfg, case) -> Rec:
    import SimpleITK as sitk

    try:
        sitk.ProcessObject.SetGlobalDefaultNumberOfThreads(1)
    except Exception:  # noqa: BLE001
        pass
    tmp = tempfile.mkdtemp(prefix="c18-", dir=os.environ.get("VERIF_TMP", "/var/tmp"))
    try:
        if case["chain"] == "d2d":
            return run_d2d(cfg, case["entry"], case["path"], tmp)
        if case["chain"] == "s2d":
            return run_s2d(cfg, case["entry"], case["path"], tmp)
        if case["chain"] == "layout":
            return run_layout(cfg, case["entry"], case["layout"], tmp)
        return run_flow(cfg, case["start"], bool(case["explicit"]), case["path"], tmp)
    except Exception as e:  # noqa: BLE001 - what the library returned could not be observed at all (never crash the shard)
        rec = Rec()
        rec.add(sig_prefix(cfg, case["chain"], "any") + f"/unobservable/raises={type(e).__name__}", exc_text(e))
        return rec
    finally:
        shutil.rmtree(tmp, ignore_errors=True)


def shards(tier, seed):
    out = []
    for fmt in formats(tier):
        for D in (2, 3):
            for Cn in (1, 2, 3):
                for dt in NP_DT:
                    out.append({"tier": tier, "seed": seed, "fmt": fmt, "D": D, "C": Cn, "dt": dt})
    return out


def run_shard(shard) -> Acc:
    acc = Acc()
    _sweep_stale_tmp()
    cfgs = [c for c in configs(shard["tier"], shard["seed"]) if (c["fmt"], c["D"], c["C"], c["dt"]) == (shard["fmt"], shard["D"], shard["C"], shard["dt"])]
    for cfg in cfgs:
        for case in cases_of(cfg):
            rec = run_case(cfg, case)
            acc.trans(rec.trans)
            full = {"cfg": cfg, "case": case}
            for sig, detail in rec.problems:
                acc.violation(sig, full, detail, size=len(rec.stages))
            for reason in rec.undef:
                acc.undef(reason)
            key = (cfg["fmt"], cfg["D"], cfg["C"], cfg["dt"], cfg["gk"], cfg["compress"], tuple(cfg["size"]), repr(sorted(case.items())), repr(rec.stages))
            acc.state(key)
            acc.outcome(repr(rec.stages), cfg["fmt"], cfg["dt"])
            if rec.nontrivial:
                acc.nontriv(key)
            acc.trace(case["chain"], depth=sum(1 for s, _ in rec.stages if s in ("w1", "r1", "w2", "r2", "sitk2")))
            if rec.completed and len(acc.samples) < 2 and cfg["gk"] == "rot":
                acc.sample({"config": {k: cfg[k] for k in ("fmt", "D", "C", "dt", "gk", "compress", "size")}, "case": case,
                            "stages": [[s, (v if isinstance(v, str) else "hash")] for s, v in rec.stages], "verdict": "ok" if not rec.problems else "violation"})
    return acc


def replay(case):
    rec = run_case(case["cfg"], case["case"])
    return list(rec.problems)
