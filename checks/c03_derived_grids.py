"""C03 - derived grids keep their place in the world.

Transition system: state = (real Grid, RefGrid kept in lock step); alphabet = derivation calls;
all chains up to the tier's depth from every initial grid, pruned by exact-bit state dedup
(state key = float32 bit pattern of the five Grid slots; Grid has no other state).
"""
from __future__ import annotations

import itertools
import math

import numpy as np
import torch

from mc.core import Acc, exc_text, guarded, h64, tensor_bytes
from ref import grid as rg
from ref.grid import RefGrid

PROPERTY = "C03"
RULE = (
    "every chain of derivation calls (alphabet of ~70 argument forms) up to the tier depth from every "
    "initial grid of the lattice, executed on real Grid objects; distinct = exact float32 bit pattern of "
    "the resulting grid; non-trivial = the derived grid differs from its parent in size, spacing or center"
)
EXPLANATION = "bounded explicit-state exploration of Grid derivation chains against a float64 reference"
ASSUMPTIONS = [
    "grids with >= 2 samples per axis in every state (the property's domain); CPU float32 attributes",
    "tolerances: 64 ulp(float32) x (|center| + extent) per step for positions, 64 ulp relative for spacing",
    "integer sizes obtained by ceil/floor of a float quantity are accepted within a relative perturbation of 1e-5 (knife-edge rule)",
]
MIN_NONTRIVIAL = {"quick": 500, "thorough": 5000}
MIN_OUTCOMES = {"quick": 500, "thorough": 5000}

EPS32 = 2.0 ** -23
C = 64.0


# ---------------------------------------------------------------------------
def initial_specs(tier: str, seed: int):
    specs = []
    for D in (2, 3):
        dirs = rg.direction_menu(D, seed)
        if D == 2:
            sizes = [(8, 5), (9, 6)] if tier == "quick" else [(8, 5), (9, 6), (16, 12), (7, 7)]
            sp = [(1.0, 1.0), (0.5, 1.25), (0.3, 0.45)]
            orgs = [(0.0, 0.0), (10.5, -3.25)]
        else:
            sizes = [(8, 5, 4)] if tier == "quick" else [(8, 5, 4), (9, 6, 7)]
            sp = [(1.0, 1.0, 1.0), (0.5, 1.25, 2.0)]
            orgs = [(0.0, 0.0, 0.0), (10.5, -3.25, 100.0)]
        combos = []
        for size in sizes:
            for si, s in enumerate(sp):
                for oi, o in enumerate(orgs):
                    for dname in ("id", "perm", "rot"):
                        for ac in (True, False):
                            combos.append((size, s, o, dname, ac))
        if tier == "quick":
            # pairwise-style selection: keep combos covering every value of every factor, both flags
            keep = []
            for i, cb in enumerate(combos):
                size, s, o, dname, ac = cb
                k = (sizes.index(size) + sp.index(s) * 2 + orgs.index(o) * 3 + ("id", "perm", "rot").index(dname)) % 3
                if k == 0:
                    keep.append(cb)
            combos = keep
        for size, s, o, dname, ac in combos:
            specs.append({"size": list(size), "spacing": list(s), "origin": list(o), "direction": dirs[dname], "ac": ac, "dir": dname})
    return specs


def alphabet(D: int, tier: str):
    ops = []
    A = ops.append
    if D == 2:
        sizes = [(5, 3), (8, 8), (2, 3), (7, 9), (16, 11)]
    else:
        sizes = [(5, 3, 2), (8, 5, 3), (2, 2, 2), (7, 9, 4)]
    for sz in sizes:
        A(("resize", {"size": list(sz)}))
    A(("resize", {"size": list(sizes[0]), "ac": True}))
    A(("resize", {"size": list(sizes[0]), "ac": False}))
    A(("resize_args", {"size": list(sizes[1])}))
    A(("reshape", {"shape": list(sizes[3][::-1])}))
    A(("reshape", {"shape": list(sizes[2][::-1]), "ac": False}))
    for lv in (1, 2):
        A(("downsample", {"levels": lv}))
        A(("upsample", {"levels": lv}))
    A(("downsample", {"levels": 1, "dims": [0]}))
    A(("downsample", {"levels": 1, "dims": [D - 1]}))
    A(("downsample", {"levels": 1, "min_size": 4}))
    A(("downsample", {"levels": 2, "min_size": 3}))
    A(("downsample", {"levels": 1, "ac": True}))
    A(("downsample", {"levels": 1, "ac": False}))
    A(("downsample", {"levels": -1}))
    A(("upsample", {"levels": 1, "dims": [1]}))
    A(("upsample", {"levels": 1, "ac": False}))
    A(("upsample", {"levels": 1, "ac": True}))
    A(("upsample", {"levels": -1}))
    A(("down_up", {"levels": 1}))
    A(("down_up", {"levels": 2}))
    for L in (1, 2, 3):
        for k in range(L + 1):
            A(("pyramid", {"levels": L, "level": k}))
    A(("pyramid", {"levels": 2, "level": 2, "min_size": 4}))
    A(("pyramid", {"levels": 2, "level": 1, "dims": [0]}))
    A(("resample", {"factor": 0.5}))
    A(("resample", {"factor": 2.0}))
    A(("resample", {"spacing": "min"}))
    A(("resample", {"spacing": "max"}))
    A(("resample", {"spacing": [0.7, 1.1, 1.3][:D]}))
    A(("resample", {"spacing": 0.75}))
    A(("resample", {"factor": 4.0, "min_size": 3}))
    for m in (1, 2, -1, -2):
        A(("crop", {"args": [m]}))
        A(("pad", {"args": [m]}))
    pa = [1, 0, 2][:D]
    A(("crop", {"args": pa}))
    A(("pad", {"args": pa}))
    A(("crop", {"margin": [2, -1, 1][:D]}))
    A(("pad", {"margin": [2, -1, 1][:D]}))
    pb = [1, 2, 0, -1, 2, 1][: 2 * D]
    A(("crop", {"num": pb}))
    A(("pad", {"num": pb}))
    A(("crop", {"num": [2, 0]}))  # only the x axis (short form)
    A(("pad", {"num": [0, 3]}))
    A(("crop", {"num": 1}))
    A(("pad", {"margin": 1}))
    A(("crop", {"args_array": pa}))
    for dim in range(D):
        A(("narrow", {"dim": dim, "start": 1, "length": 3}))
    A(("narrow", {"dim": 0, "start": 0, "length": 2}))
    A(("roi", {"start": 1, "size": 3}))
    A(("roi", {"start": [0, 1, 2][:D], "size": [4, 3, 2][:D]}))
    A(("roi", {"start": [2, 1, 0][:D], "size": [2, 2, 3][:D]}))
    A(("center_crop", {"size": 4}))
    A(("center_crop", {"size": [3, 4, 2][:D]}))
    A(("center_crop", {"size": [20, 3, 3][:D]}))
    A(("center_crop_args", {"size": [5, 2, 3][:D]}))
    A(("center_pad", {"size": 10}))
    A(("center_pad", {"size": [9, 12, 3][:D]}))
    A(("center_pad", {"size": [2, 11, 8][:D]}))
    for k in (2, 3, [2, 1, 3][:D]):
        A(("pool", {"k": k, "ceil": False}))
        A(("pool", {"k": k, "ceil": True}))
    A(("avg_pool", {"k": 2, "ceil": False}))
    A(("cube_grid", {"size": list(sizes[0]), "ac": True}))
    A(("cube_grid", {"size": list(sizes[1]), "ac": False}))
    A(("cube_grid", {"shape": list(sizes[3][::-1]), "ac": True}))
    A(("cube_grid_same", {}))
    A(("cube_grid_spacing", {"div": 2, "ac": True}))
    A(("cube_grid_spacing", {"div": 3, "ac": False}))
    A(("domain_grid", {"size": list(sizes[1])}))
    A(("align_corners", {"flag": True}))
    A(("align_corners", {"flag": False}))
    return ops


def reduced_alphabet(D: int):
    """Depth-3 alphabet (thorough): one argument form per mechanism."""
    names = set()
    out = []
    for op in alphabet(D, "thorough"):
        n = op[0]
        cnt = sum(1 for o in out if o[0] == n)
        lim = {"resize": 2, "downsample": 3, "upsample": 2, "pyramid": 3, "resample": 3, "crop": 3, "pad": 3,
               "narrow": 1, "roi": 1, "center_crop": 1, "center_pad": 1, "pool": 2, "cube_grid": 2,
               "cube_grid_spacing": 1, "align_corners": 2, "down_up": 1, "reshape": 1}.get(n, 0)
        if cnt < lim:
            out.append(op)
    return out


def bounds(tier):
    return {
        "initial_grids": len(initial_specs(tier, 0)),
        "alphabet_D2": len(alphabet(2, tier)),
        "alphabet_D3": len(alphabet(3, tier)),
        "depth_full_alphabet": 2,
        "depth_reduced_alphabet": 2 if tier == "quick" else 3,
        "depth3_from_every_nth_initial_grid": 4,
        "reduced_alphabet": len(reduced_alphabet(2)),
    }


# ---------------------------------------------------------------------------
def _margins(D, a):
    """(start[D], end[D]) margins of crop/pad argument forms, x axis first."""
    if "args" in a or "args_array" in a:
        # positional ints are the per-axis margins (nx[, ny[, nz]]); missing axes are not cropped
        v = a.get("args", a.get("args_array"))
        v = list(v) + [0] * (D - len(v))
        return v[:D], v[:D]
    if "margin" in a:
        m = a["margin"]
        if isinstance(m, int):
            return [m] * D, [m] * D
        m = list(m) + [0] * (D - len(m))
        return m[:D], m[:D]
    num = a["num"]
    if isinstance(num, int):
        return [num] * D, [num] * D
    num = list(num) + [0] * (2 * D - len(num))
    return num[0::2], num[1::2]


def ref_step(r: RefGrid, op):
    """Reference semantics. Returns None if not enabled (outside the property's domain), else a dict:
    {"ref": RefGrid, "kind": ..., "sizeset": optional list of admissible integer sizes}"""
    name, a = op
    D = r.D
    n = r.n

    def ok_size(z):
        return bool(np.all(np.ceil(np.asarray(z) - 1e-9) >= 2))

    if name in ("resize", "resize_args"):
        z = np.array(a["size"], float)
        return {"ref": rg.resized(r, z, a.get("ac")), "kind": "resize"}
    if name == "reshape":
        z = np.array(a["shape"][::-1], float)
        return {"ref": rg.resized(r, z, a.get("ac")), "kind": "resize"}
    if name in ("downsample", "upsample"):
        lv = a["levels"]
        if name == "upsample":
            lv = -lv
        dims = a.get("dims") or list(range(D))
        z = r.z.copy()
        for d in dims:
            z[d] = z[d] / (2.0 ** lv)
        ms = a.get("min_size", 1)
        if name == "downsample":
            z = np.where(z >= ms, z, r.z)
        if not ok_size(z) or np.any(z > 64):
            return None
        return {"ref": rg.resized(r, z, a.get("ac")), "kind": "resize"}
    if name == "down_up":
        z = r.z / (2.0 ** a["levels"])
        if not ok_size(z):
            return None
        return {"ref": r.copy(), "kind": "roundtrip"}
    if name == "pyramid":
        L, k = a["levels"], a["level"]
        dims = a.get("dims") or list(range(D))
        ms = a.get("min_size", 0)
        # sizes by repeated ceil-halving from the level-0 size chosen such that corners/extent are shared
        if any(n[d] / (2.0 ** L) < 2 for d in dims):
            return None
        return {"ref": None, "kind": "pyramid", "dims": dims, "min_size": ms}
    if name == "resample":
        if "factor" in a:
            s = r.s * a["factor"]
        elif a["spacing"] == "min":
            s = np.full(D, r.s.min())
        elif a["spacing"] == "max":
            s = np.full(D, r.s.max())
        else:
            s = np.broadcast_to(np.array(a["spacing"], float), (D,)).copy()
        if np.allclose(s, r.s, rtol=1e-5, atol=1e-8):
            # requested spacing equals the current one up to rounding: documented no-op (returns the grid itself,
            # keeping its possibly fractional internal size)
            return {"ref": r.copy(), "kind": "flag"}
        z = np.maximum(r.extent / s, a.get("min_size", 1))
        if not ok_size(z * (1 - 1e-5)) or np.any(z > 64):
            return None
        out = r.copy()
        out.z, out.s = z, s
        return {"ref": out, "kind": "resample", "clamped": (r.extent / s) < a.get("min_size", 1)}
    if name in ("crop", "pad"):
        st, en = _margins(D, a)
        sgn = 1 if name == "crop" else -1
        st = np.array(st, float) * sgn
        en = np.array(en, float) * sgn
        size = n - st - en
        if not ok_size(size) or np.any(size > 64):
            return None
        return {"ref": rg.cropped(r, st, size), "kind": "crop"}
    if name == "narrow":
        d, s0, ln = a["dim"], a["start"], a["length"]
        if s0 + ln > n[d]:
            return None
        size = n.copy()
        size[d] = ln
        off = np.zeros(D)
        off[d] = s0
        return {"ref": rg.cropped(r, off, size), "kind": "crop"}
    if name == "roi":
        st = np.broadcast_to(np.array(a["start"], float), (D,))
        sz = np.broadcast_to(np.array(a["size"], float), (D,))
        if np.any(st + sz > n):
            return None  # region outside the grid: padding semantics not promised
        return {"ref": rg.cropped(r, st, sz), "kind": "crop"}
    if name in ("center_crop", "center_crop_args"):
        sz = np.minimum(n, np.broadcast_to(np.array(a["size"], float), (D,)))
        if not ok_size(sz):
            return None
        return {"ref": None, "kind": "center", "size": sz}
    if name == "center_pad":
        sz = np.maximum(n, np.broadcast_to(np.array(a["size"], float), (D,)))
        return {"ref": None, "kind": "center", "size": sz}
    if name in ("pool", "avg_pool"):
        out = rg.pooled(r, a["k"], a["ceil"])
        if not ok_size(out.z):
            return None
        return {"ref": out, "kind": "pool"}
    if name in ("cube_grid", "domain_grid"):
        z = np.array(a["size"] if "size" in a else a["shape"][::-1], float)
        ac2 = a.get("ac", True)
        out = r.copy()
        out.z, out.ac = z, ac2
        ce = r.cube_extent()
        out.s = ce / (z - 1) if ac2 else ce / z
        if np.any(out.s <= 0):
            return None
        return {"ref": out, "kind": "cube"}
    if name == "cube_grid_same":
        out = r.copy()
        out.z = n.copy()
        return {"ref": out, "kind": "cube"}
    if name == "cube_grid_spacing":
        ac2 = a["ac"]
        ce = r.cube_extent()
        s = r.s / a["div"]
        cells = ce / s
        if np.any(np.abs(cells - np.round(cells)) > 1e-3):
            return None  # extent not divisible by the spacing: Cube.grid documents a ValueError
        z = np.round(cells) + (1 if ac2 else 0)
        if np.any(z > 64) or not ok_size(z):
            return None
        out = r.copy()
        out.z, out.s, out.ac = z, s, ac2
        return {"ref": out, "kind": "cube"}
    if name == "align_corners":
        out = r.copy()
        out.z = r.z.copy()
        out.ac = a["flag"]
        return {"ref": out, "kind": "flag"}
    raise KeyError(name)


def impl_step(g, op):
    """The real API call."""
    name, a = op
    kw = {}
    if "ac" in a and name not in ("cube_grid", "cube_grid_spacing"):
        kw["align_corners"] = a["ac"]
    if name == "resize":
        return g.resize(tuple(a["size"]), **kw)
    if name == "resize_args":
        return g.resize(*a["size"], **kw)
    if name == "reshape":
        return g.reshape(tuple(a["shape"]), **kw)
    if name in ("downsample", "upsample"):
        if "dims" in a:
            kw["dims"] = tuple(a["dims"])
        if "min_size" in a:
            kw["min_size"] = a["min_size"]
        return getattr(g, name)(a["levels"], **kw)
    if name == "down_up":
        return g.downsample(a["levels"]).upsample(a["levels"])
    if name == "pyramid":
        if "dims" in a:
            kw["dims"] = tuple(a["dims"])
        if "min_size" in a:
            kw["min_size"] = a["min_size"]
        return g.pyramid(a["levels"], **kw)
    if name == "resample":
        if "min_size" in a:
            kw["min_size"] = a["min_size"]
        if "factor" in a:
            sp = g.spacing() * a["factor"]
            return g.resample(sp, **kw)
        sp = a["spacing"]
        if isinstance(sp, list):
            sp = tuple(sp)
        return g.resample(sp, **kw)
    if name in ("crop", "pad"):
        f = getattr(g, name)
        if "args" in a:
            return f(*a["args"])
        if "args_array" in a:
            return f(tuple(a["args_array"]))
        if "margin" in a:
            m = a["margin"]
            return f(margin=m if isinstance(m, int) else tuple(m))
        num = a["num"]
        return f(num=num if isinstance(num, int) else tuple(num))
    if name == "narrow":
        return g.narrow(a["dim"], a["start"], a["length"])
    if name == "roi":
        st, sz = a["start"], a["size"]
        return g.region_of_interest(st if isinstance(st, int) else tuple(st), sz if isinstance(sz, int) else tuple(sz))
    if name == "center_crop":
        sz = a["size"]
        return g.center_crop(sz if isinstance(sz, int) else tuple(sz))
    if name == "center_crop_args":
        return g.center_crop(*a["size"])
    if name == "center_pad":
        sz = a["size"]
        return g.center_pad(sz if isinstance(sz, int) else tuple(sz))
    if name == "pool":
        k = a["k"]
        return g.pool(k if isinstance(k, int) else tuple(k), ceil_mode=a["ceil"])
    if name == "avg_pool":
        return g.avg_pool(a["k"], ceil_mode=a["ceil"])
    if name == "cube_grid":
        if "size" in a:
            return g.cube().grid(size=tuple(a["size"]), align_corners=a["ac"])
        return g.cube().grid(shape=tuple(a["shape"]), align_corners=a["ac"])
    if name == "domain_grid":
        return g.domain().grid(tuple(a["size"]))
    if name == "cube_grid_same":
        from deepali.core.cube import Cube

        return Cube.from_grid(g).grid(size=g.size(), align_corners=g.align_corners())
    if name == "cube_grid_spacing":
        return g.cube().grid(spacing=g.spacing() / a["div"], align_corners=a["ac"])
    if name == "align_corners":
        return g.align_corners(a["flag"])
    raise KeyError(name)


def state_key(g) -> bytes:
    return b"|".join(
        [tensor_bytes(g._size), tensor_bytes(g._center), tensor_bytes(g._spacing), tensor_bytes(g._direction), b"T" if g._align_corners else b"F"]
    )


def _tol_pos(r: RefGrid, depth: int) -> float:
    return C * EPS32 * r.scale() * (1 + depth)


def compare(g, exp: RefGrid, depth: int, internal: bool = False):
    """Compare a real grid with the expected reference grid. Returns list of (kind, detail)."""
    from deepali.core.grid import Grid

    out = []
    if not isinstance(g, Grid):
        return [("type", f"returned {type(g).__name__}")]
    obs = RefGrid.from_real(g)
    if obs.D != exp.D:
        return [("ndim", f"{obs.D} vs {exp.D}")]
    if not np.array_equal(obs.n, exp.n):
        out.append(("size", f"size {obs.n.tolist()} expected {exp.n.tolist()}"))
        return out
    if internal and np.any(np.abs(obs.z - exp.z) > 1e-4 * np.maximum(exp.z, 1)):
        out.append(("internal-size", f"internal size {obs.z.tolist()} expected {exp.z.tolist()}"))
    ts = C * EPS32 * (1 + depth)
    if np.any(np.abs(obs.s - exp.s) > ts * exp.s):
        out.append(("spacing", f"spacing {obs.s.tolist()} expected {exp.s.tolist()}"))
    if np.any(np.abs(obs.R - exp.R) > 4 * EPS32):
        out.append(("direction", f"direction {obs.R.tolist()} expected {exp.R.tolist()}"))
    if obs.ac != exp.ac:
        out.append(("align_corners", f"flag {obs.ac} expected {exp.ac}"))
    tp = _tol_pos(exp, depth)
    if np.any(np.abs(obs.c - exp.c) > tp):
        out.append(("center", f"center {obs.c.tolist()} expected {exp.c.tolist()} tol {tp:.2e}"))
    # positions of corner samples and one interior sample through the implementation's own map
    idx = exp.corner_indices()
    st, w = guarded(lambda: g.index_to_world(torch.tensor(idx, dtype=torch.float32)).double().numpy())
    if st == "raises":
        out.append(("raises=" + type(w).__name__, "index_to_world: " + exc_text(w)))
    else:
        ew = exp.index_to_world(idx)
        if np.any(np.abs(w - ew) > tp):
            out.append(("sample-position", f"index_to_world max err {np.abs(w - ew).max():.3e} tol {tp:.2e}"))
    st, o = guarded(lambda: g.origin().double().numpy())
    if st == "ok" and np.any(np.abs(o - exp.origin) > tp):
        out.append(("origin", f"origin {o.tolist()} expected {exp.origin.tolist()} tol {tp:.2e}"))
    return out


def judge(g_old, r_old: RefGrid, op, info, res, depth):
    """Judge one transition. Returns (list of (kind, detail), new_real_grid or None, new_ref or None)."""
    from deepali.core.grid import Grid

    kind = info["kind"]
    if kind == "pyramid":
        a = op[1]
        if not isinstance(res, dict) or sorted(res.keys()) != list(range(a["levels"] + 1)):
            return [("pyramid-keys", f"keys {sorted(res.keys()) if isinstance(res, dict) else type(res)}")], None, None
        out = []
        n0 = None
        levels = {}
        for k in sorted(res.keys()):
            gk = res[k]
            if not isinstance(gk, Grid):
                return [("type", f"level {k}: {type(gk).__name__}")], None, None
            ok = RefGrid.from_real(gk)
            levels[k] = ok
            exp = rg.resized(r_old, ok.n, r_old.ac)  # same center/direction, corners or extent per flag
            for kd, dt in compare(gk, exp, depth):
                out.append((f"level/{kd}", f"level {k}: {dt}"))
        for k in range(1, a["levels"] + 1):
            prev, cur = levels[k - 1].n, levels[k].n
            for d in range(r_old.D):
                if d in info["dims"]:
                    want = math.ceil(prev[d] / 2)
                    if want < info["min_size"]:
                        want = prev[d]
                else:
                    want = prev[d]
                if cur[d] != want:
                    out.append(("level-size", f"level {k} axis {d}: size {cur[d]} after {prev[d]}, expected {want}"))
        for k in levels:
            for j in levels:
                if j > k:
                    st, same = guarded(res[k].same_domain_as, res[j])
                    if st == "raises" or not same:
                        out.append(("same-domain", f"levels {k},{j} do not cover the same domain"))
        chosen = res[a["level"]]
        return out, chosen, levels[a["level"]].copy()
    if kind == "center":
        if not isinstance(res, Grid):
            return [("type", type(res).__name__)], None, None
        obs = RefGrid.from_real(res)
        sz = info["size"]
        if not np.array_equal(obs.n, sz):
            return [("size", f"size {obs.n.tolist()} expected {sz.tolist()}")], None, None
        off = r_old.world_to_index(obs.origin)
        ro = np.round(off)
        tp = _tol_pos(r_old, depth) / r_old.s.min()
        out = []
        if np.any(np.abs(off - ro) > max(tp, 1e-3)):
            out.append(("off-lattice", f"new origin at old index {off.tolist()}"))
        ideal = (r_old.n - sz) / 2
        if np.any(np.abs(ro - ideal) > 0.5 + 1e-9):
            out.append(("not-centered", f"offset {ro.tolist()} ideal {ideal.tolist()}"))
        exp = rg.cropped(r_old, ro, sz)
        out += compare(res, exp, depth)
        return out, res, exp
    exp = info["ref"]
    if kind == "resample":
        # knife-edge rule: accept the implementation's integer size if admissible
        if isinstance(res, Grid):
            obs = RefGrid.from_real(res)
            lo = np.ceil(exp.z * (1 - 1e-5) - 1e-9)
            hi = np.ceil(exp.z * (1 + 1e-5) - 1e-9)
            if np.all((obs.n >= lo) & (obs.n <= hi)) and np.all(np.abs(obs.z - exp.z) <= 1e-5 * exp.z + 1e-6):
                exp = exp.copy()
                exp.z = obs.z.copy()
    out = compare(res, exp, depth, internal=kind in ("resize", "roundtrip"))
    if isinstance(res, Grid) and not out:
        # the internal (fractional) size is only promised where down/upsample round trips depend on it
        exp = exp.copy()
        exp.z = RefGrid.from_real(res).z.copy()
    if kind == "resample" and not out:
        # covers the original extent, by less than one extra sample
        e0, e1 = r_old.extent, exp.extent
        free = ~info["clamped"]  # axes held at min_size are exempt (documented clamp)
        if np.any(e1[free] < (e0 * (1 - 1e-5))[free]) or np.any(e1[free] >= (e0 + exp.s * (1 + 1e-5))[free]):
            out.append(("extent", f"extent {e1.tolist()} from {e0.tolist()}"))
    if kind == "roundtrip" and isinstance(res, Grid):
        st, eq = guarded(lambda: res == g_old)
        if st == "raises" or not eq:
            out.append(("roundtrip-eq", "downsample(k).upsample(k) != grid"))
    if kind == "cube" and isinstance(res, Grid) and not out:
        st, same = guarded(lambda: res.cube() == g_old.cube())
        if st == "raises" or not same:
            out.append(("cube-domain", "Cube of the derived grid differs from the original cube"))
    if kind == "resize" and isinstance(res, Grid) and not out:
        # the promise in its own words: corners or extent preserved
        ac = op[1].get("ac")
        ac = r_old.ac if ac is None else ac
        obs = RefGrid.from_real(res)
        tp = _tol_pos(r_old, depth)
        if ac:
            a0 = r_old.index_to_world(np.array([np.zeros(r_old.D), r_old.n - 1]))
            a1 = obs.index_to_world(np.array([np.zeros(r_old.D), obs.n - 1]))
            if np.any(np.abs(a0 - a1) > tp):
                out.append(("corners", f"corner samples moved by {np.abs(a0 - a1).max():.3e}"))
        else:
            if np.any(np.abs(obs.extent - r_old.extent) > C * EPS32 * (1 + depth) * r_old.extent):
                out.append(("extent", f"extent {obs.extent.tolist()} from {r_old.extent.tolist()}"))
    if not isinstance(res, Grid):
        return out, None, None
    return out, res, exp


def op_sig(op):
    name, a = op
    extra = ""
    if "ac" in a and name in ("resize", "reshape", "downsample", "upsample"):
        extra = f"[ac={'T' if a['ac'] else 'F'}]"
    return name + extra


class Explorer:
    def __init__(self, acc: Acc, spec: dict, tier: str):
        self.acc = acc
        self.spec = spec
        self.tier = tier
        self.D = len(spec["size"])
        self.full = alphabet(self.D, tier)
        self.reduced = reduced_alphabet(self.D)
        self.seen = {}

    def step(self, g, r, op, depth, hist):
        """Execute one transition with the oracle; returns (g2, r2) or None if the path ends."""
        acc = self.acc
        info = ref_step(r, op)
        if info is None:
            acc.undef("not-enabled:" + op[0])
            return None
        acc.trans()
        st, res = guarded(impl_step, g, op)
        case = {"spec": self.spec, "ops": hist + [op]}
        if st == "raises":
            if isinstance(res, NotImplementedError):
                acc.undef("NotImplementedError:" + op[0])
                return None
            kind = "raises=" + type(res).__name__
            if isinstance(res, AssertionError):
                kind += "/internal-consistency"
            acc.violation(f"C03/{op_sig(op)}/{kind}", case, exc_text(res), size=len(hist) + 1)
            acc.outcome("raise", op[0], type(res).__name__)
            return None
        problems, g2, r2 = judge(g, r, op, info, res, depth)
        for kind, detail in problems:
            acc.violation(f"C03/{op_sig(op)}/{kind}", case, detail, size=len(hist) + 1)
        if g2 is None or r2 is None or problems:
            return None
        return g2, r2

    def explore(self, g, r, hist, depth_left_full, depth_left_reduced):
        acc = self.acc
        key = state_key(g)
        acc.state(key)
        depth = len(hist)
        budget = (depth_left_full, depth_left_reduced)
        prev = self.seen.get(key)
        if prev is not None and prev[0] >= budget[0] and prev[1] >= budget[1]:
            acc.info["pruned_by_state_dedup"] = acc.info.get("pruned_by_state_dedup", 0) + 1
            return
        self.seen[key] = budget
        if depth_left_full > 0:
            ops = self.full
        elif depth_left_reduced > 0:
            ops = self.reduced
        else:
            return
        for op in ops:
            nxt = self.step(g, r, op, depth, hist)
            h2 = hist + [op]
            if nxt is None:
                continue
            g2, r2 = nxt
            acc.trace("chain", depth=len(h2))
            k2 = state_key(g2)
            acc.outcome(k2)
            if k2 != key:
                acc.nontriv(k2)
            if len(h2) >= 2 and len(acc.samples) < 2:
                acc.sample({"initial": self.spec, "ops": h2, "result": RefGrid.from_real(g2).describe()})
            self.explore(g2, r2, h2, max(depth_left_full - 1, 0), depth_left_reduced - 1 if depth_left_full == 0 else depth_left_reduced)


BLOCK = 8  # first operations per shard (every shard runs in a freshly forked process)


def depth3_spec(i: int) -> bool:
    """Thorough tier: depth 3 (reduced alphabet) from every 4th initial grid; depth 2 (full alphabet) from all."""
    return i % 4 == 0


def shards(tier: str, seed: int):
    out = []
    for i, spec in enumerate(initial_specs(tier, seed)):
        D = len(spec["size"])
        nops = len(alphabet(D, tier))
        for j in range(0, nops, BLOCK):
            out.append({"tier": tier, "seed": seed, "spec": i, "first": j})
    return out


def run_shard(shard) -> Acc:
    acc = Acc()
    tier = shard["tier"]
    spec = initial_specs(tier, shard["seed"])[shard["spec"]]
    ex = Explorer(acc, spec, tier)
    r0 = rg.ref_grid(spec)
    g0 = rg.real_grid(spec)
    acc.state(state_key(g0))
    # initial state: real attributes must match the reference (construction route origin=)
    for kind, detail in compare(g0, r0, 0):
        acc.violation(f"C03/construct/{kind}", {"spec": spec, "ops": []}, detail, size=0)
    key0 = state_key(g0)
    for op in ex.full[shard["first"] : shard["first"] + BLOCK]:
        nxt = ex.step(g0, r0, op, 0, [])
        # derivation calls return NEW grids: the grid they were called on must be bit-identical afterwards
        if state_key(g0) != key0:
            acc.violation(f"C03/{op_sig(op)}/receiver-mutated", {"spec": spec, "ops": [op]}, "the grid the method was called on changed", size=1)
            g0 = rg.real_grid(spec)
        if nxt is None:
            continue
        g1, r1 = nxt
        acc.trace("chain", depth=1)
        acc.outcome(state_key(g1))
        if state_key(g1) != key0:
            acc.nontriv(state_key(g1))
        if tier == "quick":
            ex.explore(g1, r1, [op], 1, 0)
        elif depth3_spec(shard["spec"]):
            # depth 2 with the full alphabet, depth 3 with the reduced alphabet
            ex.explore(g1, r1, [op], 1, 1)
        else:
            ex.explore(g1, r1, [op], 1, 0)
    return acc


def replay(case):
    """Plain re-execution of a recorded chain; returns [(sig, detail)]."""
    spec = case["spec"]
    ops = [(o[0], o[1]) for o in case["ops"]]
    out = []
    g = rg.real_grid(spec)
    r = rg.ref_grid(spec)
    for kind, detail in compare(g, r, 0):
        out.append((f"C03/construct/{kind}", detail))
    hist = []
    for depth, op in enumerate(ops):
        info = ref_step(r, op)
        if info is None:
            break
        key_before = state_key(g)
        st, res = guarded(impl_step, g, op)
        if state_key(g) != key_before:
            out.append((f"C03/{op_sig(op)}/receiver-mutated", "the grid the method was called on changed"))
        if st == "raises":
            if isinstance(res, NotImplementedError):
                break
            kind = "raises=" + type(res).__name__
            if isinstance(res, AssertionError):
                kind += "/internal-consistency"
            out.append((f"C03/{op_sig(op)}/{kind}", exc_text(res)))
            break
        problems, g2, r2 = judge(g, r, op, info, res, depth)
        for kind, detail in problems:
            out.append((f"C03/{op_sig(op)}/{kind}", detail))
        if g2 is None or problems:
            break
        g, r = g2, r2
        hist.append(op)
    return out
