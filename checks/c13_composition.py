"""C13 - composition of flows and velocity fields obeys its algebra.

Stateless maps (compose_flows, lie_bracket, compose_svfs, logv o expv) explored over complete products of
field menus x align_corners x dtype x batch size x argument forms. Sub-checks:

    compose-affine     compose_flows(u, v, ac) == (U + V (I + U)) [x;1] for affine displacement pairs whose first
                       map keeps the sample hull invariant (verified by the reference), both conventions
    compose-identity   compose_flows(u, 0) == u (value identical), compose_flows(0, v) == v (rounding)
    compose-translation compose_flows(u, const) == u + const at every sample whose displaced position stays inside the
                       cube [-1,1]^D, also in the half-sample margin beyond the outermost sample centres
                       (align_corners=False): sub-sample shifts, expansions, generic u; both conventions
    compose-flag       compose_flows(u, v, ac) == u + (v interpolated multilinearly at x + u, border clamped) with
                       the sample positions of the GIVEN convention, for smooth / generic non-affine pairs
    bracket-antisym    lie_bracket(v, u) == -lie_bracket(u, v)
    bracket-bilinear   lie_bracket(a v1 + b v2, u) == a [v1,u] + b [v2,u] and the same in the second argument
    bch-commuting      compose_svfs(u, v, bch_terms=k) == u + v for commuting pairs, every k in 0..5
    bch-affine-series  compose_svfs on affine pairs equals the documented partial sum of the BCH series evaluated
                       with matrix commutators (finite differences are exact on affine fields)
    bch-affine-error   |compose_svfs_k - log(exp(V) exp(U))| does not grow with k (exact, no discretisation error)
    bch-smooth-error   non-commuting smooth pairs: |exp(w_k) - exp(v) o exp(u)| does not grow with k beyond the
                       interpolation floor (exp and o evaluated by the float64 reference)
    call-sequence      depth-2 model checking against hidden state: for every shape all ordered pairs [X, Y] of
                       configurations (align_corners x dtype) of compose_flows and of compose_svfs, plus other-shape /
                       logv / expv / lie_bracket predecessors, are called one after the other in ONE process and every
                       call is judged by its closed form (a stateless API must not remember earlier calls)
    spacing-forms      lie_bracket / compose_svfs with every form of `spacing` x N in {1,2,3}: batched == per-item,
                       antisymmetry, bilinearity, closed forms on affine fields sampled with per-item spacing
    logv-options       logv(expv(v)) over exp_steps {0,1,default} x num_iters {1,2,3} x sigma {None,1} x bch_terms {0,1}:
                       error <= 0.5 A, given field not overwritten, call repeatable
    input-unchanged    every anchor function (expv option lattice, compose_flows, compose_svfs, lie_bracket, logv option
                       lattice): the field arguments are bit-identical and unwritten (_version) after the call
    layout             either / both field arguments of compose_flows, compose_svfs, lie_bracket, logv and an (N,D) spacing
                       tensor given as transposed view, step-sliced view, stride-0 expanded batch: no exception,
                       result equal to the contiguous form, arguments (and the buffer a view lives in) unchanged
    logv-roundtrip     |logv(expv(v)) - v| <= 0.5 A samples, err(A) <= 8 err(A/2) + 1e-4, and the errors under the
                       two conventions stay within a factor 1.5 (+1e-4) of each other
"""
from __future__ import annotations

import itertools

import numpy as np
import torch

from mc.core import Acc, exc_text, guarded, h64
from ref import flowalg as fa

PROPERTY = "C13"
RULE = (
    "complete products of field menus (affine generators with hull invariance verified by the reference, smooth "
    "band-limited fields vanishing on the boundary with amplitudes 0.05..0.5 samples, generic non-affine fields) x "
    "align_corners x float32/float64 x batch sizes x bch_terms 0..5 x num_iters {1,3,5} x keyword forms; every form of the "
    "spacing argument (None, scalar, (D,), (1,D), (N,1), (N,D) tensor and nested list with different rows) x N in {1,2,3} "
    "for lie_bracket / compose_svfs; the option lattice exp_steps {0,1,default} x num_iters {1,2,3} x sigma {None,1} x "
    "bch_terms {0,1} of logv and steps {0,1,default} x scale {None,1,0.5,-1} x inverse of expv, each call also judged for "
    "leaving the given fields bit-identical; ordered call sequences (hidden state); memory layouts (transposed view, "
    "step-sliced view, stride-0 batch) of either / both field arguments and of an (N,D) spacing tensor on a reduced menu; distinct = "
    "hash of the returned tensor; non-trivial = the result differs from the trivial answer (u+v for compositions, 0 "
    "for brackets) by more than 1e-3 of its magnitude, or for round trips the displacement exceeds half the amplitude"
)
EXPLANATION = "bounded exhaustive enumeration of composition calls, argument forms, option boundary values and call sequences against closed forms, algebraic relations and input fingerprints"
ASSUMPTIONS = [
    "compose_flows on affine pairs is judged only if the reference verifies that x -> x + u(x) maps the sample hull "
    "(half width 1 for align_corners=True, 1-1/n otherwise) into itself; the second field is unconstrained",
    "tolerances: 64*eps*(field magnitude + n_max * largest neighbour difference of the sampled field) for sampling; "
    "for brackets the rounding model eps * 2 D (n_max-1) |a| |b| per bracket, propagated through nested brackets with "
    "gain 2 D (n_max-1) |a| (finite differences divide by the spacing 2/(n-1)), plus the exact float32 rounding error "
    "of the spacing (spatial_derivatives stores it as float32 for every data dtype) times |Jac|; all scaled by 64",
    "fields sampled with align_corners=False are passed to compose_svfs together with their sample spacing 2/n "
    "(compose_svfs has no align_corners argument; its default spacing 2/(n-1) is the align_corners=True lattice)",
    "the BCH partial sums are the ones documented in the docstring of compose_svfs (u applied first)",
    "smooth-pair BCH errors are compared up to the interpolation floor 0.25*(A_u*S2(u) + A_v*S2(v)) samples, "
    "S2 = sum over axes of the largest second difference; this relation is the weakest claim (DESIGN section 7)",
    "logv bound 0.5*A samples and the factors 8 and 1.5 are the constants stated in DESIGN.md section 4 (C13); "
    "observed on the pinned tree: err = 0.04..0.27 A^2, err(A)/err(A/2) = 3.7..4, convention ratio 0.84..1.19",
    "spacing forms: item i of a batch is an affine (or generic) field sampled on a centred lattice with the spacing the "
    "form denotes for that item; expected bracket (VU-UV)x and documented BCH partial sums; the per-item reference call "
    "passes the item's row as a (D,) vector; tolerance = the bracket rounding model with that item's smallest spacing",
    "input-unchanged: bit pattern (NaN-safe), data_ptr, shape/stride and Tensor._version of every field argument before "
    "and after the call; returning the argument itself (expv steps=0, scale 1) is allowed, writing into it is not",
    "CPU tensors; D in {2, 3}",
]
MIN_NONTRIVIAL = {"quick": 5000, "thorough": 12000}
MIN_OUTCOMES = {"quick": 8000, "thorough": 17000}
MIN_SUB_TRACES = {
    "compose-affine": 1000, "compose-identity": 200, "compose-flag": 100, "bracket-antisym": 100,
    "bracket-bilinear": 500, "bch-commuting": 500, "bch-affine-series": 500, "bch-affine-error": 50,
    "bch-smooth-error": 20, "logv-roundtrip": 100, "call-sequence": 150, "compose-translation": 500,
    "spacing-forms": 300, "input-unchanged": 400, "logv-options": 200, "layout": 120,
}

C = 64.0
EPS = {"f32": 2.0 ** -23, "f64": 2.0 ** -52}
DT = {"f32": torch.float32, "f64": torch.float64}


# ---------------------------------------------------------------------------
# menus
def affine_shapes(tier):
    q = [(17, 17), (16, 21), (9, 10, 11), (2, 3), (5, 7), (3, 4, 5)]
    return q if tier == "quick" else q + [(2, 2), (8, 8), (4, 9), (6, 5, 4), (2, 5, 3), (7, 3, 9)]


def smooth_shapes(tier):
    q = [(17, 17), (16, 21), (9, 10, 11)]
    return q if tier == "quick" else q + [(33, 33), (12, 9), (9, 9, 9)]


def _gen(name, D, seed):
    from checks.c11_expv import generator

    return generator(name, D, seed)


U_NAMES = ["diag", "iso", "rot", "shear", "generic", "strong"]
V_NAMES = U_NAMES + ["expand", "skew"]


def disp_matrix(name: str, D: int, seed: int) -> np.ndarray:
    """Homogeneous displacement matrix (last row zero) of an affine field, cube units."""
    if name in U_NAMES:
        return _gen(name, D, seed)
    if name == "expand":
        return fa.hom(0.5 * np.eye(D), [0.2, -0.15, 0.1][:D])
    if name == "skew":
        J = np.array([[0.0, -1.0], [1.0, 0.0]]) if D == 2 else np.array([[0.0, -1.0, 1.0], [1.0, 0.0, -1.0], [-1.0, 1.0, 0.0]])
        return fa.hom(0.5 * J, [-0.1, 0.05, 0.15][:D])
    if name == "small":
        return 0.25 * _gen("generic", D, seed + 1)
    raise KeyError(name)


def field(spec: str, shape, ac: bool, seed: int) -> np.ndarray:
    """Menu of fields by name: 'aff:<name>[*c]', 'smooth:<a|b>:<A samples>', 'generic:<amp cube units>[:<table shift>]',
    'const:<i>', 'zero'."""
    shape = tuple(shape)
    D = len(shape)
    kind, _, rest = spec.partition(":")
    if kind == "aff":
        name, _, c = rest.partition("*")
        return (float(c) if c else 1.0) * fa.affine_field(disp_matrix(name, D, seed), shape, ac)
    if kind == "smooth":
        which, amp = rest.split(":")
        return fa.smooth_field(shape, ac, which, seed, float(amp))
    if kind == "generic":
        parts = rest.split(":")
        return fa.generic_field(shape, ac, seed + (int(parts[1]) if len(parts) > 1 else 0), float(parts[0]))
    if kind == "const":
        vals = [[0.1, -0.2, 0.05], [-0.07, 0.03, 0.11]][int(rest)]
        return np.stack([np.full(shape, c) for c in vals[:D]])
    if kind == "zero":
        return np.zeros((D,) + shape)
    if kind == "scaling":
        # simultaneous diagonal scalings about a common centre: commute with each other
        a = np.array([[-0.5, -0.25, -0.4], [-0.3, -0.6, 0.2]][int(rest)][:D])
        c = np.array([0.2, -0.1, 0.3][:D])
        return fa.affine_field(fa.hom(np.diag(a), -a * c), shape, ac)
    if kind == "mul":
        c, _, inner = rest.partition("|")
        return float(c) * field(inner, shape, ac, seed)
    raise KeyError(spec)


def commuting_pairs():
    return [
        ("smooth:a:0.5", "mul:-1.75|smooth:a:0.5", True),
        ("generic:0.1", "mul:0.6|generic:0.1", True),
        ("aff:rot", "mul:0.6|aff:rot", True),
        ("aff:strong", "mul:-0.5|aff:strong", False),
        ("const:0", "const:1", True),
        ("scaling:0", "scaling:1", False),
        ("zero", "smooth:b:0.5", True),
    ]


def bounds(tier):
    return {
        "affine_shapes": [list(s) for s in affine_shapes(tier)],
        "smooth_shapes": [list(s) for s in smooth_shapes(tier)],
        "align_corners": [True, False],
        "dtypes": ["float32", "float64"],
        "batch_sizes": [1, 2],
        "first_fields": U_NAMES,
        "second_fields": V_NAMES,
        "bch_terms": list(range(6)),
        "num_iters": [1, 3, 5],
        "amplitudes_samples": [0.1, 0.25, 0.5, 0.05, 0.125],
        "bilinear_coefficients": [[2.0, -0.5], [-0.5, 2.0]],
        "commuting_pairs": [list(p[:2]) for p in commuting_pairs()],
        "spacing_forms": SPACING_FORMS,
        "spacing_batch_sizes": [1, 2, 3],
        "spacing_rows_per_item": H_ROWS,
        "spacing_shapes": [list(s) for s in SPACING_SHAPES],
        "logv_options": {"exp_steps": [0, 1, None], "num_iters": [1, 2, 3], "sigma": [None, 1.0], "bch_terms": [0, 1], "amplitudes": [0.1, 0.5]},
        "anchor_calls_fingerprinted": len(anchor_calls(2)),
        "layout_forms": LAYOUT_FORMS,
        "layout_functions": [f[0] for f in layout_functions()],
        "layout_targets": ["first", "second", "both", "spacing"],
    }


# ---------------------------------------------------------------------------
class Result:
    def __init__(self):
        self.problems = []
        self.trans = 0
        self.outcomes = []
        self.nontriv = []
        self.undef = []
        self.judged = 0

    def bad(self, sig, detail):
        self.problems.append((sig, detail))


def _np(t):
    return t.detach().double().numpy()


def _t(a, dtype):
    return torch.tensor(np.ascontiguousarray(a), dtype=DT[dtype])


def _tail(case):
    s = f"{case['dtype']}/N={case.get('N', 1)}"
    if "ac" in case:
        s = f"ac={'T' if case['ac'] else 'F'}/" + s
    return s


def max_step(f: np.ndarray) -> float:
    """Largest difference between neighbouring samples (any axis)."""
    m = 0.0
    for ax in range(1, f.ndim):
        if f.shape[ax] > 1:
            m = max(m, float(np.abs(np.diff(f, axis=ax)).max()))
    return m


def s2(vs: np.ndarray) -> float:
    return float(sum(np.abs(np.diff(vs, 2, axis=ax)).max() for ax in range(1, vs.shape[0] + 1)))


def _ok_tensor(out, shape):
    return isinstance(out, torch.Tensor) and tuple(out.shape) == tuple(shape)


# ---------------------------------------------------------------------------
def case_compose_affine(case) -> Result:
    from deepali.core.flow import compose_flows

    r = Result()
    shape, ac, dtype, N = tuple(case["shape"]), case["ac"], case["dtype"], case["N"]
    D = len(shape)
    un = [case["u"]] + ([U_NAMES[(U_NAMES.index(case["u"]) + 1) % len(U_NAMES)]] if N == 2 else [])
    vn = [case["v"]] + ([V_NAMES[(V_NAMES.index(case["v"]) + 3) % len(V_NAMES)]] if N == 2 else [])
    Us = [disp_matrix(n, D, case["seed"]) for n in un]
    Vs = [disp_matrix(n, D, case["seed"]) for n in vn]
    u = np.stack([fa.affine_field(M, shape, ac) for M in Us])
    v = np.stack([fa.affine_field(M, shape, ac) for M in Vs])
    tail = _tail(case) + f"/form={case['form']}"
    tu, tv = _t(u, dtype), _t(v, dtype)
    if case["form"] == "kw":
        st, out = guarded(lambda: compose_flows(tu, tv, align_corners=ac))
    elif case["form"] == "pos":
        st, out = guarded(lambda: compose_flows(tu, tv, ac))
    else:  # documented default align_corners=True
        st, out = guarded(lambda: compose_flows(tu, tv))
    r.trans += 1
    if st == "raises":
        r.bad(f"C13/compose-affine/{tail}/raises={type(out).__name__}", exc_text(out))
        return r
    if not _ok_tensor(out, u.shape):
        r.bad(f"C13/compose-affine/{tail}/shape", f"{type(out).__name__} {getattr(out, 'shape', None)}")
        return r
    if out.dtype != DT[dtype]:
        r.bad(f"C13/compose-affine/{tail}/dtype", f"{out.dtype}")
    o = _np(out)
    r.outcomes.append(h64(o))
    h = fa.half_widths(shape, ac)
    for i in range(N):
        if not fa.maps_hull_into_itself(np.eye(D + 1) + Us[i], h):
            r.undef.append("first-map-leaves-sample-hull")
            continue
        W = fa.compose_affine(Us[i], Vs[i])
        exp = fa.affine_field(W, shape, ac)
        tol = C * EPS[dtype] * (fa.norm_inf(Us[i]) + 3.0 * fa.norm_inf(Vs[i]))
        err = float(np.abs(o[i] - exp).max())
        r.judged += 1
        if not np.isfinite(err) or err > tol:
            r.bad(
                f"C13/compose-affine/{tail}/mismatch",
                f"max |compose_flows(u,v) - (U+V(I+U))x| = {err:.3e} > tol {tol:.2e} (u={un[i]}, v={vn[i]}, shape {shape}, item {i})",
            )
        if float(np.abs(o[i] - (u[i] + v[i])).max()) > 1e-3 * fa.norm_inf(Vs[i]):
            r.nontriv.append(h64("ca", case["shape"], ac, un[i], vn[i]))
    return r


IDENTITY_FIELDS = ["aff:rot", "aff:expand", "generic:0.3", "generic:0.02:1", "smooth:a:0.5", "const:0"]


def case_compose_identity(case) -> Result:
    from deepali.core.flow import compose_flows

    r = Result()
    shape, ac, dtype, N = tuple(case["shape"]), case["ac"], case["dtype"], case["N"]
    specs = [case["field"]] + ([IDENTITY_FIELDS[(IDENTITY_FIELDS.index(case["field"]) + 1) % len(IDENTITY_FIELDS)]] if N == 2 else [])
    if any(s.startswith("smooth") for s in specs) and min(shape) < 4:
        r.undef.append("smooth-field-needs-interior-samples")
        return r
    f = np.stack([field(s, shape, ac, case["seed"]) for s in specs])
    tf = _t(f, dtype)
    zero = torch.zeros_like(tf)
    tail = _tail(case)
    st, right = guarded(lambda: compose_flows(tf, zero, align_corners=ac))
    st2, left = guarded(lambda: compose_flows(zero, tf, align_corners=ac))
    r.trans += 2
    for name, s, out in (("right", st, right), ("left", st2, left)):
        if s == "raises":
            r.bad(f"C13/compose-identity/side={name}/{tail}/raises={type(out).__name__}", exc_text(out))
        elif not _ok_tensor(out, f.shape):
            r.bad(f"C13/compose-identity/side={name}/{tail}/shape", f"{type(out).__name__} {getattr(out, 'shape', None)}")
    if r.problems:
        return r
    r.judged += 1
    r.outcomes += [h64(_np(right)), h64(_np(left))]
    if float(tf.abs().max()) > 0:
        r.nontriv.append(h64("ci", case["shape"], ac, specs, dtype))
    if not torch.equal(right, tf):
        r.bad(f"C13/compose-identity/side=right/{tail}/not-identical", f"compose_flows(u, 0) differs from u by {float((right - tf).abs().max()):.3e} (field {specs})")
    ff = _np(tf)
    tol = C * EPS[dtype] * (float(np.abs(ff).max()) + max(shape) * max_step(ff))
    err = float(np.abs(_np(left) - ff).max())
    if not np.isfinite(err) or err > tol:
        r.bad(f"C13/compose-identity/side=left/{tail}/mismatch", f"compose_flows(0, v) differs from v by {err:.3e} > tol {tol:.2e} (field {specs}, shape {shape})")
    return r


FLAG_PAIRS = [
    ("smooth:a:0.5", "smooth:b:0.5"), ("smooth:a:1.5", "generic:0.1"), ("generic:0.08", "smooth:b:0.25"),
    ("generic:0.2", "generic:0.15:1"), ("smooth:b:0.75", "aff:expand"), ("aff:skew", "generic:0.1:2"),
]


def case_compose_flag(case) -> Result:
    from deepali.core.flow import compose_flows

    r = Result()
    shape, ac, dtype, N = tuple(case["shape"]), case["ac"], case["dtype"], case["N"]
    pairs = [FLAG_PAIRS[case["pair"]]] + ([FLAG_PAIRS[(case["pair"] + 1) % len(FLAG_PAIRS)]] if N == 2 else [])
    u = np.stack([field(p[0], shape, ac, case["seed"]) for p in pairs])
    v = np.stack([field(p[1], shape, ac, case["seed"]) for p in pairs])
    tu, tv = _t(u, dtype), _t(v, dtype)
    tail = _tail(case)
    st, out = guarded(lambda: compose_flows(tu, tv, align_corners=ac))
    r.trans += 1
    if st == "raises":
        r.bad(f"C13/compose-flag/{tail}/raises={type(out).__name__}", exc_text(out))
        return r
    if not _ok_tensor(out, u.shape):
        r.bad(f"C13/compose-flag/{tail}/shape", f"{type(out).__name__} {getattr(out, 'shape', None)}")
        return r
    o = _np(out)
    r.outcomes.append(h64(o))
    uu, vv = _np(tu), _np(tv)
    for i in range(N):
        exp = fa.compose_ref(uu[i], vv[i], ac)
        other = fa.compose_ref(uu[i], vv[i], not ac)
        tol = C * EPS[dtype] * (float(np.abs(uu[i]).max()) + float(np.abs(vv[i]).max()) + max(shape) * max_step(vv[i]) * (1.0 + float(np.abs(fa.to_samples(uu[i], ac)).max())))
        # judged only where x + u(x) stays inside the sample hull: the property says nothing about extrapolation
        # (padding) beyond the first / last sample
        idx = fa.index_points(shape) + np.moveaxis(fa.to_samples(uu[i], ac), 0, -1)
        nx = fa.sizes_xfirst(shape)
        inside = np.all((idx >= -1e-9) & (idx <= nx - 1.0 + 1e-9), axis=-1)
        if not inside.all():
            r.undef.append("displaced-samples-outside-the-sample-hull-not-judged")
        if inside.sum() < 0.5 * inside.size:
            continue
        err = float(np.abs(o[i] - exp)[:, inside].max())
        r.judged += 1
        if float(np.abs(exp - other)[:, inside].max()) > 1e3 * tol:
            r.nontriv.append(h64("cf", case["shape"], ac, pairs[i], dtype))
        if not np.isfinite(err) or err > tol:
            eo = float(np.abs(o[i] - other)[:, inside].max())
            r.bad(
                f"C13/compose-flag/{tail}/mismatch",
                f"max |compose_flows - reference(ac={ac})| = {err:.3e} > tol {tol:.2e}; distance to the reference of the other convention {eo:.3e} (pair {pairs[i]}, shape {shape})",
            )
    return r


# ---------------------------------------------------------------------------
BRACKET_FIELDS = ["aff:rot", "aff:expand", "smooth:a:0.5", "smooth:b:0.25", "generic:0.1"]
BRACKET_KW = ["default", "sigma=1", "mode=central", "spacing=explicit"]


def bracket_kwargs(form: str, shape):
    if form == "default":
        return {}, None
    if form == "sigma=1":
        return {"sigma": 1.0}, None
    if form == "mode=central":
        return {"mode": "central"}, None
    if form == "spacing=explicit":
        sp = tuple(2.0 / n for n in reversed(shape))  # x first: the align_corners=False sample spacing
        return {"spacing": sp}, min(sp)
    raise KeyError(form)


def gain(shape, D, hmin=None):
    """Bound of |Jac(a)| / |a| for finite differences, times D rows (cube units)."""
    if hmin is None:
        hmin = 2.0 / (max(shape) - 1)
    return 2.0 * D * (2.0 / hmin)


def case_bracket(case) -> Result:
    from deepali.core.flow import lie_bracket

    r = Result()
    shape, dtype, N = tuple(case["shape"]), case["dtype"], case["N"]
    D = len(shape)
    ac = True
    kw, hmin = bracket_kwargs(case["kw"], shape)
    g = gain(shape, D, hmin)
    eps = EPS[dtype]
    tail = f"kw={case['kw']}/" + _tail({"dtype": dtype, "N": N})

    def fld(spec):
        f = field(spec, shape, ac, case["seed"])
        return np.stack([f, 0.5 * f[::-1].copy() + 0.01]) if N == 2 else f[None]

    def lb(a, b):
        return lie_bracket(a, b, **kw)

    if case["kind"] == "bracket-antisym":
        v, u = _t(fld(case["v"]), dtype), _t(fld(case["u"]), dtype)
        st, a = guarded(lb, v, u)
        st2, b = guarded(lb, u, v)
        r.trans += 2
        for s, out in ((st, a), (st2, b)):
            if s == "raises":
                r.bad(f"C13/bracket-antisym/{tail}/raises={type(out).__name__}", exc_text(out))
                return r
            if not _ok_tensor(out, v.shape):
                r.bad(f"C13/bracket-antisym/{tail}/shape", f"{type(out).__name__} {getattr(out, 'shape', None)}")
                return r
        r.judged += 1
        an, bn = _np(a), _np(b)
        r.outcomes.append(h64(an))
        mv, mu = float(v.abs().max()), float(u.abs().max())
        tol = C * eps * g * mv * mu * 2.0
        if float(np.abs(an).max()) > 1e3 * tol:
            r.nontriv.append(h64("ba", case["shape"], case["v"], case["u"], case["kw"], dtype, N))
        err = float(np.abs(an + bn).max())
        if not np.isfinite(err) or err > tol:
            r.bad(f"C13/bracket-antisym/{tail}/mismatch", f"max |[v,u] + [u,v]| = {err:.3e} > tol {tol:.2e}; |[v,u]| = {float(np.abs(an).max()):.3e} (v={case['v']}, u={case['u']}, shape {shape})")
        return r

    # bilinearity in one argument
    a_, b_ = case["coef"]
    v1, v2, u = _t(fld(case["v1"]), dtype), _t(fld(case["v2"]), dtype), _t(fld(case["u"]), dtype)
    comb = v1 * a_ + v2 * b_
    first = case["arg"] == 1
    calls = [(comb, u), (v1, u), (v2, u)] if first else [(u, comb), (u, v1), (u, v2)]
    outs = []
    for x, y in calls:
        st, out = guarded(lb, x, y)
        r.trans += 1
        if st == "raises":
            r.bad(f"C13/bracket-bilinear/arg={case['arg']}/{tail}/raises={type(out).__name__}", exc_text(out))
            return r
        if not _ok_tensor(out, u.shape):
            r.bad(f"C13/bracket-bilinear/arg={case['arg']}/{tail}/shape", f"{type(out).__name__} {getattr(out, 'shape', None)}")
            return r
        outs.append(_np(out))
    r.judged += 1
    r.outcomes.append(h64(outs[0]))
    m1, m2, mu = float(v1.abs().max()), float(v2.abs().max()), float(u.abs().max())
    tol = C * eps * g * (abs(a_) * m1 + abs(b_) * m2) * mu * 3.0
    rhs = a_ * outs[1] + b_ * outs[2]
    if float(np.abs(outs[0]).max()) > 1e3 * tol:
        r.nontriv.append(h64("bb", case["shape"], case["v1"], case["v2"], case["u"], case["kw"], case["arg"], case["coef"], dtype, N))
    err = float(np.abs(outs[0] - rhs).max())
    if not np.isfinite(err) or err > tol:
        r.bad(
            f"C13/bracket-bilinear/arg={case['arg']}/{tail}/mismatch",
            f"max |[a v1 + b v2, u] - a[v1,u] - b[v2,u]| = {err:.3e} > tol {tol:.2e} (a={a_}, b={b_}, v1={case['v1']}, v2={case['v2']}, u={case['u']}, shape {shape})",
        )
    return r


# ---------------------------------------------------------------------------
def spacing_rel_error(shape, ac_spacing: bool) -> float:
    """Exact relative rounding error of the float32 spacing used for finite differences (spatial_derivatives
    stores the spacing as float32 whatever the data dtype): max_j |fl32(h_j) - h_j| / h_j, possibly 0."""
    worst = 0.0
    for n in shape:
        h = 2.0 / n if ac_spacing else 2.0 / (n - 1)
        worst = max(worst, abs(float(np.float32(h)) - h) / h)
    return worst


def jac_bound(f: np.ndarray, shape, hmin=None) -> float:
    """Bound of the row sums of |Jac(f)| from neighbour differences (cube units)."""
    if hmin is None:
        hmin = 2.0 / (max(shape) - 1)
    return len(shape) * max_step(f) / hmin


def bch_noise(mu, ju, mv, jv, terms, g, eps, e32, exact=None):
    """Rounding model of compose_svfs: absolute noise bound (without the factor C).

    m*: magnitudes, j*: Jacobian magnitudes of u, v. exact: magnitudes (m_vu, j_vu, m_vvu, j_vvu) of the exact
    brackets [v,u] and [v,[v,u]] (None = 0 for commuting pairs). A bracket [a,b] of fields with magnitudes ma, mb,
    Jacobians ja, jb and absolute noise na, nb has
        fresh rounding of the differences      2 eps g ma mb          (g = 2 D (2/h): differences divided by h)
        float32 rounding of the spacing        e32 (ja mb + jb ma)
        propagated input noise                 g (na mb + ma nb)."""
    m_vu, j_vu, m_vvu, j_vvu = exact if exact is not None else (0.0, 0.0, 0.0, 0.0)
    nu, nv = eps * mu, eps * mv

    def br(ma, ja, na, mb, jb, nb):
        return 2.0 * eps * g * ma * mb + e32 * (ja * mb + jb * ma) + g * (na * mb + ma * nb)

    tot = nu + nv + eps * (mu + mv)
    if terms >= 1:
        n_vu = br(mv, jv, nv, mu, ju, nu)
        tot += 0.5 * n_vu
        mvu, jvu = m_vu + n_vu, j_vu + 0.5 * g * n_vu
    if terms >= 2:
        n_vvu = br(mv, jv, nv, mvu, jvu, n_vu)
        tot += n_vvu / 12.0
        mvvu, jvvu = m_vvu + n_vvu, j_vvu + 0.5 * g * n_vvu
    if terms >= 3:
        tot += br(mu, ju, nu, mvu, jvu, n_vu) / 12.0
    if terms >= 4:
        tot += br(mu, ju, nu, mvvu, jvvu, n_vvu) * ((1.0 if terms == 4 else 2.0) / 48.0)
    return tot


def lin_norm(M: np.ndarray) -> float:
    D = M.shape[0] - 1
    return float(np.abs(M[:D, :D]).sum(axis=1).max())


def affine_noise(U, V, terms, shape, D, dtype, ac_spacing):
    vu = fa.comm(V, U)
    vvu = fa.comm(V, vu)
    hmin = 2.0 / max(shape) if ac_spacing else None
    return bch_noise(
        fa.norm_inf(U), lin_norm(U), fa.norm_inf(V), lin_norm(V), terms, gain(shape, D, hmin), EPS[dtype],
        spacing_rel_error(shape, ac_spacing), (fa.norm_inf(vu), lin_norm(vu), fa.norm_inf(vvu), lin_norm(vvu)),
    )


def _svfs(tu, tv, k, kwform, spacing=None):
    """compose_svfs call. spacing: None (documented default 2/(n-1): fields sampled with align_corners=True) or the
    per-axis sample spacing (x first) of fields sampled with align_corners=False."""
    from deepali.core.flow import compose_svfs

    kw = {} if spacing is None else {"spacing": tuple(spacing)}
    if kwform == "default":
        return compose_svfs(tu, tv, bch_terms=k, **kw)
    if kwform == "sigma=1":
        return compose_svfs(tu, tv, bch_terms=k, sigma=1.0, **kw)
    if kwform == "documented-default-terms":
        return compose_svfs(tu, tv, **kw)
    raise KeyError(kwform)


def sample_spacing(shape, ac: bool):
    """Sample spacing in cube units, x first; None for the default convention."""
    return None if ac else [2.0 / n for n in reversed(shape)]


def case_bch_commuting(case) -> Result:
    r = Result()
    shape, ac, dtype, N = tuple(case["shape"]), case["ac"], case["dtype"], case["N"]
    D = len(shape)
    k = case["terms"]
    pu, pv, _ = commuting_pairs()[case["pair"]]
    if ("smooth" in pu or "smooth" in pv) and min(shape) < 4:
        r.undef.append("smooth-field-needs-interior-samples")
        return r
    u, v = field(pu, shape, ac, case["seed"]), field(pv, shape, ac, case["seed"])
    if case.get("swap"):
        u, v = v, u
    if N == 2:
        u, v = np.stack([u, v]), np.stack([v, u])
    else:
        u, v = u[None], v[None]
    tu, tv = _t(u, dtype), _t(v, dtype)
    tail = f"kw={case['kw']}/" + _tail(case) + f"/terms={k}"
    st, out = guarded(_svfs, tu, tv, k, case["kw"], sample_spacing(shape, ac) if case.get("spacing") else None)
    r.trans += 1
    if st == "raises":
        r.bad(f"C13/bch-commuting/{tail}/raises={type(out).__name__}", exc_text(out))
        return r
    if not _ok_tensor(out, u.shape):
        r.bad(f"C13/bch-commuting/{tail}/shape", f"{type(out).__name__} {getattr(out, 'shape', None)}")
        return r
    o = _np(out)
    r.outcomes.append(h64(o))
    r.judged += 1
    uu, vv = _np(tu), _np(tv)
    mu, mv = float(np.abs(uu).max()), float(np.abs(vv).max())
    sp = sample_spacing(shape, ac) if case.get("spacing") else None
    tol = C * bch_noise(mu, jac_bound(uu, shape), mv, jac_bound(vv, shape), k, gain(shape, D, None if sp is None else min(sp)), EPS[dtype], spacing_rel_error(shape, sp is not None))
    err = float(np.abs(o - (uu + vv)).max())
    if mu > 0 and mv > 0 and k > 0:
        r.nontriv.append(h64("bc", case["shape"], ac, case["pair"], k, case["kw"], dtype, N, case.get("swap")))
    if not np.isfinite(err) or err > tol:
        r.bad(f"C13/bch-commuting/{tail}/not-the-sum", f"max |compose_svfs(u,v,{k}) - (u+v)| = {err:.3e} > tol {tol:.2e} (pair {pu} / {pv}, shape {shape})")
    return r


ORDER_STEPS = [(0, 1), (1, 2), (2, 3), (3, 4), (4, 5), (1, 3), (3, 5)]
AFFINE_PAIRS = [("rot", "shear"), ("generic", "skew"), ("diag", "rot"), ("expand", "shear"), ("small", "skew"), ("strong", "generic")]


def _affine_pair(case, D):
    nu, nv = AFFINE_PAIRS[case["pair"]]
    s = case["amp"]
    return s * disp_matrix(nu, D, case["seed"]), s * disp_matrix(nv, D, case["seed"]), nu, nv


def case_bch_affine_series(case) -> Result:
    r = Result()
    shape, ac, dtype, N = tuple(case["shape"]), case["ac"], case["dtype"], case["N"]
    D = len(shape)
    k = case["terms"]
    U, V, nu, nv = _affine_pair(case, D)
    pairs = [(U, V)] + ([(V, U)] if N == 2 else [])
    u = np.stack([fa.affine_field(p[0], shape, ac) for p in pairs])
    v = np.stack([fa.affine_field(p[1], shape, ac) for p in pairs])
    tail = f"kw={case['kw']}/" + _tail(case) + f"/terms={k}"
    st, out = guarded(_svfs, _t(u, dtype), _t(v, dtype), k, case["kw"], sample_spacing(shape, ac))
    r.trans += 1
    if st == "raises":
        r.bad(f"C13/bch-affine-series/{tail}/raises={type(out).__name__}", exc_text(out))
        return r
    if not _ok_tensor(out, u.shape):
        r.bad(f"C13/bch-affine-series/{tail}/shape", f"{type(out).__name__} {getattr(out, 'shape', None)}")
        return r
    o = _np(out)
    r.outcomes.append(h64(o))
    kk = 3 if case["kw"] == "documented-default-terms" else k
    for i, (A, B) in enumerate(pairs):
        W = fa.bch_series(A, B, kk)
        exp = fa.affine_field(W, shape, ac)
        tol = C * affine_noise(A, B, kk, shape, D, dtype, not ac)
        err = float(np.abs(o[i] - exp).max())
        r.judged += 1
        if kk > 0 and fa.norm_inf(W - A - B) > 1e3 * tol:
            r.nontriv.append(h64("bs", case["shape"], ac, case["pair"], case["amp"], kk, dtype, i))
        if not np.isfinite(err) or err > tol:
            r.bad(
                f"C13/bch-affine-series/{tail}/mismatch",
                f"max |compose_svfs(u,v,{kk}) - documented BCH partial sum| = {err:.3e} > tol {tol:.2e} (u={nu}, v={nv}, amp {case['amp']}, shape {shape}, item {i})",
            )
    return r


def case_bch_affine_error(case) -> Result:
    r = Result()
    shape, ac, dtype = tuple(case["shape"]), case["ac"], case["dtype"]
    D = len(shape)
    U, V, nu, nv = _affine_pair(case, D)
    u, v = fa.affine_field(U, shape, ac)[None], fa.affine_field(V, shape, ac)[None]
    tu, tv = _t(u, dtype), _t(v, dtype)
    Wtrue = fa.logm(fa.expm(V) @ fa.expm(U))
    target = fa.affine_field(Wtrue, shape, ac)
    tail = _tail(case)
    e, eref, tols = [], [], []
    for k in range(6):
        st, out = guarded(_svfs, tu, tv, k, "default", sample_spacing(shape, ac))
        r.trans += 1
        if st == "raises":
            r.bad(f"C13/bch-affine-error/{tail}/raises={type(out).__name__}", exc_text(out))
            return r
        if not _ok_tensor(out, u.shape):
            r.bad(f"C13/bch-affine-error/{tail}/shape", f"{type(out).__name__} {getattr(out, 'shape', None)}")
            return r
        o = _np(out)[0]
        r.outcomes.append(h64(o))
        e.append(float(np.abs(o - target).max()))
        eref.append(float(np.abs(fa.affine_field(fa.bch_series(U, V, k), shape, ac) - target).max()))
        tols.append(C * affine_noise(U, V, k, shape, D, dtype, not ac))
    r.judged += 1
    if eref[0] > 10 * eref[5] and eref[0] > 1e3 * tols[5]:
        r.nontriv.append(h64("be", case["shape"], ac, case["pair"], case["amp"], dtype))
    # consecutive term counts, and the complete orders of the series (terms 0, 1, 3, 5 = orders 1, 2, 3, 4).
    # The exact partial sums are themselves not monotone for every pair (adding one of the two third-order
    # brackets alone can overshoot): a step is judged only where the exact series does not grow (domain predicate).
    for a, b in ORDER_STEPS:
        if eref[b] > eref[a]:
            r.undef.append("exact-bch-partial-sums-grow-on-this-step")
            continue
        if not np.isfinite(e[b]) or e[b] > e[a] + tols[b]:
            r.bad(
                f"C13/bch-affine-error/{tail}/grows",
                f"|w_k - log(exp(V)exp(U))| grows from terms={a} ({e[a]:.3e}) to terms={b} ({e[b]:.3e}); exact series {eref[a]:.3e} -> {eref[b]:.3e} (u={nu}, v={nv}, amp {case['amp']}, shape {shape})",
            )
    return r


def case_bch_smooth_error(case) -> Result:
    r = Result()
    shape, ac, dtype = tuple(case["shape"]), case["ac"], case["dtype"]
    A = case["amp"]
    us = fa.smooth_field_samples(shape, "a", case["seed"], A)
    vs = fa.smooth_field_samples(shape, "b", case["seed"], A)
    u, v = fa.from_samples(us, ac), fa.from_samples(vs, ac)
    tu, tv = _t(u[None], dtype), _t(v[None], dtype)
    uu, vv = _np(tu)[0], _np(tv)[0]
    target = fa.compose_ref(fa.expv_ref(uu, 8, ac), fa.expv_ref(vv, 8, ac), ac)
    tail = _tail(case)
    floor = 0.25 * A * (s2(us) + s2(vs))
    e = []
    for k in range(6):
        st, out = guarded(_svfs, tu, tv, k, "default", sample_spacing(shape, ac))
        r.trans += 1
        if st == "raises":
            r.bad(f"C13/bch-smooth-error/{tail}/raises={type(out).__name__}", exc_text(out))
            return r
        if not _ok_tensor(out, tu.shape):
            r.bad(f"C13/bch-smooth-error/{tail}/shape", f"{type(out).__name__} {getattr(out, 'shape', None)}")
            return r
        w = _np(out)[0]
        r.outcomes.append(h64(w))
        e.append(float(np.abs(fa.to_samples(fa.expv_ref(w, 8, ac) - target, ac)).max()))
    r.judged += 1
    if e[0] > 2.0 * min(e):
        r.nontriv.append(h64("bsm", case["shape"], ac, A, dtype))
    # complete orders of the series only (terms 0, 1, 3, 5): partial-order sums are not ordered by the exact series
    r.undef += ["partial-order-sums-terms-2-and-4-not-ordered-by-the-exact-series"] * 2
    for a, b in ((0, 1), (1, 3), (3, 5)):
        if not np.isfinite(e[b]) or e[b] > e[a] + floor:
            r.bad(
                f"C13/bch-smooth-error/{tail}/grows",
                f"|exp(w_k) - exp(v) o exp(u)| grows from terms={a} ({e[a]:.3e}) to {b} ({e[b]:.3e}) samples, floor {floor:.3e} (A={A}, shape {shape})",
            )
    if max(e[1:]) > e[0] + floor:
        r.bad(f"C13/bch-smooth-error/{tail}/worse-than-sum", f"errors {['%.3e' % x for x in e]} exceed the error of u+v (A={A}, shape {shape})")
    return r


# ---------------------------------------------------------------------------
def _logv_err(case, A, ac):
    from deepali.core.flow import expv, logv

    shape, dtype = tuple(case["shape"]), case["dtype"]
    v = fa.smooth_field(shape, ac, case["which"], case["seed"], A)[None]
    if case.get("N", 1) == 2:
        v = np.concatenate([v, fa.smooth_field(shape, ac, "b" if case["which"] == "a" else "a", case["seed"], A)[None]])
    tv = _t(v, dtype)
    st, u = guarded(lambda: expv(tv, align_corners=ac))
    if st == "raises":
        return "raises", u, None
    kw = dict(num_iters=case["iters"], bch_terms=case["terms"], align_corners=ac)
    st, w = guarded(lambda: logv(u, **kw))
    if st == "raises":
        return "raises", w, None
    if not _ok_tensor(w, tv.shape):
        return "shape", w, None
    wn = _np(w)
    err = max(float(np.abs(fa.to_samples(wn[i] - _np(tv)[i], ac)).max()) for i in range(wn.shape[0]))
    disp = float(np.abs(fa.to_samples(_np(u)[0], ac)).max())
    return "ok", err, (disp, h64(wn))


def case_logv(case) -> Result:
    r = Result()
    A = case["amp"]
    tail = f"iters={case['iters']}/terms={case['terms']}/{case['dtype']}/N={case.get('N', 1)}"
    errs = {}
    for amp in (A, A / 2):
        for ac in (True, False):
            st, e, info = _logv_err(case, amp, ac)
            r.trans += 2
            if st == "raises":
                r.bad(f"C13/logv-roundtrip/ac={'T' if ac else 'F'}/{tail}/raises={type(e).__name__}", exc_text(e))
                return r
            if st == "shape":
                r.bad(f"C13/logv-roundtrip/ac={'T' if ac else 'F'}/{tail}/shape", f"{type(e).__name__} {getattr(e, 'shape', None)}")
                return r
            errs[(amp, ac)] = e
            r.outcomes.append(info[1])
            if info[0] > 0.5 * amp:
                r.nontriv.append(h64("lv", case["shape"], case["which"], amp, ac, case["iters"], case["terms"], case["dtype"]))
    r.judged += 1
    for (amp, ac), e in errs.items():
        if not np.isfinite(e) or e > 0.5 * amp:
            r.bad(f"C13/logv-roundtrip/ac={'T' if ac else 'F'}/{tail}/bound", f"|logv(expv(v)) - v| = {e:.3e} samples > 0.5*A = {0.5 * amp:.3e} (A={amp}, field {case['which']}, shape {case['shape']})")
    for ac in (True, False):
        if errs[(A, ac)] > 8.0 * errs[(A / 2, ac)] + 1e-4:
            r.bad(f"C13/logv-roundtrip/ac={'T' if ac else 'F'}/{tail}/decay", f"err(A={A}) = {errs[(A, ac)]:.3e} > 8*err(A/2) = {8 * errs[(A / 2, ac)]:.3e}")
    for amp in (A, A / 2):
        eT, eF = errs[(amp, True)], errs[(amp, False)]
        if eT > 1.5 * eF + 1e-4 or eF > 1.5 * eT + 1e-4:
            r.bad(f"C13/logv-roundtrip/conventions/{tail}/differ", f"A={amp}: error {eT:.3e} (align_corners=True) vs {eF:.3e} (False): not within a factor 1.5")
    return r



# ---------------------------------------------------------------------------
# call sequences: depth-2 model checking of the stateless API against hidden state
SEQ_CFGS = [(ac, dt) for ac in (True, False) for dt in ("f32", "f64")]


def _cfg_name(c):
    s = c["op"] + "[" + ("ac=T" if c.get("ac", True) else "ac=F") + "," + c.get("dtype", "f32")
    if c.get("other_shape"):
        s += ",other-shape"
    return s + "]"


def seq_program(shape):
    """Ordered call sequences [X, Y] on one shape (executed one after the other in ONE process, in this order)."""
    shape = list(shape)
    other = shape[:-1] + [shape[-1] + 1]
    prog = []
    cf = [{"op": "compose_flows", "ac": ac, "dtype": dt} for ac, dt in SEQ_CFGS]
    sv = [{"op": "compose_svfs", "ac": ac, "dtype": dt} for ac, dt in SEQ_CFGS]
    for x in cf:
        for y in cf:
            prog.append([x, y])
    for x in sv:
        for y in sv:
            prog.append([x, y])
    for ac in (True, False):
        prog.append([{"op": "compose_flows", "ac": not ac, "dtype": "f32", "other_shape": other}, {"op": "compose_flows", "ac": ac, "dtype": "f32"}])
        prog.append([{"op": "logv", "ac": not ac, "dtype": "f32"}, {"op": "compose_flows", "ac": ac, "dtype": "f32"}])
        prog.append([{"op": "expv", "ac": not ac, "dtype": "f32"}, {"op": "compose_flows", "ac": ac, "dtype": "f32"}])
        prog.append([{"op": "lie_bracket", "ac": not ac, "dtype": "f64"}, {"op": "compose_svfs", "ac": ac, "dtype": "f64"}])
        prog.append([{"op": "compose_svfs", "ac": not ac, "dtype": "f32"}, {"op": "compose_flows", "ac": ac, "dtype": "f32"}])
        prog.append([{"op": "compose_flows", "ac": not ac, "dtype": "f64"}, {"op": "logv", "ac": ac, "dtype": "f64"}, {"op": "compose_flows", "ac": ac, "dtype": "f64"}])
    return prog


def seq_call(cfg, shape, seed):
    """Execute one call of a sequence and judge it by the reference of its own sub-check.
    Returns (status, detail, outcome-hash): status in {"ok", "unjudged", "raises=<Type>", "shape", "mismatch"}."""
    from deepali.core.flow import compose_flows, expv, lie_bracket, logv

    shape = tuple(cfg.get("other_shape") or shape)
    D = len(shape)
    ac, dtype, op = cfg.get("ac", True), cfg.get("dtype", "f32"), cfg["op"]
    U, V = disp_matrix("rot", D, seed), disp_matrix("shear", D, seed)
    u, v = fa.affine_field(U, shape, ac)[None], fa.affine_field(V, shape, ac)[None]
    tu, tv = _t(u, dtype), _t(v, dtype)
    if op == "compose_flows":
        st, out = guarded(lambda: compose_flows(tu, tv, align_corners=ac))
        if st == "raises":
            return "raises=" + type(out).__name__, exc_text(out), 0
        if not _ok_tensor(out, u.shape):
            return "shape", f"{type(out).__name__} {getattr(out, 'shape', None)}", 0
        o = _np(out)[0]
        if not fa.maps_hull_into_itself(np.eye(D + 1) + U, fa.half_widths(shape, ac)):
            return "unjudged", "", h64(o)
        exp = fa.affine_field(fa.compose_affine(U, V), shape, ac)
        tol = C * EPS[dtype] * (fa.norm_inf(U) + 3.0 * fa.norm_inf(V))
        err = float(np.abs(o - exp).max())
        if not np.isfinite(err) or err > tol:
            return "mismatch", f"max |compose_flows(u,v) - (U+V(I+U))x| = {err:.3e} > tol {tol:.2e}", h64(o)
        return "ok", "", h64(o)
    if op == "compose_svfs":
        st, out = guarded(_svfs, tu, tv, 3, "default", sample_spacing(shape, ac))
        if st == "raises":
            return "raises=" + type(out).__name__, exc_text(out), 0
        if not _ok_tensor(out, u.shape):
            return "shape", f"{type(out).__name__} {getattr(out, 'shape', None)}", 0
        o = _np(out)[0]
        exp = fa.affine_field(fa.bch_series(U, V, 3), shape, ac)
        tol = C * affine_noise(U, V, 3, shape, D, dtype, not ac)
        err = float(np.abs(o - exp).max())
        if not np.isfinite(err) or err > tol:
            return "mismatch", f"max |compose_svfs(u,v,3) - documented BCH partial sum| = {err:.3e} > tol {tol:.2e}", h64(o)
        return "ok", "", h64(o)
    # state-touching calls whose own result is judged elsewhere
    g = _t(fa.generic_field(shape, ac, seed, 0.02)[None], dtype)
    if op == "logv":
        st, out = guarded(lambda: logv(g, num_iters=2, align_corners=ac))
    elif op == "expv":
        st, out = guarded(lambda: expv(g, steps=3, align_corners=ac))
    elif op == "lie_bracket":
        st, out = guarded(lambda: lie_bracket(tv, tu))
    else:
        raise KeyError(op)
    if st == "raises":
        return "raises=" + type(out).__name__, exc_text(out), 0
    return "unjudged", "", h64(_np(out)) if isinstance(out, torch.Tensor) else 0


def case_call_sequence(case) -> Result:
    """Every sequence of the program is executed in order in this process; every call that has a reference is
    judged (a stateless API must give the fresh-process answer whatever was called before)."""
    r = Result()
    shape = tuple(case["shape"])
    for seq in case["program"]:
        names = [_cfg_name(c) for c in seq]
        bad = False
        for i, cfg in enumerate(seq):
            st, detail, oh = seq_call(cfg, shape, case["seed"])
            r.trans += 1
            if oh:
                r.outcomes.append(oh)
            if st in ("ok", "unjudged"):
                continue
            bad = True
            r.bad(f"C13/call-sequence/{'-then-'.join(names)}/call={i + 1}/{st}", f"{detail} (shape {shape}; call {i + 1} of the sequence {names}, earlier sequences of the program executed before it in the same process)")
        r.judged += 1
        if len({(c.get("ac", True), c.get("dtype"), c["op"]) for c in seq}) > 1 and not bad:
            r.nontriv.append(h64("seq", case["shape"], names))
    return r



# ---------------------------------------------------------------------------
TRANSL_V = [[0.1, -0.2, 0.05], [-0.07, 0.03, 0.11], [0.5, 0.5, -0.5]]
TRANSL_U = ["shift:+0.5", "shift:-0.5", "shift:+0.25", "shift:-0.4:0.3", "expand:0.5", "expand:0.9", "generic:0.45", "zero"]


def transl_u(spec: str, shape, ac: bool, seed: int) -> np.ndarray:
    """First field of compose-translation, amplitudes in SAMPLES (sub-sample): moves the outer samples into the
    half-sample margin between the last sample centre and the cube boundary (align_corners=False)."""
    shape = tuple(shape)
    D = len(shape)
    kind, _, rest = spec.partition(":")
    if kind == "zero":
        return np.zeros((D,) + shape)
    if kind == "shift":
        a = [float(x) for x in rest.split(":")]
        vals = [a[c % len(a)] * (1 if c % 2 == 0 else -1) for c in range(D)]
        return fa.from_samples(np.stack([np.full(shape, v) for v in vals]), ac)
    if kind == "expand":
        # x -> (1 + e_c) x with e_c such that the outermost sample moves outwards by <rest> samples
        X = fa.cube_points(shape, ac)
        k = fa.samples_per_unit(shape, ac)
        h = fa.half_widths(shape, ac)
        return np.stack([X[..., c] * (float(rest) / k[c]) / max(h[c], 1e-9) for c in range(D)])
    if kind == "generic":
        g = fa.generic_field(shape, ac, seed, 1.0)
        return fa.from_samples(g * float(rest), ac)
    raise KeyError(spec)


def case_compose_translation(case) -> Result:
    """v constant: u + v(x + u) = u + v exactly at every sample whose displaced position stays inside the cube
    [-1, 1]^D (the domain; for align_corners=False it extends half a sample beyond the outermost sample centres)."""
    from deepali.core.flow import compose_flows

    r = Result()
    shape, ac, dtype, N = tuple(case["shape"]), case["ac"], case["dtype"], case["N"]
    D = len(shape)
    vv = TRANSL_V[case["v"]][:D]
    specs = [case["u"]] + ([TRANSL_U[(TRANSL_U.index(case["u"]) + 3) % len(TRANSL_U)]] if N == 2 else [])
    u = np.stack([transl_u(sp, shape, ac, case["seed"]) for sp in specs])
    v = np.stack([np.stack([np.full(shape, c) for c in vv])] * N)
    tu, tv = _t(u, dtype), _t(v, dtype)
    tail = _tail(case)
    st, out = guarded(lambda: compose_flows(tu, tv, align_corners=ac))
    r.trans += 1
    if st == "raises":
        r.bad(f"C13/compose-translation/{tail}/raises={type(out).__name__}", exc_text(out))
        return r
    if not _ok_tensor(out, u.shape):
        r.bad(f"C13/compose-translation/{tail}/shape", f"{type(out).__name__} {getattr(out, 'shape', None)}")
        return r
    o = _np(out)
    r.outcomes.append(h64(o))
    uu, vn = _np(tu), _np(tv)
    X = fa.cube_points(shape, ac)
    hull = fa.half_widths(shape, ac)
    for i in range(N):
        pos = X + np.moveaxis(uu[i], 0, -1)
        inside = np.all(np.abs(pos) <= 1.0 + 1e-9, axis=-1)
        if not inside.all():
            r.undef.append("displaced-samples-outside-the-cube-not-judged")
        if inside.sum() < 0.5 * inside.size:
            continue
        margin = inside & np.any(np.abs(pos) > hull * (1 + 1e-6), axis=-1)
        exp = uu[i] + vn[i]
        tol = C * EPS[dtype] * (float(np.abs(uu[i]).max()) + float(np.abs(vn[i]).max()))
        err = float(np.abs(o[i] - exp)[:, inside].max())
        r.judged += 1
        if margin.any():
            r.nontriv.append(h64("ct", case["shape"], ac, specs[i], case["v"], dtype))
        if not np.isfinite(err) or err > tol:
            where = "in the half-sample margin beyond the outermost sample centres" if margin.any() and float(np.abs(o[i] - exp)[:, inside & ~margin].max() if (inside & ~margin).any() else 0.0) <= tol else "inside the sample hull"
            r.bad(
                f"C13/compose-translation/{tail}/mismatch",
                f"max |compose_flows(u, const) - (u + const)| = {err:.3e} > tol {tol:.2e}, {where} (u={specs[i]} samples, v={vv}, shape {shape}, item {i})",
            )
    return r



# ---------------------------------------------------------------------------
# round 4 (a): every accepted FORM of the spacing argument x batch sizes
SPACING_FORMS = ["none", "scalar", "vector", "(1,D)", "(N,1)", "(N,D)", "(N,D)-list"]
H_ROWS = [[0.5, 1.25, 0.75], [2.0, 0.375, 1.5], [0.3, 0.7, 1.1]]  # per item, x first; last row is not float32
H_ISO = [0.5, 2.0, 0.3]
SPACING_SHAPES = [(5, 7), (3, 4, 5)]
ITEM_PAIRS = [("rot", "shear"), ("generic", "skew"), ("expand", "diag")]


def spacing_of(form: str, shape, N: int):
    """(argument passed to deepali, per-item spacing H[N, D] it denotes, x first)."""
    D = len(shape)
    if form == "none":
        h = [2.0 / (n - 1) for n in reversed(shape)]
        return None, np.array([h] * N)
    if form == "scalar":
        return 0.75, np.full((N, D), 0.75)
    if form == "vector":
        return tuple(H_ROWS[0][:D]), np.array([H_ROWS[0][:D]] * N)
    if form == "(1,D)":
        return torch.tensor([H_ROWS[1][:D]], dtype=torch.float64), np.array([H_ROWS[1][:D]] * N)
    if form == "(N,1)":
        return torch.tensor([[H_ISO[i]] for i in range(N)], dtype=torch.float32), np.array([[H_ISO[i]] * D for i in range(N)])
    H = np.array([H_ROWS[i][:D] for i in range(N)])
    if form == "(N,D)":
        return torch.tensor(H, dtype=torch.float64), H
    if form == "(N,D)-list":
        return [list(map(float, row)) for row in H], H
    raise KeyError(form)


def lattice_points(shape, h) -> np.ndarray:
    """Physical sample positions of a centred lattice with spacing h (x first): shape + (D,), last dim (x, ...)."""
    axes = [(np.arange(n, dtype=np.float64) - (n - 1) / 2.0) for n in shape]
    mg = np.meshgrid(*axes, indexing="ij")
    return np.stack([mg[len(shape) - 1 - c] * h[c] for c in range(len(shape))], axis=-1)


def affine_on(M, P) -> np.ndarray:
    D = P.shape[-1]
    Ph = np.concatenate([P, np.ones(P.shape[:-1] + (1,))], axis=-1)
    return np.ascontiguousarray(np.moveaxis((Ph @ M.T)[..., :D], -1, 0))


def rel32(h) -> float:
    return max(abs(float(np.float32(x)) - float(x)) / float(x) for x in h)


def _bracket_tol(mv, jv, mu, ju, g, eps, e32):
    return C * (4.0 * eps * g * mv * mu + e32 * (jv * mu + ju * mv))


def case_spacing_forms(case) -> Result:
    """lie_bracket / compose_svfs with every form of `spacing` and N in {1,2,3}: batched == per-item (the per-item
    call uses the (D,) vector form of that item's row), antisymmetry, bilinearity, closed form on affine fields."""
    from deepali.core.flow import compose_svfs, lie_bracket

    r = Result()
    shape, dtype, N, form, fields = tuple(case["shape"]), case["dtype"], case["N"], case["form"], case["fields"]
    D = len(shape)
    eps = EPS[dtype]
    arg, H = spacing_of(form, shape, N)
    tail = f"form={form}/N={N}/{dtype}/fields={fields}"
    us, vs, v2s, mats = [], [], [], []
    for i in range(N):
        P = lattice_points(shape, H[i])
        if fields == "affine":
            nu, nv = ITEM_PAIRS[i]
            U, V, V2 = disp_matrix(nu, D, case["seed"]), disp_matrix(nv, D, case["seed"]), disp_matrix("iso", D, case["seed"]) + 0.5 * disp_matrix("skew", D, case["seed"])
            us.append(affine_on(U, P)); vs.append(affine_on(V, P)); v2s.append(affine_on(V2, P)); mats.append((U, V, P))
        else:
            us.append(fa.generic_field(shape, True, case["seed"] + i, 0.8)); vs.append(fa.generic_field(shape, False, case["seed"] + i + 1, 0.6))
            v2s.append(fa.generic_field(shape, True, case["seed"] + i + 2, 0.5)); mats.append(None)
    tu, tv, tv2 = _t(np.stack(us), dtype), _t(np.stack(vs), dtype), _t(np.stack(v2s), dtype)
    uu, vv, vv2 = _np(tu), _np(tv), _np(tv2)

    def item_arg(i):
        return tuple(float(x) for x in H[i])

    def tol_item(i, a, b):
        hmin = float(H[i].min())
        return _bracket_tol(float(np.abs(a[i]).max()), jac_bound(a[i], shape, hmin), float(np.abs(b[i]).max()), jac_bound(b[i], shape, hmin), gain(shape, D, hmin), eps, rel32(H[i]))

    def call(fn, *a, **kw):
        st, out = guarded(fn, *a, **kw)
        r.trans += 1
        return st, out

    if case["op"] == "bracket":
        st, A = call(lie_bracket, tv, tu, spacing=arg)
        st2, B = call(lie_bracket, tu, tv, spacing=arg)
        comb = tv * 2.0 + tv2 * (-0.5)
        st3, Cb = call(lie_bracket, comb, tu, spacing=arg)
        st4, A2 = call(lie_bracket, tv2, tu, spacing=arg)
        for s_, o_ in ((st, A), (st2, B), (st3, Cb), (st4, A2)):
            if s_ == "raises":
                r.bad(f"C13/spacing-forms/op=bracket/{tail}/raises={type(o_).__name__}", exc_text(o_))
                return r
            if not _ok_tensor(o_, uu.shape):
                r.bad(f"C13/spacing-forms/op=bracket/{tail}/shape", f"{type(o_).__name__} {getattr(o_, 'shape', None)}")
                return r
        An, Bn, Cn, A2n = _np(A), _np(B), _np(Cb), _np(A2)
        r.outcomes.append(h64(An))
        r.judged += 1
        for i in range(N):
            t1 = tol_item(i, vv, uu)
            if float(np.abs(An[i]).max()) > 1e3 * t1:
                r.nontriv.append(h64("sf", case["shape"], form, N, dtype, fields, i))
            e = float(np.abs(An[i] + Bn[i]).max())
            if not np.isfinite(e) or e > 2 * t1:
                r.bad(f"C13/spacing-forms/op=bracket/{tail}/antisymmetry", f"item {i}: max |[v,u] + [u,v]| = {e:.3e} > tol {2 * t1:.2e}; |[v,u]| = {float(np.abs(An[i]).max()):.3e} (spacing rows {H.tolist()}, shape {shape})")
            t2 = tol_item(i, vv2, uu)
            e = float(np.abs(Cn[i] - (2.0 * An[i] - 0.5 * A2n[i])).max())
            if not np.isfinite(e) or e > 3 * (2 * t1 + 0.5 * t2):
                r.bad(f"C13/spacing-forms/op=bracket/{tail}/bilinearity", f"item {i}: max |[2v - v2/2, u] - 2[v,u] + [v2,u]/2| = {e:.3e} > tol {3 * (2 * t1 + 0.5 * t2):.2e} (spacing rows {H.tolist()}, shape {shape})")
            st, Si = call(lie_bracket, tv[i : i + 1], tu[i : i + 1], spacing=item_arg(i))
            if st == "raises":
                r.bad(f"C13/spacing-forms/op=bracket/{tail}/per-item/raises={type(Si).__name__}", exc_text(Si))
                continue
            e = float(np.abs(An[i] - _np(Si)[0]).max())
            if not np.isfinite(e) or e > 2 * t1:
                r.bad(f"C13/spacing-forms/op=bracket/{tail}/batched-vs-per-item", f"item {i} of the batched call differs from the single-item call with spacing {item_arg(i)} by {e:.3e} > tol {2 * t1:.2e} (spacing rows {H.tolist()}, shape {shape})")
            if mats[i] is not None:
                U, V, P = mats[i]
                exp = affine_on(fa.comm(V, U), P)
                e = float(np.abs(An[i] - exp).max())
                if not np.isfinite(e) or e > t1:
                    r.bad(f"C13/spacing-forms/op=bracket/{tail}/closed-form", f"item {i}: max |[v,u] - (VU-UV)x| = {e:.3e} > tol {t1:.2e} (spacing rows {H.tolist()}, shape {shape})")
        return r
    # compose_svfs
    k = case["terms"]
    st, W = call(compose_svfs, tu, tv, bch_terms=k, spacing=arg)
    if st == "raises":
        r.bad(f"C13/spacing-forms/op=svfs/{tail}/terms={k}/raises={type(W).__name__}", exc_text(W))
        return r
    if not _ok_tensor(W, uu.shape):
        r.bad(f"C13/spacing-forms/op=svfs/{tail}/terms={k}/shape", f"{type(W).__name__} {getattr(W, 'shape', None)}")
        return r
    Wn = _np(W)
    r.outcomes.append(h64(Wn))
    r.judged += 1
    for i in range(N):
        hmin = float(H[i].min())
        g = gain(shape, D, hmin)
        mu, mv = float(np.abs(uu[i]).max()), float(np.abs(vv[i]).max())
        if mats[i] is not None:
            U, V, P = mats[i]
            vu = fa.comm(V, U)
            vvu = fa.comm(V, vu)
            exact = (float(np.abs(affine_on(vu, P)).max()), lin_norm(vu), float(np.abs(affine_on(vvu, P)).max()), lin_norm(vvu))
            tol = C * bch_noise(mu, lin_norm(U), mv, lin_norm(V), k, g, eps, rel32(H[i]), exact)
            exp = affine_on(fa.bch_series(U, V, k), P)
            e = float(np.abs(Wn[i] - exp).max())
            if float(np.abs(exp - uu[i] - vv[i]).max()) > 1e3 * tol:
                r.nontriv.append(h64("sfs", case["shape"], form, N, dtype, k, i))
            if not np.isfinite(e) or e > tol:
                r.bad(f"C13/spacing-forms/op=svfs/{tail}/terms={k}/closed-form", f"item {i}: max |compose_svfs - documented BCH partial sum| = {e:.3e} > tol {tol:.2e} (spacing rows {H.tolist()}, shape {shape})")
        else:
            ju, jv = jac_bound(uu[i], shape, hmin), jac_bound(vv[i], shape, hmin)
            big = g * mu * mv
            tol = C * bch_noise(mu, ju, mv, jv, k, g, eps, rel32(H[i]), (big, 0.5 * g * big, g * mv * big, 0.5 * g * g * mv * big))
        st, Si = call(compose_svfs, tu[i : i + 1], tv[i : i + 1], bch_terms=k, spacing=item_arg(i))
        if st == "raises":
            r.bad(f"C13/spacing-forms/op=svfs/{tail}/terms={k}/per-item/raises={type(Si).__name__}", exc_text(Si))
            continue
        e = float(np.abs(Wn[i] - _np(Si)[0]).max())
        if not np.isfinite(e) or e > 2 * tol:
            r.bad(f"C13/spacing-forms/op=svfs/{tail}/terms={k}/batched-vs-per-item", f"item {i} of the batched call differs from the single-item call with spacing {item_arg(i)} by {e:.3e} > tol {2 * tol:.2e} (spacing rows {H.tolist()}, shape {shape})")
    return r


# ---------------------------------------------------------------------------
# round 4 (b): option lattice of logv / expv boundary values, and "the given fields are not overwritten"
def fingerprint(t: torch.Tensor):
    return (t._version, t.data_ptr(), tuple(t.shape), tuple(t.stride()), t.detach().clone())


def changed(t: torch.Tensor, fp) -> str:
    """'' if the tensor is bit-for-bit what it was (NaN-safe), else a description."""
    if tuple(t.shape) != fp[2] or tuple(t.stride()) != fp[3] or t.data_ptr() != fp[1]:
        return "metadata changed"
    a, b = t.detach(), fp[4]
    if not torch.equal(a, b) and not bool(((a == b) | (torch.isnan(a) & torch.isnan(b))).all()):
        return f"values changed by up to {float((a.double() - b.double()).abs().max()):.3e}"
    if t._version != fp[0]:
        return f"_version {fp[0]} -> {t._version} (written in place)"
    return ""


def anchor_calls(D):
    """Calls of the anchor set with boundary option values: (name, function of (u, v, ac) -> result)."""
    from deepali.core.flow import compose_flows, compose_svfs, expv, lie_bracket, logv

    out = []
    for steps in (0, 1, None):
        for scale in (None, 1, 0.5, -1.0):
            for inverse in (False, True):
                out.append((f"expv(steps={steps},scale={scale},inverse={inverse})", lambda u, v, ac, st=steps, sc=scale, inv=inverse: expv(u, scale=sc, steps=st, align_corners=ac, inverse=inv)))
    out.append(("compose_flows", lambda u, v, ac: compose_flows(u, v, align_corners=ac)))
    out.append(("compose_flows(u,u)", lambda u, v, ac: compose_flows(u, u, align_corners=ac)))
    for k in range(6):
        for sg in (None, 1.0):
            out.append((f"compose_svfs(bch_terms={k},sigma={sg})", lambda u, v, ac, k=k, sg=sg: compose_svfs(u, v, bch_terms=k, sigma=sg)))
    out.append(("compose_svfs(u,u)", lambda u, v, ac: compose_svfs(u, u, bch_terms=3)))
    for kw in ({}, {"sigma": 1.0}, {"mode": "central"}, {"spacing": 0.5}):
        out.append((f"lie_bracket({','.join(f'{a}={b}' for a, b in kw.items())})", lambda u, v, ac, kw=kw: lie_bracket(v, u, **kw)))
    out.append(("lie_bracket(u,u)", lambda u, v, ac: lie_bracket(u, u)))
    for es in (0, 1, None):
        for ni in (1, 2):
            for bt in (0, 1, 3):
                for sg in (None, 1.0):
                    out.append((f"logv(exp_steps={es},num_iters={ni},bch_terms={bt},sigma={sg})", lambda u, v, ac, es=es, ni=ni, bt=bt, sg=sg: logv(u, num_iters=ni, bch_terms=bt, sigma=sg, exp_steps=es, align_corners=ac)))
    out.append(("logv(num_iters=0)", lambda u, v, ac: logv(u, num_iters=0, align_corners=ac)))
    return out


def case_input_unchanged(case) -> Result:
    """The fields handed to compose_flows / compose_svfs / lie_bracket / logv / expv are still the given fields after
    the call (bit pattern and _version): the statement relates results to the GIVEN fields."""
    r = Result()
    shape, ac, dtype, N = tuple(case["shape"]), case["ac"], case["dtype"], case["N"]
    D = len(shape)
    name, fn = anchor_calls(D)[case["call"]]
    amp = 0.6 / max(shape)  # about a third of a sample
    u = np.stack([fa.generic_field(shape, ac, case["seed"] + i, amp) for i in range(N)])
    v = np.stack([fa.generic_field(shape, ac, case["seed"] + 1 + i, 0.7 * amp) for i in range(N)])
    tu, tv = _t(u, dtype), _t(v, dtype)
    fu, fv = fingerprint(tu), fingerprint(tv)
    st, out = guarded(fn, tu, tv, ac)
    r.trans += 1
    fname = name.split("(")[0]
    tail = f"{_tail(case)}"
    if st == "raises":
        r.bad(f"C13/input-unchanged/fn={fname}/{tail}/raises={type(out).__name__}", f"{name}: {exc_text(out)}")
        return r
    r.judged += 1
    if isinstance(out, torch.Tensor):
        r.outcomes.append(h64(_np(out)))
        if out.data_ptr() != tu.data_ptr():
            r.nontriv.append(h64("iu", case["shape"], ac, dtype, N, name))
    for arg, t, fp in (("first", tu, fu), ("second", tv, fv)):
        c = changed(t, fp)
        if c:
            r.bad(f"C13/input-unchanged/fn={fname}/{tail}/arg={arg}/overwritten", f"{name}: {arg} field argument {c} (shape {shape})")
    return r


LOGV_OPTIONS = [(es, ni, sg, bt) for es in (0, 1, None) for ni in (1, 2, 3) for sg in (None, 1.0) for bt in (0, 1)]


def case_logv_options(case) -> Result:
    """logv(expv(v)) over the boundary values of its options: error <= 0.5 A samples (the stated bound), the given
    displacement field is not overwritten, and repeating the call gives the same result."""
    from deepali.core.flow import expv, logv

    r = Result()
    shape, ac, dtype, N = tuple(case["shape"]), case["ac"], case["dtype"], case["N"]
    A = case["amp"]
    es, ni, sg, bt = case["exp_steps"], case["iters"], case["sigma"], case["terms"]
    v = np.stack([fa.smooth_field(shape, ac, "a" if i == 0 else "b", case["seed"], A) for i in range(N)])
    tv = _t(v, dtype)
    tail = f"exp_steps={es}/sigma={sg}/{_tail(case)}"
    st, u = guarded(lambda: expv(tv, align_corners=ac))
    r.trans += 1
    if st == "raises":
        r.bad(f"C13/logv-options/{tail}/expv/raises={type(u).__name__}", exc_text(u))
        return r
    fu = fingerprint(u)
    st, w = guarded(lambda: logv(u, num_iters=ni, bch_terms=bt, sigma=sg, exp_steps=es, align_corners=ac))
    r.trans += 1
    if st == "raises":
        r.bad(f"C13/logv-options/{tail}/raises={type(w).__name__}", exc_text(w))
        return r
    if not _ok_tensor(w, v.shape):
        r.bad(f"C13/logv-options/{tail}/shape", f"{type(w).__name__} {getattr(w, 'shape', None)}")
        return r
    r.judged += 1
    wn = _np(w)
    r.outcomes.append(h64(wn))
    r.nontriv.append(h64("lo", case["shape"], ac, dtype, N, A, es, ni, sg, bt))
    c = changed(u, fu)
    if c:
        r.bad(f"C13/logv-options/{tail}/input-overwritten", f"logv(num_iters={ni}, bch_terms={bt}): the given displacement field {c}")
    vv = _np(tv)
    err = max(float(np.abs(fa.to_samples(wn[i] - vv[i], ac)).max()) for i in range(N))
    if not np.isfinite(err) or err > 0.5 * A:
        r.bad(f"C13/logv-options/{tail}/bound", f"|logv(expv(v)) - v| = {err:.3e} samples > 0.5*A = {0.5 * A:.3e} (A={A}, num_iters={ni}, bch_terms={bt}, shape {shape})")
    if not c:
        st, w2 = guarded(lambda: logv(u, num_iters=ni, bch_terms=bt, sigma=sg, exp_steps=es, align_corners=ac))
        r.trans += 1
        if st == "ok" and isinstance(w2, torch.Tensor) and not torch.equal(w2, w):
            r.bad(f"C13/logv-options/{tail}/not-repeatable", f"the same logv call on the same field gives a different result the second time (max diff {float((w2 - w).abs().max()):.3e})")
    return r



# ---------------------------------------------------------------------------
# memory layout of the user-supplied fields and tensor-valued spacing
LAYOUT_FORMS = ["transposed", "sliced", "expanded"]
LAYOUT_SHAPES = [(5, 7), (3, 4, 5)]


def layout_functions():
    """(name, depth of nested brackets, fn(u, v, spacing) -> tensor). spacing None or an (N, D) tensor."""
    from deepali.core.flow import compose_flows, compose_svfs, lie_bracket, logv

    return [
        ("compose_flows[ac=T]", 0, lambda u, v, sp: compose_flows(u, v, align_corners=True)),
        ("compose_flows[ac=F]", 0, lambda u, v, sp: compose_flows(u, v, align_corners=False)),
        ("compose_svfs[terms=3]", 2, lambda u, v, sp: compose_svfs(u, v, bch_terms=3, spacing=sp)),
        ("compose_svfs[terms=5,sigma=1]", 3, lambda u, v, sp: compose_svfs(u, v, bch_terms=5, sigma=1.0, spacing=sp)),
        ("lie_bracket", 1, lambda u, v, sp: lie_bracket(v, u, spacing=sp)),
        ("logv[exp_steps=0]", 4, lambda u, v, sp: logv(u, num_iters=2, bch_terms=1, sigma=None, exp_steps=0, spacing=sp)),
        ("logv[default]", 4, lambda u, v, sp: logv(u, num_iters=2, spacing=sp)),
    ]


def _fp_base(t: torch.Tensor):
    base = t._base if t._base is not None else t
    return fingerprint(t) + (base.detach().clone(),)


def _fp_base_changed(t: torch.Tensor, fp) -> str:
    c = changed(t, fp[:5])
    if c:
        return c
    base = t._base if t._base is not None else t
    return "" if torch.equal(base.detach(), fp[5]) else "the buffer the view lives in changed"


def case_layout(case) -> Result:
    """Same values, other memory layout of the field arguments / the spacing tensor: no exception, result equal to
    the contiguous form, arguments unchanged."""
    from ref.layout import applicable, relayout

    r = Result()
    shape, dtype = tuple(case["shape"]), case["dtype"]
    D = len(shape)
    name, depth, fn = layout_functions()[case["fn"]]
    form, target = case["layout"], case["target"]
    tail = f"fn={name}/arg={target}/{dtype}/layout={form}"
    amp = 0.6 / max(shape)
    N = 2
    fields = [fa.generic_field(shape, True, case["seed"] + i, amp * (1.0 - 0.2 * i)) for i in range(4)]
    H = np.array([H_ROWS[i][:D] for i in range(N)])

    def variant(arr_items, is_spacing=False):
        """(contiguous reference, non-contiguous argument) with equal values."""
        if form == "expanded":
            base = torch.tensor(arr_items[0], dtype=torch.float32 if is_spacing else DT[dtype])
            return relayout(base, "repeat", N), relayout(base, "expanded", N)
        ref = torch.tensor(np.stack(arr_items), dtype=torch.float32 if is_spacing else DT[dtype])
        if not applicable(ref, form):
            return ref, None
        return ref, relayout(ref, form)

    u_ref, u_alt = variant(fields[0:2])
    v_ref, v_alt = variant(fields[2:4])
    sp_ref = sp_alt = None
    if target == "spacing":
        sp_ref, sp_alt = variant([H[0], H[1]], is_spacing=True)
    alts = {"first": (u_alt, v_ref, None), "second": (u_ref, v_alt, None), "both": (u_alt, v_alt, None), "spacing": (u_ref, v_ref, sp_alt)}[target]
    if any(a is None for a in (alts[0], alts[1])) or (target == "spacing" and sp_alt is None):
        r.undef.append("layout-not-applicable")
        return r
    changed_args = [a for a in alts if a is not None and not a.is_contiguous()]
    if not changed_args:
        raise AssertionError("harness: no non-contiguous argument built")
    st, ref = guarded(fn, u_ref.clone(), v_ref.clone(), None if sp_ref is None else sp_ref.clone())
    r.trans += 1
    if st == "raises":
        r.undef.append("contiguous-form-raises (judged by the other sub-checks)")
        return r
    fps = [(a, _fp_base(a)) for a in alts if a is not None]
    st, out = guarded(fn, alts[0], alts[1], alts[2])
    r.trans += 1
    r.judged += 1
    if st == "raises":
        r.bad(f"C13/layout/{tail}/raises={type(out).__name__}", exc_text(out))
        return r
    if not isinstance(out, torch.Tensor) or out.shape != ref.shape:
        r.bad(f"C13/layout/{tail}/shape", f"{type(out).__name__} {getattr(out, 'shape', None)} vs {tuple(ref.shape)}")
        return r
    r.outcomes.append(h64(_np(out)))
    r.nontriv.append(h64("layout", case["shape"], dtype, name, target, form))
    if not torch.equal(out, ref):
        m = max(float(u_ref.abs().max()), float(v_ref.abs().max()), float(ref.abs().max()))
        hmin = float(H.min()) if target == "spacing" else None
        g = gain(shape, D, hmin)
        tol = C * EPS[dtype] * m * (1.0 + g * m) ** depth * (1 + max(shape))
        d = float((out.double() - ref.double()).abs().max())
        if not np.isfinite(d) or d > tol:
            r.bad(f"C13/layout/{tail}/value", f"result differs from the contiguous form by {d:.3e} > tol {tol:.2e} (shape {shape}, strides {[tuple(a.stride()) for a in changed_args]})")
        else:
            r.undef.append("layout-result-equal-within-rounding-not-bitwise")
    for a, fp in fps:
        c = _fp_base_changed(a, fp)
        if c:
            r.bad(f"C13/layout/{tail}/operand-mutated", f"{c} (shape {shape})")
            break
    return r


KINDS = {
    "compose-affine": case_compose_affine,
    "compose-identity": case_compose_identity,
    "compose-flag": case_compose_flag,
    "bracket-antisym": case_bracket,
    "bracket-bilinear": case_bracket,
    "bch-commuting": case_bch_commuting,
    "bch-affine-series": case_bch_affine_series,
    "bch-affine-error": case_bch_affine_error,
    "bch-smooth-error": case_bch_smooth_error,
    "logv-roundtrip": case_logv,
    "call-sequence": case_call_sequence,
    "compose-translation": case_compose_translation,
    "spacing-forms": case_spacing_forms,
    "input-unchanged": case_input_unchanged,
    "logv-options": case_logv_options,
    "layout": case_layout,
}

AMPS = [0.1, 0.25, 0.5]


def cases_of(shard):
    tier, seed, kind = shard["tier"], shard["seed"], shard["kind"]
    base = {"kind": kind, "seed": seed, "shape": shard["shape"], "dtype": shard["dtype"]}
    if "ac" in shard:
        base["ac"] = shard["ac"]
    if kind == "compose-affine":
        for N in (1, 2):
            for u in U_NAMES:
                for v in V_NAMES:
                    forms = ["kw", "pos"] + (["default"] if shard["ac"] else [])
                    for form in forms if (u, v) in (("rot", "shear"), ("generic", "expand")) else ["kw"]:
                        yield {**base, "N": N, "u": u, "v": v, "form": form}
    elif kind == "compose-translation":
        for N in (1, 2):
            for uspec in TRANSL_U:
                for vi in range(len(TRANSL_V)):
                    yield {**base, "N": N, "u": uspec, "v": vi}
    elif kind == "layout":
        fns = layout_functions()
        for fi, (name, _, _) in enumerate(fns):
            for target in ("first", "second", "both", "spacing"):
                if target == "spacing" and name.startswith("compose_flows"):
                    continue
                if target == "second" and name.startswith("logv"):
                    continue  # logv has one field argument
                if target == "both" and name.startswith("logv"):
                    continue
                for form in LAYOUT_FORMS:
                    yield {**base, "fn": fi, "target": target, "layout": form}
    elif kind == "spacing-forms":
        for N in (1, 2, 3):
            for form in SPACING_FORMS:
                for fields in ("affine", "generic"):
                    yield {**base, "N": N, "form": form, "fields": fields, "op": "bracket"}
                    for k in (1, 3, 5) if fields == "affine" else (3,):
                        yield {**base, "N": N, "form": form, "fields": fields, "op": "svfs", "terms": k}
    elif kind == "input-unchanged":
        for N in (1, 2):
            for ci in range(len(anchor_calls(len(shard["shape"])))):
                yield {**base, "N": N, "call": ci}
    elif kind == "logv-options":
        for amp in (0.1, 0.5):
            for es, ni, sg, bt in LOGV_OPTIONS:
                yield {**base, "N": 1, "amp": amp, "exp_steps": es, "iters": ni, "sigma": sg, "terms": bt}
            for es in (0, 1, None):
                yield {**base, "N": 2, "amp": amp, "exp_steps": es, "iters": 2, "sigma": None, "terms": 1}
    elif kind == "compose-identity":
        for N in (1, 2):
            for f in IDENTITY_FIELDS:
                yield {**base, "N": N, "field": f}
    elif kind == "compose-flag":
        for N in (1, 2):
            for p in range(len(FLAG_PAIRS)):
                yield {**base, "N": N, "pair": p}
    elif kind == "bracket-antisym":
        for N in (1, 2):
            for kw in BRACKET_KW:
                for v, u in itertools.combinations_with_replacement(BRACKET_FIELDS, 2):
                    yield {**base, "N": N, "kw": kw, "v": v, "u": u}
    elif kind == "bracket-bilinear":
        for N in (1, 2):
            for kw in [shard["kw"]] if (N == 1 or shard["kw"] == "default") else []:
                for v1, v2 in (itertools.permutations if (tier == "thorough" and kw == "default") else itertools.combinations)(BRACKET_FIELDS, 2):
                    for u in BRACKET_FIELDS:
                        for coef in ([2.0, -0.5], [-0.5, 2.0]):
                            if kw != "default" and coef[0] < 0:
                                continue
                            for arg in (1, 2):
                                yield {**base, "N": N, "kw": kw, "v1": v1, "v2": v2, "u": u, "coef": coef, "arg": arg}
    elif kind == "bch-commuting":
        for N in (1, 2):
            for p, (_, _, smooth_ok) in enumerate(commuting_pairs()):
                for kw in ["default"] + (["sigma=1"] if smooth_ok else []):
                    for k in range(6):
                        for swap in (False, True) if N == 1 else (False,):
                            yield {**base, "N": N, "pair": p, "kw": kw, "terms": k, "swap": swap}
                        if not shard["ac"] and kw == "default" and N == 1:
                            yield {**base, "N": N, "pair": p, "kw": kw, "terms": k, "swap": False, "spacing": True}
    elif kind == "bch-affine-series":
        for N in (1, 2):
            for p in range(len(AFFINE_PAIRS)):
                for amp in (1.0, 0.25):
                    for k in range(6):
                        yield {**base, "N": N, "pair": p, "amp": amp, "terms": k, "kw": "default"}
                    yield {**base, "N": N, "pair": p, "amp": amp, "terms": 3, "kw": "documented-default-terms"}
    elif kind == "bch-affine-error":
        for p in range(len(AFFINE_PAIRS)):
            for amp in (1.0, 0.5, 0.25):
                yield {**base, "N": 1, "pair": p, "amp": amp}
    elif kind == "bch-smooth-error":
        for amp in AMPS:
            yield {**base, "N": 1, "amp": amp}
    elif kind == "logv-roundtrip":
        which, amp = shard["which"], shard["amp"]
        for iters in (1, 3, 5):
            for terms in range(6):
                yield {**base, "which": which, "amp": amp, "iters": iters, "terms": terms, "N": 1}
        yield {**base, "which": which, "amp": amp, "iters": 3, "terms": 1, "N": 2}
    elif kind == "call-sequence":
        yield {**base, "program": seq_program(shard["shape"])}
    else:
        raise KeyError(kind)


def shards(tier: str, seed: int):
    out = []
    for shape in affine_shapes(tier):
        for dtype in ("f32", "f64"):
            for ac in (True, False):
                for kind in ("compose-affine", "compose-identity", "compose-translation", "bch-commuting", "bch-affine-series", "bch-affine-error"):
                    out.append({"tier": tier, "seed": seed, "kind": kind, "shape": list(shape), "ac": ac, "dtype": dtype})
    for shape in SPACING_SHAPES + ([(8, 8), (6, 5, 4)] if tier == "thorough" else []):
        for dtype in ("f32", "f64"):
            out.append({"tier": tier, "seed": seed, "kind": "spacing-forms", "shape": list(shape), "dtype": dtype})
            for ac in (True, False):
                out.append({"tier": tier, "seed": seed, "kind": "input-unchanged", "shape": list(shape), "ac": ac, "dtype": dtype})
    for shape in LAYOUT_SHAPES:
        for dtype in ("f32", "f64"):
            out.append({"tier": tier, "seed": seed, "kind": "layout", "shape": list(shape), "dtype": dtype})
    for shape in smooth_shapes(tier):
        for ac in (True, False):
            for dtype in ("f32",) if tier == "quick" else ("f32", "f64"):
                out.append({"tier": tier, "seed": seed, "kind": "logv-options", "shape": list(shape), "ac": ac, "dtype": dtype})
    for shape in affine_shapes(tier):
        # one process per shape: all ordered pairs of configurations are called one after the other
        out.append({"tier": tier, "seed": seed, "kind": "call-sequence", "shape": list(shape), "dtype": "mixed"})
    for shape in smooth_shapes(tier):
        for dtype in ("f32", "f64"):
            for ac in (True, False):
                for kind in ("compose-flag", "bch-smooth-error"):
                    out.append({"tier": tier, "seed": seed, "kind": kind, "shape": list(shape), "ac": ac, "dtype": dtype})
            out.append({"tier": tier, "seed": seed, "kind": "bracket-antisym", "shape": list(shape), "dtype": dtype})
            for kw in BRACKET_KW:
                out.append({"tier": tier, "seed": seed, "kind": "bracket-bilinear", "shape": list(shape), "dtype": dtype, "kw": kw})
        for which in ("a", "b") if (tier == "thorough" or len(shape) == 2) else ("a",):
            for amp in AMPS:
                for dtype in ("f32",) if tier == "quick" else ("f32", "f64"):
                    out.append({"tier": tier, "seed": seed, "kind": "logv-roundtrip", "shape": list(shape), "dtype": dtype, "which": which, "amp": amp})
    return out


def state_key(case):
    return tuple(sorted((k, repr(v)) for k, v in case.items()))


def run_shard(shard) -> Acc:
    acc = Acc()
    for case in cases_of(shard):
        res = KINDS[case["kind"]](case)  # deepali calls are guarded inside; an exception here is a harness error
        acc.state(state_key(case))
        acc.trans(res.trans)
        for u in res.undef:
            acc.undef(u)
        if case["kind"] == "call-sequence":
            acc.trace("call-sequence", n=res.judged, depth=3)
        elif res.judged or res.problems:
            acc.trace(case["kind"], depth=case.get("terms", 0) or 0)
        for o in res.outcomes:
            acc.outcome(o)
        for n in res.nontriv:
            acc.nontriv(n)
        for sig, detail in res.problems:
            acc.violation(sig, case, detail, size=1 + (case.get("terms") or 0) + case.get("N", 1))
        if len(acc.samples) < 2 and res.judged and (case.get("terms") or 0) >= 2:
            acc.sample({"case": case, "judged": res.judged, "problems": len(res.problems)})
    return acc


def replay(case):
    return list(KINDS[case["kind"]](case).problems)
