"""C12 - spatial derivatives of flow fields are exact on polynomial fields.

Finite product lattice  (D, shape, spacing form, mode, batch size, dtype)  x  basis polynomial fields  x  key
requests  x  functions, explored completely.  Every element is one real call of deepali judged by the closed
forms in ref/poly.py (numpy float64).  The operators are linear in the field, so the basis fields E_ij x, e_i
(first order) and x_i x_j e_k (second order) decide all affine / quadratic coefficient tensors; the
multilinear quantities (determinant: D-linear in the rows of the Jacobian, Lie bracket: bilinear) are decided on
all sums of <= D basis matrices / all ordered pairs of basis fields.
"""
from __future__ import annotations

import itertools
import math

import numpy as np
import torch

from mc.core import Acc, exc_text, guarded, h64
from ref import poly as P

PROPERTY = "C12"
RULE = (
    "product of D x grid shape x spacing form x mode x batch size x dtype (complete on the shapes listed in bounds, the two extreme "
    "elements (per-item per-axis spacing, N=2, float64) and (spacing=None, N=1, float32) on the other shapes of the quick tier); per element every basis field "
    "(E_ij x, e_i, x_i x_j e_k, generic), every key request (all, each single key, each pair, order=, short forms) and "
    "every function (flow_derivatives, spatial_derivatives, jacobian_matrix/dict/det, divergence, curl, lie_bracket); "
    "memory layout: the field given to flow_derivatives (order 1, 2) / spatial_derivatives / jacobian_det / jacobian_dict / divergence / curl in modes "
    "central, default, sobel, bspline and the tensor-valued spacing, as transposed view, step-sliced view and stride-0 expanded batch, must give the result of "
    "the contiguous form and stay unchanged; "
    "distinct = (sub-check, configuration, field, request); non-trivial = the analytic value judged is not identically zero"
)
EXPLANATION = "exhaustive product-lattice exploration of the derivative operators against analytic polynomial / spline derivatives"
ASSUMPTIONS = [
    "CPU, float32 and float64 data; spacings are converted to float32 by deepali, so 64*2^-23 relative error of the value is always allowed",
    "tolerance = 64 * (eps(dtype) * max|u| * 2^o / min(h)^o + 2^-23 * max|expected|) for a derivative of order o; products (det, bracket) propagate it",
    "regions judged: every grid point for forward_central_backward first order and for bspline mode; interior (margin = order) for forward, "
    "backward, central (replicate padding) and for prewitt / sobel (their smoothing of the other axes pads with zeros); second order: margin 2",
    "spacing=None means the normalised cube spacing 2/(n-1) for the flow functions (documented default of the flow derivative losses) "
    "and unit spacing (index units) for spatial_derivatives on image data; in bspline mode the spacing is "
    "the distance of the control points (= data lattice) and output sample m lies at control point index 1 + m/stride",
    "call sequences: every ordered pair [X, Y] of step configurations (dtype x {bspline stride 2, bspline stride 3, default mode}), same shape and other-shape-first, "
    "per function family, each first step in a freshly forked process (one shard per X); only the last call is judged, with the tolerance of its own dtype",
    "lie_bracket(a, b) is judged as Jac(a) b - Jac(b) a (formula in its docstring, positional call); lie_bracket in bspline mode is not judged",
]
# vacuity guard: about half of what the quick tier measures (43 738 non-trivial cases, 34 537 outcomes); thorough is a superset
MIN_NONTRIVIAL = {"quick": 21000, "thorough": 60000}
MIN_OUTCOMES = {"quick": 17000, "thorough": 40000}
MIN_SUB_TRACES = {"fd1": 2300, "fd2": 1900, "bspline": 450, "keys": 4500, "jac": 1800, "det": 1100, "div": 1800, "curl": 1800, "lie": 2000, "sd": 8500, "seq": 360, "layout": 180}

EPS = {"f32": 2.0 ** -23, "f64": 2.0 ** -52}
DT = {"f32": torch.float32, "f64": torch.float64}
C = 64.0

FD_MODES = ["forward", "backward", "central", "forward_central_backward", "prewitt", "sobel"]
ALL_MODES = FD_MODES + ["default", "bspline"]  # "default" = mode=None (documented: forward_central_backward)

SP_ROWS = (
    (0.5, 1.25, 2.0),
    (1.5, 0.75, 0.625),
    (2.0, 0.5, 1.0),
    (0.625, 1.75, 0.875),
    (1.0, 0.875, 1.5),
    (0.75, 2.0, 0.5),
    (1.25, 0.625, 1.75),
    (0.875, 1.5, 0.75),
)
SP_SCALAR = (0.75, 0.5, 1.25, 2.0)
SP_QUICK = ["none", "scalar", "vec", "N1", "ND"]
SP_THOROUGH = SP_QUICK + ["scalar_int", "vec_list", "vec_tensor", "1D", "N1_list"]


# ---------------------------------------------------------------------------
def shapes(D: int, tier: str):
    if D == 2:
        return [(a, b) for a in (5, 6, 7) for b in (5, 6, 7)]
    base = [(5, 6, 7), (7, 5, 6), (6, 7, 5), (5, 5, 5), (7, 7, 6), (6, 5, 5), (5, 7, 7), (6, 6, 6)]
    if tier == "quick":
        return base[:2]
    return base + [(8, 5, 9), (5, 9, 6)]


def spacing_form(name: str, D: int, N: int, shape, seed: int):
    """-> (argument passed to deepali, H[N, D] float64 true spacing of every batch item, x axis first)."""
    rows = [SP_ROWS[(i + seed) % len(SP_ROWS)] for i in range(N)]
    n = [shape[D - 1 - d] for d in range(D)]
    if name == "none":
        h = [2.0 / (n[d] - 1) for d in range(D)]
        return None, np.array([h] * N)
    if name == "none-unit":  # spatial_derivatives(spacing=None): derivatives in index units
        return None, np.ones((N, D))
    if name == "scalar":
        s = SP_SCALAR[seed % 4]
        return s, np.full((N, D), s)
    if name == "scalar_int":
        return 2, np.full((N, D), 2.0)
    if name in ("vec", "vec_list", "vec_tensor", "1D"):
        v = rows[0][:D]
        H = np.array([v] * N)
        if name == "vec":
            return tuple(v), H
        if name == "vec_list":
            return list(v), H
        if name == "vec_tensor":
            return torch.tensor(v, dtype=torch.float64), H
        return torch.tensor([v], dtype=torch.float32), H
    if name in ("N1", "N1_list"):
        col = [[r[0]] for r in rows]
        H = np.array([[r[0]] * D for r in rows])
        return (torch.tensor(col, dtype=torch.float32) if name == "N1" else col), H
    if name == "ND":
        H = np.array([r[:D] for r in rows])
        return torch.tensor(H, dtype=torch.float32), H
    raise KeyError(name)


def offsets(D, shape, H):
    """Centred dyadic-ish offsets (the operators never see coordinates; any offset is in the domain)."""
    n = [shape[D - 1 - d] for d in range(D)]
    return np.array([[H[i, d] * (0.25 * (d + 1) - ((n[d] - 1) // 2)) for d in range(D)] for i in range(H.shape[0])])


def f32_term(sp: str, image: bool = False) -> float:
    """deepali converts the spacing to float32: a relative error of 2^-23 of every derivative value is allowed where the
    spacing is not exactly representable (only spacing=None = 2/(n-1) of the flow functions; every other menu entry is dyadic,
    and spacing=None of spatial_derivatives is exactly 1), so float64 results are judged with float64 tolerances."""
    return EPS["f32"] if (sp == "none" and not image) else 0.0


def field_from(spec) -> P.PolyField:
    D = len(spec["t"])
    return P.PolyField(D, t=spec["t"], A=spec["A"], Q=spec.get("Q"))


def field_spec(f: P.PolyField, name: str = ""):
    d = {"name": name, "t": f.t.tolist(), "A": f.A.tolist()}
    if np.any(f.Q):
        d["Q"] = f.Q.tolist()
    return d


def mode_arg(mode):
    return None if mode == "default" else mode


def stride_tuple(stride, D):
    if stride is None:
        return (1,) * D
    if isinstance(stride, int):
        return (stride,) * D
    return tuple(stride)


def margin_of(mode: str, order: int) -> int:
    if mode == "bspline":
        return 0
    if mode in ("forward_central_backward", "default") and order == 1:
        return 0
    return order


class Built:
    """Real input tensor of a configuration + coordinates of the output lattice of every batch item."""

    def __init__(self, cfg, fields):
        D, shape, N = cfg["D"], tuple(cfg["shape"]), cfg["N"]
        self.cfg = cfg
        self.D, self.N, self.shape = D, N, shape
        self.sp_arg, self.H = spacing_form(cfg["sp"] + ("-unit" if (cfg["sp"] == "none" and cfg.get("image")) else ""), D, N, shape, cfg.get("seed", 0))
        self.OFF = offsets(D, shape, self.H)
        self.fields = fields
        self.Xin = [P.lattice_coords(shape, self.H[i], self.OFF[i]) for i in range(N)]
        vals = np.stack([fields[i].values(self.Xin[i]) for i in range(N)])
        self.u = torch.tensor(vals, dtype=DT[cfg["dtype"]])
        self.umax = float(np.abs(vals).max()) if vals.size else 0.0
        self.hmin = float(self.H.min())
        self.mode = cfg["mode"]
        self.stride = cfg.get("stride")
        if self.mode == "bspline":
            st = stride_tuple(self.stride, D)
            self.oshape = tuple((shape[D - 1 - d] - 3) * st[d] for d in range(D))[::-1]
            self.Xout = [
                P.lattice_coords(self.oshape, self.H[i] / np.array(st, float), self.OFF[i] + self.H[i]) for i in range(N)
            ]
        else:
            self.oshape = shape
            self.Xout = self.Xin

    def kwargs(self):
        kw = dict(mode=mode_arg(self.mode), spacing=self.sp_arg)
        if self.mode == "bspline" and self.stride is not None:
            kw["stride"] = self.stride if isinstance(self.stride, int) else tuple(self.stride)
        return kw

    def e1(self, order: int, emax: float) -> float:
        """Error bound (without the factor C) of one derivative value of the given order."""
        eps = EPS[self.cfg["dtype"]]
        return eps * max(self.umax, 1e-30) * (2.0 ** order) / (self.hmin ** order) + f32_term(self.cfg["sp"]) * emax

    def region(self, order: int):
        return P.interior(self.oshape, margin_of(self.mode, order))


def sig_of(case, fn, kind):
    cfg = case["cfg"]
    extra = f"/req={case['req']['form']}" if "req" in case and case["sub"] in ("keys", "sd") else ""
    if case["sub"] == "layout":
        return f"C12/layout/fn={case['fn']}/mode={cfg['mode']}/D={cfg['D']}/operand={case['operand']}/layout={case['layout']}/{kind}"
    if case.get("after"):
        extra += f"/family={case['family']}/then={case['then']}/after={case['after']}"
    return f"C12/{case['sub']}/fn={fn}/mode={cfg['mode']}/D={cfg['D']}/sp={cfg['sp']}{extra}/{kind}"


class Judge:
    """Collects (sig, detail) of one case and the counters for the accumulator."""

    def __init__(self, case):
        self.case = case
        self.out = []
        self.trans = 0
        self.outcomes = []
        self.nontrivial = False
        self.undef = []

    def bad(self, fn, kind, detail):
        s = sig_of(self.case, fn, kind)
        if all(s != o[0] for o in self.out):
            self.out.append((s, detail))

    def call(self, fn, name, *a, **kw):
        self.trans += 1
        st, res = guarded(fn, *a, **kw)
        if st == "raises":
            self.bad(name, "raises=" + type(res).__name__, exc_text(res))
            self.outcomes.append(("raise", name, type(res).__name__))
            return None
        return res

    def tensor(self, fn, what, t, oshape_full, dtype=None):
        """Basic well-formedness of a returned tensor; returns float64 numpy or None."""
        if not isinstance(t, torch.Tensor):
            self.bad(fn, "type", f"{what}: returned {type(t).__name__}")
            return None
        if tuple(t.shape) != tuple(oshape_full):
            self.bad(fn, "shape", f"{what}: shape {tuple(t.shape)} expected {tuple(oshape_full)}")
            return None
        a = t.detach().double().numpy()
        if not np.all(np.isfinite(a)):
            self.bad(fn, "nonfinite", f"{what}: non-finite values")
            return None
        return a

    def close(self, fn, kind, what, got, exp, tol):
        err = float(np.abs(got - exp).max()) if got.size else 0.0
        if np.any(exp != 0):
            self.nontrivial = True
        if not (err <= tol):
            idx = np.unravel_index(int(np.argmax(np.abs(got - exp))), got.shape)
            self.bad(fn, kind, f"{what}: max |got - expected| = {err:.3e} > tol {tol:.2e} at {tuple(int(i) for i in idx)}: got {float(got[idx]):.6g} expected {float(exp[idx]):.6g}")
            return False
        return True


# ---------------------------------------------------------------------------
# the sub-checks (each judges ONE case = one configuration + fields + request)
def _deriv_dict_check(J: Judge, B: Built, fn, d, keys, order_of):
    if not isinstance(d, dict):
        J.bad(fn, "type", f"returned {type(d).__name__}")
        return
    if sorted(d.keys()) != sorted(keys):
        J.bad(fn, "keys", f"keys {sorted(d.keys())} expected {sorted(keys)}")
        return
    full = (B.N, 1) + tuple(B.oshape)
    for key in keys:
        o = order_of(key)
        a = J.tensor(fn, key, d[key], full)
        if a is None:
            continue
        J.outcomes.append((key, np.round(a, 4).tobytes()))
        reg = B.region(o)
        for i in range(B.N):
            exp = B.fields[i].deriv(key, B.Xout[i])
            tol = C * B.e1(o, float(np.abs(exp).max()))
            J.close(fn, f"value/order={o}", f"{key} item {i}", a[(i, 0) + reg], exp[reg], tol)


def case_fd(J: Judge, case):
    """flow_derivatives of order 1 (affine fields) or 2 (quadratic fields), all keys of that order."""
    from deepali.core import flow as U

    cfg = case["cfg"]
    order = case["order"]
    B = Built(cfg, [field_from(s) for s in case["fields"]])
    kw = B.kwargs()
    if case.get("via") == "order":
        kw["order"] = order
    elif order == 2 or case.get("via") == "which":
        kw["which"] = P.flow_keys(cfg["D"], order)
    d = J.call(U.flow_derivatives, "flow_derivatives", B.u, **kw)
    if d is None:
        return
    keys = P.flow_keys(cfg["D"], order)
    _deriv_dict_check(J, B, "flow_derivatives", d, keys, lambda k: order)
    if order == 2 and isinstance(d, dict):
        for k in range(cfg["D"]):
            for a, b in itertools.combinations(P.LETTERS[: cfg["D"]], 2):
                k1, k2 = f"d{P.CHANNELS[k]}/d{a}{b}", f"d{P.CHANNELS[k]}/d{b}{a}"
                if k1 in d and k2 in d and isinstance(d[k1], torch.Tensor) and isinstance(d[k2], torch.Tensor) and d[k1].shape == d[k2].shape:
                    x, y = d[k1].double().numpy(), d[k2].double().numpy()
                    reg = (slice(None), slice(None)) + B.region(2)
                    J.close("flow_derivatives", "mixed-symmetry", f"{k1} vs {k2}", x[reg], y[reg], C * B.e1(2, float(np.abs(y).max())))


def coef_lattice(kind, N, D, shape, seed):
    """Spline coefficient arrays (N, D, *shape): 'generic' fixed dyadic table or 'impulses' (one per item/channel)."""
    size = int(np.prod(shape))
    if kind == "generic":
        idx = np.arange(N * D * size, dtype=np.int64)
        vals = (((idx * 7919 + (seed + 1) * 104729) % 64) - 32) / 16.0
        return vals.reshape((N, D) + tuple(shape))
    out = np.zeros((N, D, size))
    for i in range(N):
        for k in range(D):
            if N >= size:  # one item per lattice position (channel k shifted by 3k)
                pos = (i + 3 * k) % size
            else:
                pos = ((i * D + k) * max(1, size // (N * D)) + size // 2 + seed) % size
            out[i, k, pos] = 1.0
    return out.reshape((N, D) + tuple(shape))


def case_bspline(J: Judge, case):
    """mode='bspline': derivatives of the cubic B-spline whose coefficients are the data."""
    from deepali.core import flow as U

    cfg = case["cfg"]
    D, shape, N = cfg["D"], tuple(cfg["shape"]), cfg["N"]
    sp_arg, H = spacing_form(cfg["sp"], D, N, shape, cfg.get("seed", 0))
    coef = coef_lattice(case["coef"], N, D, shape, cfg.get("seed", 0))
    u = torch.tensor(coef, dtype=DT[cfg["dtype"]])
    stride = cfg.get("stride")
    st = stride_tuple(stride, D)
    kw = dict(mode="bspline", spacing=sp_arg)
    if stride is not None:
        kw["stride"] = stride if isinstance(stride, int) else tuple(stride)
    req = case["req"]
    if req["form"] == "order":
        kw["order"] = req["order"]
        keys = P.flow_keys(D, req["order"])
    else:
        kw["which"] = list(req["which"])
        keys = list(req["which"])
    d = J.call(U.flow_derivatives, "flow_derivatives", u, **kw)
    if d is None:
        return
    if not isinstance(d, dict) or sorted(d.keys()) != sorted(keys):
        J.bad("flow_derivatives", "keys", f"keys {sorted(d.keys()) if isinstance(d, dict) else type(d)} expected {sorted(keys)}")
        return
    oshape = tuple((shape[D - 1 - dd] - 3) * st[dd] for dd in range(D))[::-1]
    eps = EPS[cfg["dtype"]]
    cmax = float(np.abs(coef).max())
    for key in keys:
        ch, letters = P.parse_flow_key(key)
        a = J.tensor("flow_derivatives", key, d[key], (N, 1) + oshape)
        if a is None:
            continue
        J.outcomes.append((key, np.round(a, 4).tobytes()))
        o = len(letters)
        for i in range(N):
            exp = P.spline_derivative(coef[i, ch], letters, st, H[i])
            tol = C * (eps * cmax * 8.0 / (H[i].min() ** o) + f32_term(cfg["sp"]) * float(np.abs(exp).max()))
            J.close("flow_derivatives", f"value/order={o}", f"{key} item {i} stride {st}", a[i, 0], exp, tol)


def expand_request(D, which, order):
    """Documented meaning of (which, order): list of flow keys (channel letters expanded, order filter applied)."""
    if which is None:
        return P.flow_keys(D, 1 if order is None else order)
    if isinstance(which, str):
        which = [which]
    keys = []
    for w in which:
        if "/" in w:
            chans, letters = w[1: w.index("/")], w[w.index("/") + 2:]
        else:
            chans, letters = P.CHANNELS[:D], w
        if order is not None and len(letters) != order:
            continue
        for c in chans:
            keys.append(f"d{c}/d{letters}")
    return keys


def canon(key):
    ch, letters = P.parse_flow_key(key)
    return f"d{P.CHANNELS[ch]}/d{''.join(sorted(letters))}"


def case_keys(J: Judge, case):
    """Requesting a subset returns the same values as requesting all (and mixed keys in either letter order)."""
    from deepali.core import flow as U

    cfg = case["cfg"]
    D = cfg["D"]
    B = Built(cfg, [field_from(s) for s in case["fields"]])
    kw = B.kwargs()
    allv = {}
    for o in (1, 2):
        d = J.call(U.flow_derivatives, "flow_derivatives", B.u, order=o, **kw)
        if not isinstance(d, dict):
            if d is not None:
                J.bad("flow_derivatives", "type", f"returned {type(d).__name__}")
            return
        allv.update(d)
    req = case["req"]
    which, order = req.get("which"), req.get("order")
    want = expand_request(D, which, order)
    kw2 = dict(kw)
    if which is not None:
        kw2["which"] = which if isinstance(which, str) else list(which)
    if order is not None:
        kw2["order"] = order
    d = J.call(U.flow_derivatives, "flow_derivatives", B.u, **kw2)
    if d is None:
        return
    if not isinstance(d, dict):
        J.bad("flow_derivatives", "type", f"returned {type(d).__name__}")
        return
    if sorted(d.keys()) != sorted(set(want)):
        J.bad("flow_derivatives", "keys", f"which={which!r} order={order}: keys {sorted(d.keys())} expected {sorted(set(want))}")
        return
    for key in sorted(set(want)):
        ref = allv.get(key)
        if ref is None:
            ref = allv.get(canon(key))
        if ref is None:
            J.bad("flow_derivatives", "all-missing", f"'all' request lacks {key}")
            continue
        a = J.tensor("flow_derivatives", key, d[key], tuple(ref.shape))
        if a is None:
            continue
        J.outcomes.append((key, np.round(a, 4).tobytes()))
        r = ref.detach().double().numpy()
        o = len(P.parse_flow_key(key)[1])
        J.close("flow_derivatives", "subset-vs-all", f"which={which!r} order={order} key {key}", a, r, C * B.e1(o, float(np.abs(r).max())))


def affine_lists(B: Built):
    return [f.A for f in B.fields]


def case_jac(J: Judge, case):
    from deepali.core import flow as U

    cfg = case["cfg"]
    D = cfg["D"]
    B = Built(cfg, [field_from(s) for s in case["fields"]])
    kw = B.kwargs()
    reg = B.region(1)
    for add in (False, True, None):
        kw2 = dict(kw) if add is None else dict(kw, add_identity=add)
        eff = False if add is None else add  # documented default of jacobian_matrix / jacobian_dict: False
        m = J.call(U.jacobian_matrix, "jacobian_matrix", B.u, **kw2)
        if m is not None:
            a = J.tensor("jacobian_matrix", f"add_identity={add}", m, (B.N,) + tuple(B.oshape) + (D, D))
            if a is not None:
                J.outcomes.append(("jm", add, np.round(a, 4).tobytes()))
                for i in range(B.N):
                    jac = B.fields[i].jacobian(B.Xout[i])
                    exp = jac + (np.eye(D) if eff else 0.0)
                    # magnitude of the terms, not of their sum (A_ii = -1 cancels against the identity)
                    tol = C * B.e1(1, float(np.abs(jac).max()) + 1.0)
                    J.close("jacobian_matrix", f"value/add_identity={add}", f"item {i}", a[(i,) + reg], exp[reg], tol)
        dd = J.call(U.jacobian_dict, "jacobian_dict", B.u, **kw2)
        if dd is not None:
            if not isinstance(dd, dict) or sorted(dd.keys()) != sorted(itertools.product(range(D), repeat=2)):
                J.bad("jacobian_dict", "keys", f"keys {sorted(dd.keys()) if isinstance(dd, dict) else type(dd)}")
            else:
                for (r, c), t in dd.items():
                    a = J.tensor("jacobian_dict", f"({r},{c})", t, (B.N, 1) + tuple(B.oshape))
                    if a is None:
                        continue
                    for i in range(B.N):
                        d1 = B.fields[i].d1(r, c, B.Xout[i])
                        exp = d1 + (1.0 if (eff and r == c) else 0.0)
                        tol = C * B.e1(1, float(np.abs(d1).max()) + 1.0)
                        J.close("jacobian_dict", f"value/add_identity={add}", f"({r},{c}) item {i}", a[(i, 0) + reg], exp[reg], tol)


def case_det(J: Judge, case):
    from deepali.core import flow as U

    cfg = case["cfg"]
    D = cfg["D"]
    B = Built(cfg, [field_from(s) for s in case["fields"]])
    kw = B.kwargs()
    reg = B.region(1)
    for add in (True, False, None):
        kw2 = dict(kw) if add is None else dict(kw, add_identity=add)
        eff = True if add is None else add  # documented default of jacobian_det: True
        t = J.call(U.jacobian_det, "jacobian_det", B.u, **kw2)
        if t is None:
            continue
        a = J.tensor("jacobian_det", f"add_identity={add}", t, (B.N, 1) + tuple(B.oshape))
        if a is None:
            continue
        J.outcomes.append(("det", add, np.round(a, 4).tobytes()))
        for i in range(B.N):
            M = B.fields[i].A + (np.eye(D) if eff else 0.0)
            exp = np.full(B.oshape, np.linalg.det(M))
            amax = float(np.abs(M).max()) + 1.0
            tol = C * math.factorial(D) * D * B.e1(1, amax) * amax ** (D - 1)
            J.close("jacobian_det", f"value/add_identity={add}", f"item {i} A={B.fields[i].A.tolist()}", a[(i, 0) + reg], exp[reg], tol)


def case_div(J: Judge, case):
    from deepali.core import flow as U

    cfg = case["cfg"]
    B = Built(cfg, [field_from(s) for s in case["fields"]])
    t = J.call(U.divergence, "divergence", B.u, **B.kwargs())
    if t is None:
        return
    a = J.tensor("divergence", "div", t, (B.N, 1) + tuple(B.oshape))
    if a is None:
        return
    J.outcomes.append(("div", np.round(a, 4).tobytes()))
    reg = B.region(1)
    for i in range(B.N):
        A = B.fields[i].A
        exp = np.full(B.oshape, np.trace(A))
        J.close("divergence", "value", f"item {i}", a[(i, 0) + reg], exp[reg], C * cfg["D"] * B.e1(1, float(np.abs(A).max())))


def case_curl(J: Judge, case):
    from deepali.core import flow as U

    cfg = case["cfg"]
    D = cfg["D"]
    B = Built(cfg, [field_from(s) for s in case["fields"]])
    t = J.call(U.curl, "curl", B.u, **B.kwargs())
    if t is None:
        return
    nc = 1 if D == 2 else 3
    a = J.tensor("curl", "curl", t, (B.N, nc) + tuple(B.oshape))
    if a is None:
        return
    J.outcomes.append(("curl", np.round(a, 4).tobytes()))
    reg = B.region(1)
    for i in range(B.N):
        A = B.fields[i].A  # A[i, j] = d u_i / d x_j
        if D == 2:
            comps = [A[1, 0] - A[0, 1]]
        else:
            comps = [A[2, 1] - A[1, 2], A[0, 2] - A[2, 0], A[1, 0] - A[0, 1]]
        for c, v in enumerate(comps):
            exp = np.full(B.oshape, v)
            J.close("curl", "value", f"component {c} item {i}", a[(i, c) + reg], exp[reg], C * 2 * B.e1(1, float(np.abs(A).max())))


def case_lie(J: Judge, case):
    from deepali.core import flow as U

    cfg = case["cfg"]
    D = cfg["D"]
    Bv = Built(cfg, [field_from(s) for s in case["fields"]])
    Bu = Built(cfg, [field_from(s) for s in case["fields2"]])
    t = J.call(U.lie_bracket, "lie_bracket", Bv.u, Bu.u, **Bv.kwargs())
    if t is None:
        return
    a = J.tensor("lie_bracket", "bracket", t, (Bv.N, D) + tuple(Bv.oshape))
    if a is None:
        return
    J.outcomes.append(("lie", np.round(a, 4).tobytes()))
    reg = Bv.region(1)
    for i in range(Bv.N):
        fv, fu = Bv.fields[i], Bu.fields[i]
        X = Bv.Xin[i]
        vv, uu = fv.values(X), fu.values(X)
        exp = np.einsum("kj,j...->k...", fv.A, uu) - np.einsum("kj,j...->k...", fu.A, vv)
        vmax = max(float(np.abs(vv).max()), float(np.abs(uu).max()), 1.0)
        amax = max(float(np.abs(fv.A).max()), float(np.abs(fu.A).max()), 1.0)
        e1 = max(Bv.e1(1, amax), Bu.e1(1, amax))
        tol = C * 2 * D * (e1 * vmax + EPS[cfg["dtype"]] * amax * vmax)
        J.close("lie_bracket", "value", f"item {i}", a[(i, slice(None)) + reg], exp[(slice(None),) + reg], tol)


def case_sd(J: Judge, case):
    """spatial_derivatives on image data (N, C, ...) directly (C need not equal D)."""
    from deepali.core.image import spatial_derivatives

    cfg = case["cfg"]
    D, Cn = cfg["D"], case["channels"]
    nf = (Cn + D - 1) // D
    specs = case["fields"]  # N * nf fields
    N = cfg["N"]
    Bs = [Built(cfg, [field_from(specs[i * nf + j]) for i in range(N)]) for j in range(nf)]
    data = torch.cat([b.u for b in Bs], dim=1)[:, :Cn]
    B = Bs[0]
    req = case["req"]
    which, order = req.get("which"), req.get("order")
    kw = B.kwargs()
    if which is not None:
        kw["which"] = which if isinstance(which, str) else list(which)
    if order is not None:
        kw["order"] = order
    d = J.call(spatial_derivatives, "spatial_derivatives", data, **kw)
    if d is None:
        return
    if which is None:
        o = 1 if order is None else order
        want = ["".join(p) for p in itertools.product(P.LETTERS[:D], repeat=o)]
    else:
        want = [which] if isinstance(which, str) else list(which)
        if order is not None:
            want = [w for w in want if len(w) == order]
    if not isinstance(d, dict) or sorted(d.keys()) != sorted(set(want)):
        J.bad("spatial_derivatives", "keys", f"which={which!r} order={order}: keys {sorted(d.keys()) if isinstance(d, dict) else type(d)} expected {sorted(set(want))}")
        return
    umax = max(b.umax for b in Bs)
    for key in sorted(set(want)):
        o = len(key)
        if o == 1 and case.get("degree", 1) != 1:
            continue  # first derivatives are promised exact on affine data only
        a = J.tensor("spatial_derivatives", key, d[key], (N, Cn) + tuple(B.oshape))
        if a is None:
            continue
        J.outcomes.append((key, np.round(a, 4).tobytes()))
        reg = B.region(o)
        for i in range(N):
            for c in range(Cn):
                f = Bs[c // D].fields[i]
                exp = f.deriv(f"d{P.CHANNELS[c % D]}/d{key}", B.Xout[i])
                tol = C * (EPS[cfg["dtype"]] * max(umax, 1e-30) * 2.0 ** o / B.hmin ** o + f32_term(cfg["sp"], image=True) * float(np.abs(exp).max()))
                J.close("spatial_derivatives", f"value/order={o}", f"{key} channel {c} item {i}", a[(i, c) + reg], exp[reg], tol)


LAYOUT_FNS = ["flow_derivatives/order=1", "flow_derivatives/order=2", "spatial_derivatives", "jacobian_det", "jacobian_dict", "divergence", "curl"]
LAYOUT_MODES = ["central", "default", "sobel", "bspline"]
LAYOUT_FORMS = ["transposed", "sliced", "expanded"]


def fingerprint(t):
    return (t._version, tuple(t.shape), tuple(t.stride()), t.detach().clone().contiguous().numpy().tobytes())


def case_layout(J: Judge, case):
    """Same values, other memory layout of a user tensor (field or tensor-valued spacing): no exception, result equal to the
    result with contiguous arguments, arguments unchanged (bits and _version)."""
    from deepali.core import flow as U
    from deepali.core.image import spatial_derivatives
    from ref.layout import applicable, relayout

    cfg, fname, operand, form = case["cfg"], case["fn"], case["operand"], case["layout"]
    D, N = cfg["D"], cfg["N"]
    f = P.generic_field(D, cfg.get("seed", 0), 2, 0)
    B = Built(cfg, [f] * N)  # batch-invariant field (needed for the stride-0 batch); items differ by the per-item spacing only
    kw = B.kwargs()
    u_ref, u_tst = B.u.clone().contiguous(), B.u.clone().contiguous()
    sp_ref = sp_tst = kw["spacing"]
    if operand == "field":
        if form == "expanded":
            item = B.u[0]
            u_ref, u_tst = relayout(item, "repeat", N), relayout(item, "expanded", N)
        else:
            if not applicable(B.u, form):
                J.undef.append("layout variant not applicable")
                return
            u_tst = relayout(B.u, form)
    else:
        sp = kw["spacing"]
        if not isinstance(sp, torch.Tensor):
            raise AssertionError("spacing operand must be a tensor form")
        if form == "expanded":
            row = sp[0] if sp.ndim == 2 else sp
            if sp.ndim == 2:
                sp_ref, sp_tst = relayout(row, "repeat", N), relayout(row, "expanded", N)
            else:
                J.undef.append("layout variant not applicable")
                return
        else:
            if not applicable(sp, form):
                J.undef.append("layout variant not applicable")
                return
            sp_ref, sp_tst = relayout(sp, "contig"), relayout(sp, form)
    if operand == "field" and u_tst.is_contiguous() and form != "contig":
        J.undef.append("layout variant is contiguous for this shape")
        return

    def call(u, sp):
        k = dict(kw, spacing=sp)
        if fname.startswith("flow_derivatives"):
            return U.flow_derivatives(u, order=int(fname[-1]), **k)
        if fname == "spatial_derivatives":
            return spatial_derivatives(u, which=["x", "yx", "yy"], **k)
        if fname == "jacobian_dict":
            return {f"{r}{c}": v for (r, c), v in U.jacobian_dict(u, add_identity=True, **k).items()}
        return {"value": getattr(U, fname)(u, **k)}

    ref = J.call(call, fname, u_ref, sp_ref)
    if ref is None:
        return
    tensors = [t for t in (u_tst, sp_tst) if isinstance(t, torch.Tensor)]
    before = [fingerprint(t) for t in tensors]
    J.trans += 1
    st, res = guarded(call, u_tst, sp_tst)
    if st == "raises":
        J.bad(fname, "raises=" + type(res).__name__, exc_text(res))
        return
    if [fingerprint(t) for t in tensors] != before:
        J.bad(fname, "operand-mutated", "the argument tensor (bits / _version) was changed by the call")
    if sorted(res.keys()) != sorted(ref.keys()):
        J.bad(fname, "keys", f"keys {sorted(res.keys())} vs contiguous {sorted(ref.keys())}")
        return
    o = 2 if fname in ("flow_derivatives/order=2", "spatial_derivatives") else 1
    tol = C * EPS[cfg["dtype"]] * max(B.umax, 1e-30) * 2.0 ** o / B.hmin ** o * (1.0 + (max(B.umax, 1.0) / B.hmin) ** (D - 1) if fname == "jacobian_det" else 1.0)
    exact = True
    for k_ in ref:
        a, b = res[k_], ref[k_]
        if tuple(a.shape) != tuple(b.shape):
            J.bad(fname, "shape", f"{k_}: shape {tuple(a.shape)} vs contiguous {tuple(b.shape)}")
            continue
        x, y = a.detach().double().numpy(), b.detach().double().numpy()
        exact = exact and np.array_equal(x, y)
        J.close(fname, "value", f"{k_}: layout {form} vs contiguous", x, y, tol)
        J.outcomes.append((k_, form, np.round(x, 4).tobytes()))
    J.exact = exact


def case_seq(J: Judge, case):
    """Call sequence [configuration X, then configuration Y] in one process: the stateless API must answer Y as in a fresh
    process.  Only the LAST step is judged (with the tolerance of its own dtype); the case holds the whole sequence."""
    for sub in case["steps"][0]:
        J0 = Judge(sub)
        st, _ = guarded(DISPATCH[sub["sub"]], J0, sub)
        J.trans += J0.trans
    for sub in case["steps"][1]:
        DISPATCH[sub["sub"]](J, sub)


DISPATCH = {
    "fd1": case_fd, "fd2": case_fd, "bspline": case_bspline, "keys": case_keys, "jac": case_jac,
    "det": case_det, "div": case_div, "curl": case_curl, "lie": case_lie, "sd": case_sd, "seq": case_seq, "layout": case_layout,
}


def exec_case(case) -> Judge:
    J = Judge(case)
    st, res = guarded(DISPATCH[case["sub"]], J, case)
    if st == "raises":
        # every deepali call is guarded, so this is the judge failing on a returned object it cannot read
        # (wrong type / rank / dtype): reported as a malformed result, never as a crashed shard
        J.bad("harness", "malformed-result/" + type(res).__name__, "judge could not read the returned object: " + exc_text(res))
    return J


# ---------------------------------------------------------------------------
# enumeration
def affine_basis_specs(D, seed):
    out = [field_spec(f, n) for n, f in P.basis_affine(D)]
    out.append(field_spec(P.generic_field(D, seed, 1, 0), "gen1"))
    return out


def quadratic_basis_specs(D, seed):
    out = [field_spec(f, n) for n, f in P.basis_quadratic(D)]
    out.append(field_spec(P.generic_field(D, seed, 2, 0), "gen2"))
    return out


def pack(specs, N, filler):
    """Group field specs into batches of N (last batch filled with the filler spec)."""
    out = []
    for i in range(0, len(specs), N):
        grp = specs[i: i + N]
        while len(grp) < N:
            grp.append(filler)
        out.append(grp)
    return out


def det_matrices(D, seed):
    """All sums of <= D distinct basis matrices E_ij (decides a D-linear form) + generic + negative entries."""
    idx = list(itertools.product(range(D), repeat=2))
    mats = []
    for r in range(1, D + 1):
        for comb in itertools.combinations(idx, r):
            A = np.zeros((D, D))
            for (i, j) in comb:
                A[i, j] = 1.0
            mats.append(A)
    mats.append(P.generic_field(D, seed, 1, 0).A)
    mats.append(-P.generic_field(D, seed, 1, 1).A)
    t = P.generic_field(D, seed, 1, 2).t
    return [field_spec(P.PolyField(D, t=t if n % 2 else None, A=A), f"m{n}") for n, A in enumerate(mats)]


def key_requests(D, tier, mode):
    k1, k2 = P.flow_keys(D, 1), P.flow_keys(D, 2)
    allk = k1 + k2
    reqs = []
    for k in allk:
        reqs.append({"form": "single-str", "which": k})
        reqs.append({"form": "single-list", "which": [k]})
    pairs = list(itertools.combinations(allk, 2))
    if D == 3 and tier == "quick":
        # quick: every pair of keys of the same component (they share one spatial_derivatives call and its
        # de-duplication of mixed keys) plus every 11th other pair; thorough: all pairs
        def related(a, b):
            return a[1] == b[1]
        pairs = [p for n, p in enumerate(pairs) if related(*p) or n % 11 == 0]
    for a, b in pairs:
        reqs.append({"form": "pair", "which": [a, b]})
    for a, b in pairs[:: 7]:
        reqs.append({"form": "pair-reversed", "which": [b, a]})
    for l in ["".join(p) for o in (1, 2) for p in itertools.product(P.LETTERS[:D], repeat=o)]:
        reqs.append({"form": "short", "which": l})
        reqs.append({"form": "short-list", "which": [l]})
    ch = P.CHANNELS[:D]
    for chans in [ch, ch[::-1], ch[:2], ch[-1] + ch[0]]:
        for l in ("x", "y", "xy", "yx", "yy") + (("z", "zx") if D == 3 else ()):
            reqs.append({"form": "multi-channel", "which": f"d{chans}/d{l}"})
    reqs.append({"form": "order-only", "order": 1})
    reqs.append({"form": "order-only", "order": 2})
    reqs.append({"form": "default"})
    reqs.append({"form": "which+order", "which": allk, "order": 1})
    reqs.append({"form": "which+order", "which": allk, "order": 2})
    reqs.append({"form": "which+order", "which": ["x", "xy", f"d{ch}/dyy", "du/dy"], "order": 2})
    reqs.append({"form": "all-list", "which": allk})
    reqs.append({"form": "duplicate", "which": [k1[1], k1[1], k2[1]]})
    reqs.append({"form": "mixed-both-orders", "which": [f"d{c}/d{a}{b}" for c in ch for a, b in (("x", "y"), ("y", "x"))]})
    return reqs


def sd_requests(D):
    l1 = list(P.LETTERS[:D])
    l2 = ["".join(p) for p in itertools.product(l1, repeat=2)]
    reqs = [{"form": "default"}, {"form": "order-only", "order": 1}, {"form": "order-only", "order": 2}]
    for k in l1 + l2:
        reqs.append({"form": "single-str", "which": k})
    reqs.append({"form": "list", "which": l1 + l2})
    reqs.append({"form": "list", "which": [l2[1], l1[0]]})
    reqs.append({"form": "list", "which": [l2[-2], l2[1]]})
    reqs.append({"form": "which+order", "which": l1 + l2, "order": 2})
    reqs.append({"form": "which+order", "which": l1 + l2, "order": 1})
    return reqs


def strides(D, tier):
    out = [None, 1, 2, 3, [2, 1, 3][:D]]
    if tier == "thorough":
        out += [4, [1, 3, 2][:D]]
    return out


PARTS = ["fd", "views", "multi", "extra"]

SEQ_FAMILIES = ["flow_derivatives", "spatial_derivatives", "jacobian_det", "divergence", "curl", "lie_bracket"]
# configurations of one step: dtype x (bspline with two strides | default mode); higher precision first
SEQ_CONFIGS = [("f64", "bspline", 2), ("f64", "bspline", 3), ("f64", "default", None),
               ("f32", "bspline", 2), ("f32", "bspline", 3), ("f32", "default", None)]


def seq_label(c):
    return f"{c[0]}:{c[1]}" + (f":s{c[2]}" if c[2] else "")


def seq_step(family, D, shape, c, seed):
    """Sub-cases (existing single-call judges) of one step of a sequence."""
    dt, mode, stride = c
    cfg = {"D": D, "shape": list(shape), "sp": "vec", "mode": mode, "N": 1, "dtype": dt, "seed": seed}
    if mode == "bspline":
        cfg["stride"] = stride
    g1 = field_spec(P.generic_field(D, seed, 1, 0), "gen1")
    g1b = field_spec(P.generic_field(D, seed, 1, 1), "gen1b")
    g2 = field_spec(P.generic_field(D, seed, 2, 0), "gen2")
    if family == "flow_derivatives":
        if mode == "bspline":
            return [{"sub": "bspline", "cfg": cfg, "coef": "generic", "req": {"form": "order", "order": o}} for o in (1, 2)]
        return [{"sub": "fd1", "cfg": cfg, "order": 1, "fields": [g1], "via": "order"}, {"sub": "fd2", "cfg": cfg, "order": 2, "fields": [g2]}]
    if family == "spatial_derivatives":
        return [{"sub": "sd", "cfg": dict(cfg, image=True), "channels": D, "degree": 1, "fields": [g1], "req": {"form": "order-only", "order": 1}}]
    if family == "jacobian_det":
        return [{"sub": "det", "cfg": cfg, "fields": [g1]}]
    if family == "divergence":
        return [{"sub": "div", "cfg": cfg, "fields": [g1]}]
    if family == "curl":
        return [{"sub": "curl", "cfg": cfg, "fields": [g1]}]
    if family == "lie_bracket":
        return [{"sub": "lie", "cfg": cfg, "fields": [g1], "fields2": [g1b]}]
    raise KeyError(family)


def seq_cases(shard):
    family, D, seed = shard["family"], shard["D"], shard["seed"]
    shape = (6, 7) if D == 2 else (5, 6, 7)
    other = (8, 5) if D == 2 else (6, 5, 8)
    x = tuple(shard["first"])
    out = []
    for y in SEQ_CONFIGS:
        if family == "lie_bracket" and y[1] == "bspline":
            continue
        first_shape = other if shard["variant"] == "other-shape-first" else shape
        ysteps = seq_step(family, D, shape, y, seed)
        out.append({"sub": "seq", "family": family, "cfg": ysteps[0]["cfg"], "then": seq_label(y), "after": seq_label(x) + ("@other-shape" if first_shape != shape else ""),
                    "steps": [seq_step(family, D, first_shape, x, seed), ysteps]})
    return out



def cases_of(shard):
    """All cases of a shard (deterministic function of the descriptor)."""
    tier, seed, D, kind = shard["tier"], shard["seed"], shard["D"], shard["kind"]
    mode = shard.get("mode")
    shape = list(shard.get("shape", []))
    part = shard.get("part")
    full = shard.get("full", True)
    sps = SP_QUICK if tier == "quick" else SP_THOROUGH
    dts = ["f64", "f32"]
    # complete product on "full" shapes; on the remaining shapes of the quick tier the two extreme elements of the product
    combos = list(itertools.product(sps, (1, 2), dts)) if full else [("ND", 2, "f64"), ("none", 1, "f32")]
    combos_packed = list(itertools.product(sps, dts)) if full else [("ND", "f64"), ("none", "f32")]
    if full and tier == "quick" and D == 3:
        combos = [c for c in combos if c[2] == "f64" or c[1] == 2]
        combos_packed = [c for c in combos_packed if c[1] == "f64" or c[0] in ("vec", "none")]
    out = []
    if kind == "seq":
        return seq_cases(shard)
    if kind == "layout":
        shp = [6, 7] if D == 2 else [5, 6, 7]
        for fname in LAYOUT_FNS:
            for m in LAYOUT_MODES:
                for form in LAYOUT_FORMS:
                    for dt in ("f32", "f64"):
                        c = {"D": D, "shape": shp, "sp": "ND", "mode": m, "N": 2, "dtype": dt, "seed": seed}
                        if m == "bspline":
                            c["stride"] = 2
                        if fname == "spatial_derivatives":
                            c["image"] = True
                        out.append({"sub": "layout", "fn": fname, "cfg": c, "operand": "field", "layout": form})
        # tensor-valued spacing: (N, D) float32 tensor, (1, D) row as stride-0 batch, 1-D vector
        for fname in ("flow_derivatives/order=1", "spatial_derivatives", "jacobian_det", "divergence"):
            for m in ("central", "bspline"):
                for spf, forms in (("ND", ["transposed", "sliced"]), ("1D", ["sliced", "expanded"]), ("vec_tensor", ["sliced"])):
                    for form in forms:
                        c = {"D": D, "shape": shp, "sp": spf, "mode": m, "N": 2, "dtype": "f64", "seed": seed}
                        if m == "bspline":
                            c["stride"] = 2
                        if fname == "spatial_derivatives":
                            c["image"] = True
                        out.append({"sub": "layout", "fn": fname, "cfg": c, "operand": "spacing", "layout": form})
        return out

    def cfg(sp, N, dt, stride=None):
        c = {"D": D, "shape": shape, "sp": sp, "mode": mode, "N": N, "dtype": dt, "seed": seed}
        if mode == "bspline":
            c["stride"] = stride
        return c

    aff = affine_basis_specs(D, seed)
    quad = quadratic_basis_specs(D, seed)
    gen1b = field_spec(P.generic_field(D, seed, 1, 1), "gen1b")
    gen2b = field_spec(P.generic_field(D, seed, 2, 1), "gen2b")
    st_all = strides(D, tier) if mode == "bspline" else [None]

    def st_for(sp):
        if mode != "bspline":
            return [None]
        return st_all if (sp in ("vec", "ND") or tier == "thorough") else [None, 2]

    if kind == "main" and part == "fd":
        for sp, N, dt in combos:
            for stride in st_for(sp):
                c = cfg(sp, N, dt, stride)
                # first order, affine basis; the request route alternates (default / order=1 / which=all)
                for n, grp in enumerate(pack(list(aff), 1, gen1b)):
                    fields = grp + ([gen1b] if N == 2 else [])
                    out.append({"sub": "fd1", "cfg": c, "order": 1, "fields": fields, "via": ("default", "order", "which")[n % 3]})
                if mode != "bspline":
                    for grp in pack(list(quad), 1, gen2b):
                        fields = grp + ([gen2b] if N == 2 else [])
                        out.append({"sub": "fd2", "cfg": c, "order": 2, "fields": fields})
    elif kind == "main" and part == "views":
        # Jacobian views, divergence, curl on the affine basis (packed into batches of N)
        for sp, N, dt in combos:
            for stride in st_for(sp):
                c = cfg(sp, N, dt, stride)
                for grp in pack(list(aff), N, gen1b):
                    out.append({"sub": "jac", "cfg": c, "fields": grp})
                    out.append({"sub": "div", "cfg": c, "fields": grp})
                    out.append({"sub": "curl", "cfg": c, "fields": grp})
    elif kind == "main" and part == "multi":
        # multilinear sweeps, packed into batches of 6 (per-item spacing forms get 6 rows)
        NP = 6
        dm = det_matrices(D, seed)
        lie_fields = list(aff) + [gen1b]
        pairs = [(a, b) for a in lie_fields for b in lie_fields]
        for sp, dt in combos_packed:
            for stride in st_for(sp)[:3]:
                c = cfg(sp, NP, dt, stride)
                for grp in pack(list(dm), NP, gen1b):
                    out.append({"sub": "det", "cfg": c, "fields": grp})
                if mode != "bspline":
                    for i in range(0, len(pairs), NP):
                        pp = pairs[i: i + NP]
                        while len(pp) < NP:
                            pp.append((gen1b, aff[-1]))
                        out.append({"sub": "lie", "cfg": c, "fields": [p[0] for p in pp], "fields2": [p[1] for p in pp]})
        if mode == "bspline":
            out.append({"sub": "lie-bspline-undef"})
    elif kind == "main" and part == "extra":
        if mode == "bspline":
            for sp, N, dt in combos:
                for stride in st_for(sp):
                    c = cfg(sp, N, dt, stride)
                    for coef in ("generic", "impulses"):
                        out.append({"sub": "bspline", "cfg": c, "coef": coef, "req": {"form": "order", "order": 1}})
                        out.append({"sub": "bspline", "cfg": c, "coef": coef, "req": {"form": "order", "order": 2}})
                    out.append({"sub": "bspline", "cfg": c, "coef": "generic", "req": {"form": "which", "which": ["dv/dyx", "du/dx", "dv/dxx"]}})
            # every impulse position: one batch item per lattice position (channel k shifted by 3k)
            size = int(np.prod(shape))
            for sp in (("vec", "none") if full else ("vec",)):
                for stride in (st_all[1:] if full else [2]):
                    c = cfg(sp, size, "f64", stride)
                    out.append({"sub": "bspline", "cfg": c, "coef": "impulses", "req": {"form": "order", "order": 1}})
                    out.append({"sub": "bspline", "cfg": c, "coef": "impulses", "req": {"form": "order", "order": 2}})
        else:
            # spatial_derivatives on image data: affine data judges every key (second order = 0), quadratic data the second order
            for sp, N, dt in combos:
                c = dict(cfg(sp, N, dt), image=True)
                for Cn in ((1, D, D + 1) if tier == "thorough" else (1, D + 1)):
                    nf = (Cn + D - 1) // D
                    for degree in (1, 2):
                        fl = [field_spec(P.generic_field(D, seed, degree, v), f"gen{degree}v{v}") for v in range(N * nf)]
                        for req in sd_requests(D):
                            if degree == 2 and req.get("order") != 2 and not (req.get("which") and all(len(w) == 2 for w in ([req["which"]] if isinstance(req["which"], str) else req["which"]))):
                                continue
                            out.append({"sub": "sd", "cfg": c, "channels": Cn, "degree": degree, "fields": fl, "req": req})
    elif kind == "keys":
        kc = (("vec", 1, "f64"), ("ND", 2, "f32")) if tier == "quick" else list(itertools.product(("none", "vec", "ND"), (1, 2), dts))
        reqs = key_requests(D, tier, mode)
        nparts = shard.get("nparts", 1)
        reqs = reqs[shard.get("part", 0):: nparts]
        for sp, N, dt in kc:
            for stride in ([None, 2] if mode == "bspline" else [None]):
                c = cfg(sp, N, dt, stride)
                fl = [field_spec(P.generic_field(D, seed, 2, v), f"gen2v{v}") for v in range(N)]
                for req in reqs:
                    out.append({"sub": "keys", "cfg": c, "fields": fl, "req": req})
    return out


def full_shapes(D, tier):
    """Shapes on which the complete (spacing form x N x dtype) product is run (all shapes in the thorough tier)."""
    shp = shapes(D, tier)
    if tier == "thorough":
        return shp
    return [(5, 7)] if D == 2 else [(5, 6, 7)]


def shards(tier: str, seed: int):
    out = []
    for D in (2, 3):
        shp = shapes(D, tier)
        fs = full_shapes(D, tier)
        for mode in ALL_MODES:
            for shape in shp:
                for part in PARTS:
                    if tier == "quick" and mode == "default" and part in ("fd", "extra") and tuple(shape) not in fs:
                        continue  # mode=None is forward_central_backward: quick runs its fd / image parts on the full shapes only
                    out.append({"tier": tier, "seed": seed, "D": D, "mode": mode, "shape": list(shape), "kind": "main", "part": part, "full": tuple(shape) in fs})
            kshapes = (shp[1:3] if D == 2 else shp[:1]) if tier == "quick" else shp[:3]
            nparts = 2 if D == 2 else 6
            if tier == "quick" and D == 3 and mode in ("forward", "backward", "prewitt", "forward_central_backward"):
                kshapes = []  # key parsing / grouping does not depend on the stencil: quick keeps central, sobel, default, bspline in 3-D
            for shape in kshapes:
                for k in range(nparts):
                    out.append({"tier": tier, "seed": seed, "D": D, "mode": mode, "shape": list(shape), "kind": "keys", "part": k, "nparts": nparts})
        out.append({"tier": tier, "seed": seed, "D": D, "kind": "layout"})
        # call sequences [X, Y]: one shard (= one fresh process) per family x first configuration X; inside, all Y (float64 first)
        for family in SEQ_FAMILIES:
            for x in SEQ_CONFIGS:
                if family == "lie_bracket" and x[1] == "bspline":
                    continue
                for variant in ("same-shape", "other-shape-first"):
                    out.append({"tier": tier, "seed": seed, "D": D, "kind": "seq", "family": family, "first": list(x), "variant": variant})
    return out


def bounds(tier):
    sh = shards(tier, 0)
    return {
        "D": [2, 3],
        "shapes_D2": len(shapes(2, tier)),
        "shapes_D3": len(shapes(3, tier)),
        "shapes_with_complete_spacing_x_N_x_dtype_product": {"D2": [list(x) for x in full_shapes(2, tier)], "D3": [list(x) for x in full_shapes(3, tier)]},
        "other_shapes_run": "(per-item per-axis spacing, N=2, float64) and (spacing=None, N=1, float32)" if tier == "quick" else "none (complete product everywhere)",
        "spacing_forms": SP_QUICK if tier == "quick" else SP_THOROUGH,
        "modes": ALL_MODES,
        "batch_sizes": [1, 2, 6, "prod(shape) for the impulse sweep"],
        "dtypes": ["float32", "float64"],
        "bspline_strides": [repr(x) for x in strides(3, tier)],
        "affine_basis_fields": {"D2": 7, "D3": 13},
        "quadratic_basis_fields": {"D2": 7, "D3": 19},
        "det_matrices": {"D2": len(det_matrices(2, 0)), "D3": len(det_matrices(3, 0))},
        "lie_pairs": {"D2": 49, "D3": 169},
        "key_requests": {"D2": len(key_requests(2, tier, "central")), "D3": len(key_requests(3, tier, "central"))},
        "layout": {"functions": LAYOUT_FNS, "modes": LAYOUT_MODES, "forms": LAYOUT_FORMS, "operands": ["field (N=2, float32 and float64)", "spacing tensor (N,D) / (1,D) / (D,)"], "D": [2, 3]},
        "call_sequences": {"depth": 2, "families": SEQ_FAMILIES, "step_configurations": [seq_label(c) for c in SEQ_CONFIGS],
                           "variants": ["same-shape", "other-shape-first"], "ordered_pairs_per_family_and_D": len(SEQ_CONFIGS) ** 2},
        "shards": len(sh),
    }


def state_key(case):
    c = dict(case)
    return h64(repr(sorted((k, repr(v)) for k, v in c.items())))


def run_shard(shard) -> Acc:
    acc = Acc()
    for case in cases_of(shard):
        if case["sub"] == "lie-bspline-undef":
            acc.undef("lie_bracket in bspline mode: vectors live on the coefficient lattice, derivatives on the (n-3)*stride lattice; not specified")
            continue
        J = exec_case(case)
        acc.state(state_key(case))
        acc.trans(J.trans)
        acc.trace(case["sub"], depth=2 if case["sub"] == "seq" else 1)
        for o in J.outcomes:
            acc.outcome(case["sub"], case["cfg"]["mode"], case.get("after", ""), *o)
        if J.nontrivial:
            acc.nontriv(state_key(case))
        for r in J.undef:
            acc.undef(r)
        if case["sub"] == "layout":
            acc.info["layout_bit_identical" if getattr(J, "exact", False) else "layout_within_tolerance_or_failed"] = acc.info.get("layout_bit_identical" if getattr(J, "exact", False) else "layout_within_tolerance_or_failed", 0) + 1
        for sig, detail in J.out:
            acc.violation(sig, case, detail, size=case["cfg"]["D"] * 100 + case["cfg"]["N"] * 10 + int(np.prod(case["cfg"]["shape"])) // 50)
        if len(acc.samples) < 2 and case["sub"] == "seq":
            acc.sample({"sequence": [[{"sub": c["sub"], "cfg": c["cfg"]} for c in step] for step in case["steps"]], "family": case["family"], "violations": [s for s, _ in J.out]})
        if len(acc.samples) < 2 and case["sub"] in ("fd2", "lie", "keys"):
            acc.sample({"case": {k: v for k, v in case.items() if k not in ("fields", "fields2")}, "fields": [f.get("name") for f in case.get("fields", [])], "violations": [s for s, _ in J.out]})
    return acc


def replay(case):
    return list(exec_case(case).out)
