"""C16 - image similarity and overlap losses satisfy their defining axioms.

Transition system: a node is one evaluation  loss(opts)(x, y, mask, reduction)  on the real code; an edge is an
*input transformation* (swap arguments, a*x+b, edit outside the mask, reshape the mask to another documented
broadcast form, crop to a rectangular mask, change the reduction, divide by norm, functional -> module).  The
invariant relates the values at the two ends of an edge.  The product  loss menu x option menu x shape menu x
image-pair menu x mask menu x edge menu  is enumerated completely; nothing is sampled.

The oracle is relational throughout (float64 numpy on the values the implementation returned); absolute values
are demanded only where the statement names them (0 / 1 on identical inputs, documented ranges, Dice == Tversky).
"""
from __future__ import annotations

import itertools

import numpy as np
import torch

from mc.core import Acc, exc_text, guarded, h64, tensor_bytes
from ref import lossdata as ld

PROPERTY = "C16"
RULE = (
    "complete product of (loss function/module x options x shape x deterministic image pair x mask form x edge), "
    "edge = input transformation whose two end evaluations must satisfy the axiom (identity, range, swap symmetry, "
    "intensity affine map, edit outside mask, masked mean, rectangular-mask == crop, mask broadcast form, norm, "
    "reduction, Dice/Tversky identities, module == functional, and - for every subset of the optional mask / weight "
    "arguments x mask dtype form (bool, uint8, float32 0/1, float32 soft, float64) - dtype independence, the documented "
    "implicit masks of wlcc_loss, edits outside the effective mask, reductions over the effective mask; and - for every "
    "tensor argument of every loss, function and module - the memory layout (transposed view, step-sliced view, stride-0 "
    "expanded view) does not change the value, raises nothing and leaves the arguments untouched); distinct = (sub-check, loss, options, shape, images, "
    "mask, edge); non-trivial = the edge changed the input bytes (or the option changes the value) and all compared "
    "values are finite"
)
EXPLANATION = "metamorphic relations between evaluations of every image loss over complete finite menus, float64 relational oracle"
ASSUMPTIONS = [
    "float32 CPU tensors; D in {2,3}; shapes, image kinds, masks, kernel sizes, bin counts and affine maps limited to the listed menus",
    "tolerance = 64 * 2^-23 * scale * condition; condition of correlation losses = 1 + max|x|/min local std (computed in float64 by ref/lossdata.py); cases with condition > 1e3 are not generated",
    "mutual information: single-channel inputs only (multi-channel MI is not defined by the docs), explicit vmin/vmax whenever a mask is involved (the automatic range is taken before masking, which the statement does not address); no value is demanded for MI of identical inputs (no documented minimum)",
    "masks edited 'outside' use finite values (a multiplicative mask cannot ignore NaN/inf)",
    "PatchwiseImageLoss is not covered",
]
MIN_NONTRIVIAL = {"quick": 14000, "thorough": 75000}
MIN_OUTCOMES = {"quick": 4500, "thorough": 25000}
MIN_SUB_TRACES = {
    "identity": 100, "range": 50, "symmetry": 100, "affine": 200, "mask-outside": 100, "mask-mean": 100,
    "mask-roi": 30, "mask-shape": 100, "norm": 100, "reduction": 100, "overlap": 50, "module": 100, "mask-args": 500, "layout": 300,
}

EPS32 = 2.0 ** -23
C = 64.0
SEED_SAMPLING = 20240

SUBS = ("identity", "range", "symmetry", "affine", "mask-outside", "mask-mean", "mask-roi", "mask-shape", "norm",
        "reduction", "overlap", "module", "mask-args", "layout")


# ---------------------------------------------------------------------------
# menus
def shapes(tier):
    s = [(1, 1, 8, 9), (2, 2, 8, 9), (2, 1, 6, 7, 8)]
    if tier == "thorough":
        s += [(1, 2, 9, 10), (3, 1, 7, 6), (1, 2, 7, 6, 8)]
    return s


def pairs(tier):
    p = [("smooth", "wave", 0), ("checker", "int", 0), ("int", "smooth", 1)]
    if tier == "thorough":
        p += [("wave", "checker", 1), ("smooth", "smooth", 2), ("int", "int", 3)]
    return p


def seg_pairs(tier):
    p = [("binary", "binary", 0), ("soft", "binary", 0)]
    if tier == "thorough":
        p += [("binary", "binary", 2), ("soft", "soft", 1)]
    return p


def kernels(tier, D, shape=None):
    """Odd window sizes; a window larger than the image is outside the domain (torch itself rejects it)."""
    k = [3, 5, 7]
    if tier == "thorough":
        k.append([3, 5] if D == 2 else [3, 5, 3])
    if shape is not None:
        lim = min(shape[2:])
        k = [q for q in k if (max(q) if isinstance(q, list) else q) <= lim]
    return k


def bins(tier):
    return [16, 32, 64]


AFF_A = (-2.0, 0.5, 3.0)
AFF_B = (-1.0, 0.0, 10.0)

POINTWISE = [
    ("mse_loss", {}), ("ssd_loss", {}), ("mae_loss", {}), ("l1_loss", {}),
    ("huber_loss", {}), ("huber_loss", {"delta": 0.25}),
    ("smooth_l1_loss", {}), ("smooth_l1_loss", {"beta": 0.25}),
]


def corr_losses(tier, D, with_ncc=True, shape=None):
    out = [("ncc_loss", {})] if with_ncc else []
    for k in kernels(tier, D, shape):
        out.append(("lcc_loss", {"kernel_size": k}))
    for k in kernels(tier, D, shape):
        out.append(("wlcc_loss", {"kernel_size": k}))
    return out


def label_of(fn, kw):
    name = fn[:-5] if (fn.endswith("_loss") and not fn.startswith(("dice", "tversky"))) else fn
    parts = []
    for k in sorted(kw):
        if k in ("vmin", "vmax"):
            continue
        v = kw[k]
        parts.append(f"{k}={v}".replace(" ", ""))
    return name + ("[" + ",".join(parts) + "]" if parts else "")


# ---------------------------------------------------------------------------
# data
def T(a, dtype=torch.float32):
    return torch.tensor(np.ascontiguousarray(a), dtype=dtype)


_CACHE = {}


def data(kind, shape, tab, variant):
    """float64 array holding exactly float32-representable values (cached per process; callers never mutate it)."""
    key = (kind, tuple(shape), tab, variant)
    v = _CACHE.get(key)
    if v is None:
        if kind == "binary":
            v = ld.binary(shape, tab, variant)
        elif kind == "soft":
            v = ld.soft(shape, tab, variant)
        else:
            v = ld.image(kind, shape, tab, variant)
        v = np.float32(v).astype(np.float64)
        v.setflags(write=False)
        if len(_CACHE) > 256:
            _CACHE.clear()
        _CACHE[key] = v
    return v


def xy(case):
    shape = tuple(case["shape"])
    kx, ky, var = case["imgs"]
    return data(kx, shape, case["tab"], var), data(ky, shape, case["tab"], var + 1)


def np_mask(kind, shape):
    key = ("mask", kind, tuple(shape))
    v = _CACHE.get(key)
    if v is None:
        v = ld.mask(kind, tuple(shape))
        v.setflags(write=False)
        _CACHE[key] = v
    return v


def t_mask(kind, shape):
    m = np_mask(kind, shape)
    return T(m, torch.bool) if kind == "bool" else T(m)


def f64(t):
    return t.detach().double().numpy()


def L():
    import deepali.losses.functional as F_

    return F_


def call(fn, x, y, kw):
    """One real evaluation.  x, y float64 numpy (exactly float32 representable) -> float32 tensors."""
    f = getattr(L(), fn)
    kw2 = {}
    for k, v in kw.items():
        if isinstance(v, list):
            v = tuple(v)
        kw2[k] = v
    if kw2.get("num_samples") is not None or kw2.get("sample_ratio") is not None:
        torch.manual_seed(SEED_SAMPLING)
    return guarded(f, T(x), T(y), **kw2)


def mask_kw(fn):
    return "weight" if fn.startswith(("dice", "tversky")) else "mask"


HAS_REDUCTION = lambda fn: not fn.startswith(("mi_", "nmi_"))  # noqa: E731


# ---------------------------------------------------------------------------
class Res:
    """Outcome of judging one case."""

    def __init__(self):
        self.problems = []  # (sig tail, detail)
        self.trans = 0
        self.out = []  # observation bytes
        self.nontriv = False
        self.undef = []
        self.states = []

    def bad(self, tail, detail):
        self.problems.append((tail, detail))


def ev(res, fn, x, y, kw, form, what=""):
    """Evaluate with bookkeeping; returns float64 ndarray or None (violation recorded for raises)."""
    res.trans += 1
    res.states.append(h64(fn, repr(sorted((k, repr(v) if not isinstance(v, torch.Tensor) else tensor_bytes(v)) for k, v in kw.items())), x, y))
    st, v = call(fn, x, y, kw)
    form = form + pred_tag(fn, kw, x)
    if st == "raises":
        res.bad(f"{form}/{raise_sig(v)}", f"{fn}({what}) " + exc_text(v))
        res.out.append(("raises", type(v).__name__))
        return None
    if not isinstance(v, torch.Tensor):
        res.bad(f"{form}/type", f"{fn} returned {type(v).__name__}")
        return None
    a = f64(v)
    res.out.append(tensor_bytes(v))
    if not np.all(np.isfinite(a)):
        res.bad(f"{form}/nonfinite", f"{fn}({what}) returned non-finite values")
        return None
    return a


def cmp(res, form, kind, got, want, tol, note=""):
    got, want = np.asarray(got, dtype=np.float64), np.asarray(want, dtype=np.float64)
    if got.shape != want.shape:
        res.bad(f"{form}/{kind}-shape", f"shape {got.shape} vs {want.shape} {note}")
        return False
    err = float(np.max(np.abs(got - want))) if got.size else 0.0
    if not err <= tol:
        res.bad(f"{form}/{kind}", f"max |diff| {err:.3e} > tol {tol:.2e} (got {np.ravel(got)[:3]}, expected {np.ravel(want)[:3]}) {note}")
        return False
    return True


def scale_of(*arrs):
    return max([1e-30] + [float(np.max(np.abs(a))) for a in arrs if a is not None and np.size(a)])


_COND = {}


def corr_cond(fn, kw, x, y, w=None):
    """Condition of a correlation loss = 1 + max|x|/std_min(x) + max|y|/std_min(y) (float64 reference statistics)."""
    key = h64(fn, repr(kw.get("kernel_size", 7)), x, y, w if w is not None else "none")
    if key not in _COND:
        if len(_COND) > 4096:
            _COND.clear()
        _COND[key] = _corr_cond(fn, kw, x, y, w)
    return _COND[key]


def _corr_cond(fn, kw, x, y, w=None):
    if fn == "ncc_loss":
        cx, cy = ld.global_cond(x, w), ld.global_cond(y, w)
    else:
        k = kw.get("kernel_size", 7)
        cx, cy = ld.local_cond(x, k, w), ld.local_cond(y, k, w)
    return 1.0 + cx + cy


def raise_sig(e) -> str:
    """raises=<Type>@<deepali function in which it was raised> (stable call-site name, no values)."""
    import traceback

    where = ""
    for fr in reversed(traceback.extract_tb(e.__traceback__)):
        if "/deepali/" in fr.filename:
            where = "@" + fr.name
            break
    return f"raises={type(e).__name__}{where}"


def pred_tag(fn, kw, x):
    """Tversky accepts weights of shape (N, ..., X) / (N, 1|C, ..., X): name the prediction's channel form in the signature."""
    if fn.startswith("tversky") and kw.get("weight") is not None:
        return "/pred=1ch" if x.shape[1] == 1 else "/pred=Cch"
    return ""


def is_corr(fn):
    return fn in ("ncc_loss", "lcc_loss", "wlcc_loss")


def with_mask(kw, fn, mkind, shape):
    kw = dict(kw)
    if mkind is not None:
        kw[mask_kw(fn)] = t_mask(mkind, shape)
    return kw


def mform(mkind):
    return f"mask={mkind}" if mkind else "nomask"


def mi_range(kw, x, y):
    """Explicit intensity range for MI so that masking cannot change the bins."""
    kw = dict(kw)
    lo = float(np.float32(min(x.min(), y.min())))
    hi = float(np.float32(max(x.max(), y.max())))
    kw.setdefault("vmin", lo)
    kw.setdefault("vmax", hi)
    return kw


# ---------------------------------------------------------------------------
# sub-check: identity  (loss(x, x) is zero / documented minimum; Dice score 1)
def cases_identity(tier, shape, pair, tab):
    D = len(shape) - 2
    out = []
    kinds = [pair[0], pair[1]]
    for kind in kinds:
        fns = list(POINTWISE) + corr_losses(tier, D, shape=shape)
        for fn, kw in fns:
            for red in ("none", "mean", "sum"):
                for mk in (None, "half", "multi-ch" if shape[1] > 1 else "bands"):
                    out.append({"sub": "identity", "fn": fn, "kw": kw, "shape": list(shape), "imgs": [kind, kind, pair[2]], "tab": tab, "mask": mk, "red": red})
    for fn in ("dice_loss", "dice_score", "tversky_index", "tversky_loss"):
        for red in ("none", "mean", "sum"):
            for mk in (None, "half"):
                out.append({"sub": "identity", "fn": fn, "kw": {}, "shape": list(shape), "imgs": ["binary", "binary", pair[2]], "tab": tab, "mask": mk, "red": red})
    return out


def judge_identity(case, res):
    fn, kw0, shape = case["fn"], case["kw"], case["shape"]
    x, _ = xy(case)
    mk = case["mask"]
    form = f"{label_of(fn, kw0)}/{mform(mk)}"
    kw = with_mask(kw0, fn, mk, shape)
    kw["reduction"] = case["red"]
    w = np_mask(mk, shape) if mk else None
    v = ev(res, fn, x, x.copy(), kw, form, "identical inputs")
    if v is None:
        return
    res.nontriv = True
    n_terms = v.size if case["red"] == "none" else 1
    if is_corr(fn):
        cond = corr_cond(fn, kw0, x, x, w if fn != "lcc_loss" else None)
        if not cond < 1e3:
            res.undef.append("ill-conditioned")
            return
        tol = C * EPS32 * cond
    else:
        tol = C * EPS32
    want = 1.0 if fn in ("dice_score", "tversky_index") else 0.0
    if case["red"] == "sum" and want == 0.0:
        tol *= float(np.prod(shape))
    if case["red"] == "sum" and want == 1.0:
        # sum over the (N, C) scores
        want = float(shape[0] * shape[1])
        tol *= want
    cmp(res, form, "identical-inputs", v, np.full(v.shape, want), tol, f"reduction={case['red']}")


# ---------------------------------------------------------------------------
# sub-check: range
def cases_range(tier, shape, pair, tab):
    D = len(shape) - 2
    out = []
    for fn, kw in corr_losses(tier, D, shape=shape):
        for mk in (None, "half"):
            for red in ("none", "mean"):
                out.append({"sub": "range", "fn": fn, "kw": kw, "shape": list(shape), "imgs": list(pair), "tab": tab, "mask": mk, "red": red})
    if shape[1] == 1:
        for b in bins(tier):
            for same in (False, True):
                for mk in (None, "half"):
                    out.append({"sub": "range", "fn": "nmi_loss", "kw": {"num_bins": b}, "shape": list(shape), "imgs": [pair[0], pair[0] if same else pair[1], pair[2]], "tab": tab, "mask": mk, "red": None, "same": same})
    for sp in seg_pairs(tier):
        for fn in ("dice_score", "dice_loss", "tversky_index", "tversky_loss"):
            for mk in (None, "half"):
                for red in ("none", "mean"):
                    out.append({"sub": "range", "fn": fn, "kw": {}, "shape": list(shape), "imgs": list(sp), "tab": tab, "mask": mk, "red": red})
        out.append({"sub": "range", "fn": "tversky_index", "kw": {"alpha": 0.3, "beta": 0.7}, "shape": list(shape), "imgs": list(sp), "tab": tab, "mask": None, "red": "none"})
    return out


def judge_range(case, res):
    fn, kw0, shape = case["fn"], case["kw"], case["shape"]
    x, y = xy(case)
    if case.get("same"):
        y = x.copy()
    mk = case["mask"]
    form = f"{label_of(fn, kw0)}/{mform(mk)}"
    kw = dict(kw0)
    if fn == "nmi_loss":
        kw = mi_range(kw, x, y)
    kw = with_mask(kw, fn, mk, shape)
    if case["red"]:
        kw["reduction"] = case["red"]
    v = ev(res, fn, x, y, kw, form)
    if v is None:
        return
    res.nontriv = True
    lo, hi = 0.0, 1.0
    if fn == "nmi_loss":
        hi = 2.0
        # the implementation regularises log(p + 1e-5): entropies are biased by at most B^2 * 1e-5
        tol = 2.0 * kw0["num_bins"] ** 2 * 1e-5
    elif is_corr(fn):
        w = np_mask(mk, shape) if (mk and fn != "lcc_loss") else None
        cond = corr_cond(fn, kw0, x, y, w)
        if not cond < 1e3:
            res.undef.append("ill-conditioned")
            return
        tol = C * EPS32 * cond
    else:
        tol = C * EPS32
    if v.min() < lo - tol or v.max() > hi + tol:
        res.bad(f"{form}/out-of-range", f"values in [{v.min():.6g}, {v.max():.6g}] outside documented [{lo}, {hi}] (tol {tol:.1e})")


# ---------------------------------------------------------------------------
# sub-check: symmetry
def cases_symmetry(tier, shape, pair, tab):
    D = len(shape) - 2
    out = []
    for fn, kw in list(POINTWISE) + corr_losses(tier, D, shape=shape):
        for mk in (None, "half", "multi-ch" if shape[1] > 1 else "soft"):
            for red in ("none", "mean"):
                out.append({"sub": "symmetry", "fn": fn, "kw": kw, "shape": list(shape), "imgs": list(pair), "tab": tab, "mask": mk, "red": red})
    for k in kernels(tier, D, shape):
        out.append({"sub": "symmetry", "fn": "wlcc_loss", "kw": {"kernel_size": k}, "shape": list(shape), "imgs": list(pair), "tab": tab, "mask": None, "red": "none", "sm": "half", "tm": "bands"})
        out.append({"sub": "symmetry", "fn": "wlcc_loss", "kw": {"kernel_size": k}, "shape": list(shape), "imgs": list(pair), "tab": tab, "mask": "soft", "red": "mean", "sm": "half", "tm": "ones"})
    if shape[1] == 1:
        for fn in ("mi_loss", "nmi_loss"):
            for b in bins(tier):
                for mk in (None, "half"):
                    out.append({"sub": "symmetry", "fn": fn, "kw": {"num_bins": b}, "shape": list(shape), "imgs": list(pair), "tab": tab, "mask": mk, "red": None})
    for sp in seg_pairs(tier):
        for fn, kw in (("dice_score", {}), ("dice_loss", {}), ("tversky_index", {}), ("tversky_index", {"alpha": 0.5, "beta": 0.5}), ("tversky_loss", {})):
            for mk in (None, "half"):
                for red in ("none", "mean"):
                    out.append({"sub": "symmetry", "fn": fn, "kw": kw, "shape": list(shape), "imgs": list(sp), "tab": tab, "mask": mk, "red": red})
    return out


def judge_symmetry(case, res):
    fn, kw0, shape = case["fn"], case["kw"], case["shape"]
    x, y = xy(case)
    mk = case["mask"]
    form = f"{label_of(fn, kw0)}/{mform(mk)}"
    kw = dict(kw0)
    if fn in ("mi_loss", "nmi_loss") and mk:
        kw = mi_range(kw, x, y)
    kw = with_mask(kw, fn, mk, shape)
    if case["red"]:
        kw["reduction"] = case["red"]
    kw_swapped = dict(kw)
    if "sm" in case:
        form += "/source_mask+target_mask"
        kw["source_mask"], kw["target_mask"] = t_mask(case["sm"], shape), t_mask(case["tm"], shape)
        kw_swapped = dict(kw)
        kw_swapped["source_mask"], kw_swapped["target_mask"] = kw["target_mask"], kw["source_mask"]
    a = ev(res, fn, x, y, kw, form)
    b = ev(res, fn, y, x, kw_swapped, form, "swapped")
    if a is None or b is None:
        return
    res.nontriv = not np.array_equal(x, y)
    if is_corr(fn):
        w = np_mask(mk, shape) if (mk and fn != "lcc_loss") else None
        if "sm" in case:
            w = None
        cond = corr_cond(fn, kw0, x, y, w)
        if not cond < 1e3:
            res.undef.append("ill-conditioned")
            return
        tol = C * EPS32 * cond
    elif fn in ("mi_loss", "nmi_loss"):
        tol = C * EPS32 * scale_of(a) * 16  # bmm(A, B^T) vs bmm(B, A^T): different accumulation order over the samples
    else:
        tol = C * EPS32 * scale_of(a, b)
    cmp(res, form, "asymmetric", b, a, tol, "loss(y, x) vs loss(x, y)")


# ---------------------------------------------------------------------------
# sub-check: affine intensity invariance of NCC / LCC / WLCC
def cases_affine(tier, shape, pair, tab):
    D = len(shape) - 2
    out = []
    aa = AFF_A + ((-0.5, 7.0) if tier == "thorough" else ())
    bb = AFF_B + ((3.0,) if tier == "thorough" else ())
    for fn, kw in corr_losses(tier, D, shape=shape):
        masks = (None,) if fn == "ncc_loss" else (None, "half")
        for mk in masks:
            for a in aa:
                for b in bb:
                    for which in ("source", "target", "both"):
                        for red in ("none", "mean"):
                            out.append({"sub": "affine", "fn": fn, "kw": kw, "shape": list(shape), "imgs": list(pair), "tab": tab, "mask": mk, "red": red, "a": a, "b": b, "which": which})
    return out


def judge_affine(case, res):
    fn, kw0, shape = case["fn"], case["kw"], case["shape"]
    x, y = xy(case)
    a, b, which = case["a"], case["b"], case["which"]
    mk = case["mask"]
    form = f"{label_of(fn, kw0)}/{mform(mk)}/map={which}"
    kw = with_mask(kw0, fn, mk, shape)
    kw["reduction"] = case["red"]
    f32 = lambda z: np.float32(z).astype(np.float64)  # noqa: E731
    x2 = f32(a * x + b) if which in ("source", "both") else x
    y2 = f32((a * y + b) if which == "target" else (-a * y + 2 * b)) if which in ("target", "both") else y
    w = np_mask(mk, shape) if (mk and fn != "lcc_loss") else None
    cond = max(corr_cond(fn, kw0, x, y, w), corr_cond(fn, kw0, x2, y2, w))
    if not cond < 1e3:
        res.undef.append("ill-conditioned")
        return
    v0 = ev(res, fn, x, y, kw, form)
    v1 = ev(res, fn, x2, y2, kw, form, f"a={a}, b={b}")
    if v0 is None or v1 is None:
        return
    res.nontriv = True
    cmp(res, form, "not-invariant", v1, v0, C * EPS32 * cond, f"a={a} b={b} reduction={case['red']}")


# ---------------------------------------------------------------------------
# sub-check: values edited outside the mask do not matter
def outside_losses(tier, shape):
    D = len(shape) - 2
    fns = list(POINTWISE) + [("ncc_loss", {})] + [("wlcc_loss", {"kernel_size": k}) for k in kernels(tier, D, shape)]
    fns += [("dice_score", {}), ("dice_loss", {}), ("tversky_index", {}), ("tversky_index", {"alpha": 0.3, "beta": 0.7}), ("tversky_loss", {})]
    if shape[1] == 1:
        fns += [("mi_loss", {"num_bins": 32}), ("nmi_loss", {"num_bins": 16})]
    return fns


def mask_menu(fn, shape):
    """Documented mask forms per loss (kind names of ref/lossdata.py)."""
    allk = [k for k in ld.mask_kinds_for(tuple(shape)) if k != "ones"]
    if fn in ("mi_loss", "nmi_loss"):
        return [k for k in allk if k in ("half", "per-item", "b1", "bool", "bands")]  # (1|N, 1, ..., X)
    if fn.startswith("tversky"):
        return [k for k in allk if k in ("half", "per-item", "multi-ch", "bool", "bands", "soft")]  # (N, 1|C, ..., X)
    if fn == "ncc_loss":
        return [k for k in allk if k in ("half", "multi-ch", "per-item")]
    return allk


def cases_mask_outside(tier, shape, pair, tab):
    out = []
    for fn, kw in outside_losses(tier, shape):
        seg = fn.startswith(("dice", "tversky"))
        imgs = list(seg_pairs(tier)[0]) if seg else list(pair)
        for mk in mask_menu(fn, shape):
            for edit in ("source", "target", "both"):
                reds = ("none", "mean", "sum") if HAS_REDUCTION(fn) else (None,)
                for red in reds:
                    out.append({"sub": "mask-outside", "fn": fn, "kw": kw, "shape": list(shape), "imgs": imgs, "tab": tab, "mask": mk, "red": red, "edit": edit})
    return out


def edit_outside(z, w, seg, which):
    wz = np.broadcast_to(w, z.shape)
    if seg:
        e = 1.0 - z
    else:
        e = -3.0 * z + (50.0 if which == 0 else -20.0)
    return np.float32(np.where(wz > 0, z, e)).astype(np.float64)


def judge_mask_outside(case, res):
    fn, kw0, shape = case["fn"], case["kw"], case["shape"]
    x, y = xy(case)
    mk = case["mask"]
    form = f"{label_of(fn, kw0)}/{mform(mk)}"
    kw = dict(kw0)
    if fn in ("mi_loss", "nmi_loss"):
        kw = mi_range(kw, x, y)
    kw = with_mask(kw, fn, mk, shape)
    if case["red"]:
        kw["reduction"] = case["red"]
    w = np_mask(mk, shape)
    seg = fn.startswith(("dice", "tversky"))
    x2 = edit_outside(x, w, seg, 0) if case["edit"] in ("source", "both") else x
    y2 = edit_outside(y, w, seg, 1) if case["edit"] in ("target", "both") else y
    v0 = ev(res, fn, x, y, kw, form)
    v1 = ev(res, fn, x2, y2, kw, form, f"edited outside mask ({case['edit']})")
    if v0 is None or v1 is None:
        return
    res.nontriv = not (np.array_equal(x, x2) and np.array_equal(y, y2))
    if is_corr(fn):
        cond = corr_cond(fn, kw0, x, y, w)
        if not cond < 1e3:
            res.undef.append("ill-conditioned")
            return
        # the edited values (|.| <= 3 max|x| + 50) enter only multiplied by a zero weight
        tol = C * EPS32 * cond
    else:
        tol = C * EPS32 * scale_of(v0)
    cmp(res, form, "depends-on-masked-out-samples", v1, v0, tol, f"edit={case['edit']} reduction={case['red']}")


# ---------------------------------------------------------------------------
# sub-check: masked result == mask-weighted average of the unmasked local scores
def cases_mask_mean(tier, shape, pair, tab):
    D = len(shape) - 2
    out = []
    fns = list(POINTWISE) + [("lcc_loss", {"kernel_size": k}) for k in kernels(tier, D, shape)]
    for fn, kw in fns:
        for mk in mask_menu(fn, shape):
            for red in ("none", "mean", "sum"):
                out.append({"sub": "mask-mean", "fn": fn, "kw": kw, "shape": list(shape), "imgs": list(pair), "tab": tab, "mask": mk, "red": red})
    for k in kernels(tier, D, shape):
        for mk in mask_menu("wlcc_loss", shape):
            out.append({"sub": "mask-mean", "fn": "wlcc_loss", "kw": {"kernel_size": k}, "shape": list(shape), "imgs": list(pair), "tab": tab, "mask": mk, "red": "none"})
    return out


def judge_mask_mean(case, res):
    fn, kw0, shape = case["fn"], case["kw"], case["shape"]
    x, y = xy(case)
    mk = case["mask"]
    form = f"{label_of(fn, kw0)}/{mform(mk)}"
    w = np.broadcast_to(np_mask(mk, shape), tuple(shape)).astype(np.float64)
    kwm = with_mask(kw0, fn, mk, shape)
    kwm["reduction"] = case["red"]
    got = ev(res, fn, x, y, kwm, form, f"reduction={case['red']}")
    if got is None:
        return
    if fn == "wlcc_loss":
        res.nontriv = bool((w == 0).any())
        if got.shape != tuple(shape):
            res.bad(f"{form}/none-shape", f"'none' output shape {got.shape}, expected {tuple(shape)}")
            return
        off = np.abs(got[w == 0]).max() if (w == 0).any() else 0.0
        if off > 0:
            res.bad(f"{form}/local-score-not-weighted", f"'none' output is {off:.3g} where the mask is zero")
        return
    kwu = dict(kw0)
    kwu["reduction"] = "none"
    loc = ev(res, fn, x, y, kwu, form, "unmasked reduction=none")
    if loc is None:
        return
    if loc.shape != tuple(shape):
        res.bad(f"{form}/none-shape", f"'none' output shape {loc.shape}, expected {tuple(shape)}")
        return
    res.nontriv = bool((w == 0).any())
    lw = loc * w
    if case["red"] == "none":
        want, tol = lw, C * EPS32 * scale_of(loc)
    elif case["red"] == "sum":
        want, tol = lw.sum(), C * EPS32 * np.abs(lw).sum()
    else:
        want, tol = lw.sum() / w.sum(), C * EPS32 * np.abs(lw).sum() / w.sum()
    cmp(res, form, f"masked-{case['red']}", got, want, tol, "expected sum(local*mask)[/sum(mask)] from the unmasked local scores")


# ---------------------------------------------------------------------------
# sub-check: rectangular mask == evaluating the cropped images
def cases_mask_roi(tier, shape, pair, tab):
    out = []
    fns = list(POINTWISE) + [("ncc_loss", {}), ("dice_score", {}), ("dice_loss", {}), ("tversky_index", {})]
    if shape[1] == 1:
        fns += [("mi_loss", {"num_bins": b}) for b in bins(tier)] + [("nmi_loss", {"num_bins": 32})]
    for fn, kw in fns:
        seg = fn.startswith(("dice", "tversky"))
        imgs = list(seg_pairs(tier)[0]) if seg else list(pair)
        for mk in ("half", "bool", "b1"):
            if fn in ("ncc_loss",) and mk != "half":
                continue
            if fn.startswith("tversky") and mk == "b1":
                continue
            reds = ("mean", "sum") if HAS_REDUCTION(fn) else (None,)
            if seg or fn == "ncc_loss":
                reds = ("none", "mean")
            for red in reds:
                out.append({"sub": "mask-roi", "fn": fn, "kw": kw, "shape": list(shape), "imgs": imgs, "tab": tab, "mask": mk, "red": red})
    return out


def crop_to(z, w):
    """Crop z to the bounding box of the (rectangular, item-independent) mask w."""
    wz = np.broadcast_to(w, z.shape)[0, 0]
    sl = [slice(None), slice(None)]
    for d in range(wz.ndim):
        other = tuple(i for i in range(wz.ndim) if i != d)
        on = np.where(wz.any(axis=other))[0]
        sl.append(slice(int(on[0]), int(on[-1]) + 1))
    sub = z[tuple(sl)]
    assert np.all(wz[tuple(sl[2:])] > 0) and wz.sum() == np.prod(sub.shape[2:])
    return np.ascontiguousarray(sub)


def judge_mask_roi(case, res):
    fn, kw0, shape = case["fn"], case["kw"], case["shape"]
    x, y = xy(case)
    mk = case["mask"]
    form = f"{label_of(fn, kw0)}/{mform(mk)}"
    w = np_mask(mk, shape)
    kw = dict(kw0)
    if fn in ("mi_loss", "nmi_loss"):
        kw = mi_range(kw, crop_to(x, w), crop_to(y, w))
    kwc = dict(kw)
    kwm = with_mask(kw, fn, mk, shape)
    if case["red"]:
        kwm["reduction"] = kwc["reduction"] = case["red"]
    got = ev(res, fn, x, y, kwm, form, "masked")
    ref = ev(res, fn, crop_to(x, w), crop_to(y, w), kwc, form, "cropped to the mask")
    if got is None or ref is None:
        return
    res.nontriv = True
    if fn == "ncc_loss":
        cond = corr_cond(fn, kw0, x, y, w)
        tol = C * EPS32 * cond
    elif fn in ("mi_loss", "nmi_loss"):
        tol = C * EPS32 * scale_of(ref) * 16
    else:
        tol = C * EPS32 * scale_of(ref) * 4
    cmp(res, form, "not-restricted-to-mask", got, ref, tol, "masked evaluation vs evaluation of the images cropped to the rectangular mask")


# ---------------------------------------------------------------------------
# sub-check: every documented mask shape is accepted and means the expanded mask
def cases_mask_shape(tier, shape, pair, tab):
    D = len(shape) - 2
    out = []
    fns = list(POINTWISE) + corr_losses(tier, D, shape=shape) + [("dice_score", {}), ("dice_loss", {}), ("tversky_index", {}), ("tversky_loss", {})]
    if shape[1] == 1:
        fns += [("mi_loss", {"num_bins": 16}), ("nmi_loss", {"num_bins": 16})]
    for fn, kw in fns:
        seg = fn.startswith(("dice", "tversky"))
        imgs = list(seg_pairs(tier)[0]) if seg else list(pair)
        kinds = ["ones"] + mask_menu(fn, shape)
        for mk in kinds:
            reds = ("none", "mean", "sum") if HAS_REDUCTION(fn) else (None,)
            for red in reds:
                out.append({"sub": "mask-shape", "fn": fn, "kw": kw, "shape": list(shape), "imgs": imgs, "tab": tab, "mask": mk, "red": red})
        if fn.startswith("tversky"):
            # weight of shape (N, ..., X) without channel dimension
            for mk in ("half", "per-item") if shape[0] > 1 else ("half",):
                out.append({"sub": "mask-shape", "fn": fn, "kw": kw, "shape": list(shape), "imgs": imgs, "tab": tab, "mask": mk, "red": "none", "squeeze": True})
    return out


def judge_mask_shape(case, res):
    fn, kw0, shape = case["fn"], case["kw"], case["shape"]
    x, y = xy(case)
    mk = case["mask"]
    w = np_mask(mk, shape)
    sq = bool(case.get("squeeze"))
    wform = "x".join(("N" if (i == 0 and s == shape[0] and shape[0] > 1) else "C" if (i == 1 and s == shape[1] and shape[1] > 1) else "1") for i, s in enumerate(w.shape[:2]))
    if sq:
        wform = "N-nochannel" if shape[0] > 1 else "1-nochannel"
    form = f"{label_of(fn, kw0)}/{mform(mk)}/shape={wform}/channels={'1' if shape[1] == 1 else 'C'}"
    kw = dict(kw0)
    if fn in ("mi_loss", "nmi_loss"):
        kw = mi_range(kw, x, y)
    if case["red"]:
        kw["reduction"] = case["red"]
    kwa = dict(kw)
    tm = t_mask(mk, shape)
    kwa[mask_kw(fn)] = tm[:, 0] if sq else tm
    got = ev(res, fn, x, y, kwa, form, f"mask shape {tuple(kwa[mask_kw(fn)].shape)}")
    if got is None:
        return
    if fn == "ncc_loss":
        res.nontriv = True
        return
    # reference evaluation: the same mask written out in the full documented shape
    full = (shape[0], 1) + tuple(shape[2:]) if fn in ("mi_loss", "nmi_loss") else tuple(shape)
    wf = np.broadcast_to(w, full).astype(np.float64)
    if mk == "ones":
        kwb = dict(kw)  # all-ones mask == no mask
        note = "all-ones mask vs no mask"
    else:
        kwb = dict(kw)
        kwb[mask_kw(fn)] = T(wf)
        note = f"mask of shape {tuple(w.shape)}{' squeezed' if sq else ''} vs the same mask expanded to {full}"
    if tuple(wf.shape) == tuple(kwa[mask_kw(fn)].shape) and mk not in ("ones", "bool"):
        res.nontriv = True  # accepted; nothing to compare with
        return
    ref = ev(res, fn, x, y, kwb, form, "expanded float mask")
    if ref is None:
        return
    res.nontriv = True
    if is_corr(fn):
        cond = corr_cond(fn, kw0, x, y, w if fn == "wlcc_loss" else None)
        if not cond < 1e3:
            res.undef.append("ill-conditioned")
            return
        tol = C * EPS32 * cond * (1 if case["red"] != "sum" else float(np.prod(shape)))
    else:
        tol = C * EPS32 * scale_of(ref) * 4
    cmp(res, form, "broadcast-mask-differs", got, ref, tol, note)


# ---------------------------------------------------------------------------
# sub-check: norm
def cases_norm(tier, shape, pair, tab):
    out = []
    for fn, kw in POINTWISE:
        for nf in ("float", "int", "tensor0", "tensor1"):
            for mk in (None, "half"):
                for red in ("none", "mean", "sum"):
                    out.append({"sub": "norm", "fn": fn, "kw": kw, "shape": list(shape), "imgs": list(pair), "tab": tab, "mask": mk, "red": red, "norm": nf})
    return out


NORMS = {"float": 0.5, "int": 4, "tensor0": 2.5, "tensor1": 1.75}


def norm_arg(nf):
    v = NORMS[nf]
    if nf == "tensor0":
        return torch.tensor(v)
    if nf == "tensor1":
        return torch.tensor([v])
    return v


def judge_norm(case, res):
    fn, kw0, shape = case["fn"], case["kw"], case["shape"]
    x, y = xy(case)
    mk = case["mask"]
    form = f"{label_of(fn, kw0)}/{mform(mk)}/norm={case['norm']}"
    kw = with_mask(kw0, fn, mk, shape)
    kw["reduction"] = case["red"]
    base = ev(res, fn, x, y, kw, form)
    kwn = dict(kw)
    kwn["norm"] = norm_arg(case["norm"])
    got = ev(res, fn, x, y, kwn, form, f"norm={NORMS[case['norm']]}")
    if base is None or got is None:
        return
    res.nontriv = True
    want = base / float(NORMS[case["norm"]])
    cmp(res, form, "not-divided-by-norm", got, want, C * EPS32 * scale_of(want), f"reduction={case['red']}")


# ---------------------------------------------------------------------------
# sub-check: reductions
def cases_reduction(tier, shape, pair, tab):
    D = len(shape) - 2
    out = []
    fns = list(POINTWISE) + corr_losses(tier, D, shape=shape)
    for fn, kw in fns:
        for mk in [None] + mask_menu(fn, shape):
            out.append({"sub": "reduction", "fn": fn, "kw": kw, "shape": list(shape), "imgs": list(pair), "tab": tab, "mask": mk})
    for sp in seg_pairs(tier):
        for fn, kw in (("dice_score", {}), ("dice_loss", {}), ("tversky_index", {}), ("tversky_index", {"alpha": 0.3, "beta": 0.7}), ("tversky_loss", {})):
            for mk in (None, "half", "multi-ch" if shape[1] > 1 else "bands"):
                out.append({"sub": "reduction", "fn": fn, "kw": kw, "shape": list(shape), "imgs": list(sp), "tab": tab, "mask": mk})
    return out


def judge_reduction(case, res):
    fn, kw0, shape = case["fn"], case["kw"], case["shape"]
    x, y = xy(case)
    mk = case["mask"]
    form = f"{label_of(fn, kw0)}/{mform(mk)}"
    kw = with_mask(kw0, fn, mk, shape)
    vals = {}
    for red in ("none", "mean", "sum"):
        k2 = dict(kw)
        k2["reduction"] = red
        vals[red] = ev(res, fn, x, y, k2, form, f"reduction={red}")
    # default reduction is the documented one
    dflt = ev(res, fn, x, y, kw, form, "default reduction")
    if any(v is None for v in vals.values()) or dflt is None:
        return
    res.nontriv = True
    none = vals["none"]
    if fn == "ncc_loss":
        want_shape = (shape[0],)
    elif fn.startswith(("dice", "tversky")):
        want_shape = (shape[0], shape[1])
    else:
        want_shape = tuple(shape)
    if none.shape != want_shape:
        res.bad(f"{form}/none-shape", f"'none' output shape {none.shape}, documented {want_shape}")
        return
    for red in ("mean", "sum"):
        if vals[red].shape != ():
            res.bad(f"{form}/{red}-not-scalar", f"shape {vals[red].shape}")
            return
    s = none.sum()
    sa = np.abs(none).sum()
    cmp(res, form, "sum-differs", vals["sum"], s, C * EPS32 * max(sa, 1e-30), "'sum' vs sum of 'none'")
    pointwise_like = not fn.startswith(("dice", "tversky")) and fn != "ncc_loss"
    if mk is not None and pointwise_like:
        w = np.broadcast_to(np_mask(mk, shape), none.shape).astype(np.float64)
        den = w.sum()
        note = "'mean' vs sum of 'none' / sum of mask"
    else:
        den = float(none.size)
        note = "'mean' vs mean of 'none'"
    if fn == "ncc_loss" and mk is not None:
        res.undef.append("ncc masked mean: denominator not specified")
    else:
        cmp(res, form, "mean-differs", vals["mean"], s / den, C * EPS32 * max(sa, 1e-30) / den, note)
    want_default = "sum" if fn == "ssd_loss" else "mean"
    cmp(res, form, "default-reduction", dflt, vals[want_default], C * EPS32 * scale_of(vals[want_default]), f"default reduction should be '{want_default}'")


# ---------------------------------------------------------------------------
# sub-check: overlap measures
def cases_overlap(tier, shape, pair, tab):
    out = []
    N, Cc = shape[0], shape[1]
    variants = (0, 1) if tier == "quick" else (0, 1, 2, 3)
    for var in variants:
        base = {"sub": "overlap", "shape": list(shape), "tab": tab, "var": var}
        for red in ("none", "mean", "sum"):
            for mk in (None, "half"):
                # Tversky(1/2, 1/2) == Dice on binary inputs, same-shape targets
                for ab in ("default", "a=.5,b=.5", "a=.5", "b=.5"):
                    for bz in (False, True):
                        out.append(dict(base, kind="tversky==dice", form="same-shape", ab=ab, binarize=bz, red=red, mask=mk))
        for ab in ("default", "a=.5,b=.5"):
            for mk in (None, "half"):
                out.append(dict(base, kind="tversky==dice", form="target=labels/binary", ab=ab, binarize=False, red="none", mask=mk))
                out.append(dict(base, kind="tversky==dice", form="input=2ch/target=1ch", ab=ab, binarize=False, red="none", mask=mk))
                out.append(dict(base, kind="tversky==dice", form="input=1ch/target=2ch-onehot", ab=ab, binarize=False, red="none", mask=mk))
                out.append(dict(base, kind="tversky==dice", form="input=3ch-onehot/target=3ch-onehot", ab=ab, binarize=False, red="none", mask=mk))
                out.append(dict(base, kind="tversky==dice", form="input=3ch-onehot/target=labels", ab=ab, binarize=False, red="none", mask=mk))
                out.append(dict(base, kind="tversky==dice", form="logits", ab=ab, binarize=True, red="none", mask=mk))
        for which in ("alpha", "beta"):
            for mk in (None, "half"):
                out.append(dict(base, kind="alpha-beta", which=which, red="none", mask=mk))
        # channels that are EMPTY in both inputs (class absent, foreground outside the weight mask, all background):
        # judged per (item, channel) with reduction='none'
        for form in ("class-absent-in-one-item", "class-absent-in-all-items", "foreground-outside-weight", "all-background", "one-channel-all-background"):
            for fn in ("dice_score", "dice_loss", "tversky_index", "tversky_loss"):
                for same in (True, False):
                    out.append(dict(base, kind="empty-channel", form=form, fn=fn, same=same, red="none", mask=None))
        for red in ("none", "mean"):
            for g in (None, 1, 2):
                out.append(dict(base, kind="tversky_loss", gamma=g, red=red, mask=None, logits=False))
                out.append(dict(base, kind="tversky_loss", gamma=g, red=red, mask=None, logits=True))
            out.append(dict(base, kind="with_logits", red=red, mask=None))
            out.append(dict(base, kind="dice_loss==1-score", red=red, mask=None))
            out.append(dict(base, kind="dice_loss==1-score", red=red, mask="half"))
    return out


def _ab(ab):
    return {"default": {}, "a=.5,b=.5": {"alpha": 0.5, "beta": 0.5}, "a=.5": {"alpha": 0.5}, "b=.5": {"beta": 0.5}}[ab]


def judge_overlap(case, res):
    shape = tuple(case["shape"])
    N, Cc = shape[0], shape[1]
    sp = shape[2:]
    tab, var = case["tab"], case["var"]
    kind = case["kind"]
    s = np.float32(ld.binary(shape, tab, var)).astype(np.float64)
    t = np.float32(ld.binary(shape, tab, var + 1)).astype(np.float64)
    mk = case.get("mask")
    F_ = L()

    def run(f, *a, **k):
        res.trans += 1
        st, v = guarded(f, *a, **k)
        return st, v

    def val(st, v, form, what):
        if st == "raises":
            res.bad(f"{form}/{raise_sig(v)}", f"{what}: " + exc_text(v))
            res.out.append(("raises", type(v).__name__))
            return None
        a = f64(v)
        res.out.append(tensor_bytes(v))
        if not np.all(np.isfinite(a)):
            res.bad(f"{form}/nonfinite", what)
            return None
        return a

    if kind == "tversky==dice":
        fm = case["form"]
        form = f"tversky_index/{fm}/{mform(mk)}"
        if mk:
            form += "/pred=Cch" if (fm in ("same-shape",) and Cc > 1) or fm.startswith("input=3ch") else "/pred=1ch"
        kw = dict(_ab(case["ab"]))
        kw["binarize"] = case["binarize"]
        kw["reduction"] = case["red"]
        wd = wt = None
        if fm == "same-shape":
            xin, tgt, dx, dy = s, t, s, t
            tt = T(tgt)
        elif fm == "target=labels/binary":
            shp1 = (N, 1) + sp
            xin = np.float32(ld.binary(shp1, tab, var)).astype(np.float64)
            dy = np.float32(ld.binary(shp1, tab, var + 1)).astype(np.float64)
            dx = xin
            tt = T(dy[:, 0])
        elif fm == "input=2ch/target=1ch":
            shp1 = (N, 1) + sp
            p = np.float32(ld.binary(shp1, tab, var)).astype(np.float64)
            dy = np.float32(ld.binary(shp1, tab, var + 1)).astype(np.float64)
            xin = np.concatenate([1 - p, p], axis=1)
            dx = p
            tt = T(dy)
        elif fm == "input=1ch/target=2ch-onehot":
            shp1 = (N, 1) + sp
            p = np.float32(ld.binary(shp1, tab, var)).astype(np.float64)
            q = np.float32(ld.binary(shp1, tab, var + 1)).astype(np.float64)
            xin, dx, dy = p, p, q
            tt = T(np.concatenate([1 - q, q], axis=1))
        elif fm in ("input=3ch-onehot/target=3ch-onehot", "input=3ch-onehot/target=labels"):
            la = ld.labels(N, sp, 3, tab, var)
            lb = ld.labels(N, sp, 3, tab, var + 1)
            xin = dx = ld.one_hot(la, 3)
            dy = ld.one_hot(lb, 3)
            tt = T(dy) if fm.endswith("onehot") else torch.tensor(lb, dtype=torch.int64)
        elif fm == "logits":
            shp1 = (N, 1) + sp
            p = np.float32(ld.binary(shp1, tab, var)).astype(np.float64)
            dy = np.float32(ld.binary(shp1, tab, var + 1)).astype(np.float64)
            xin = (2 * p - 1) * 20.0
            dx = p
            tt = T(dy)
        else:
            raise KeyError(fm)
        dshape = dx.shape
        if mk:
            wfull = np.broadcast_to(np_mask(mk, (dshape[0], 1) + tuple(dshape[2:])), dshape).astype(np.float64)
            # weight in the documented (N, 1, ..., X) form
            wt = T(np_mask(mk, (dshape[0], 1) + tuple(dshape[2:])))
            wd = T(wfull)
        if fm == "logits":
            kw.pop("binarize")
            st, v = run(F_.tversky_index_with_logits, T(xin), tt, weight=wt, binarize=True, **kw)
        else:
            st, v = run(F_.tversky_index, T(xin), tt, weight=wt, **kw)
        got = val(st, v, form, f"tversky_index({case['ab']}, binarize={case['binarize']})")
        st, v = run(F_.dice_score, T(dx), T(dy), weight=wd, reduction=case["red"])
        ref = val(st, v, "dice_score/" + mform(mk), "dice_score")
        if got is None or ref is None:
            return
        res.nontriv = not np.array_equal(dx, dy)
        cmp(res, form, "tversky(.5,.5)!=dice", got, ref, C * EPS32 * scale_of(ref), f"alpha/beta form {case['ab']}, reduction={case['red']}")
        return
    if kind == "empty-channel":
        fm, fn, same = case["form"], case["fn"], case["same"]
        form = f"{fn}/empty-channel/{fm}/{'identical' if same else 'different'}"
        wt = None
        if fm.startswith("class-absent"):
            la = ld.labels(N, sp, 3, tab, var)
            lb = ld.labels(N, sp, 3, tab, var + 1)
            for lab in (la, lb):
                if fm == "class-absent-in-one-item":
                    lab[0][lab[0] == 2] = 1  # class 2 absent in the first batch item only (all items if N == 1)
                else:
                    lab[lab == 2] = 0
            a, b = ld.one_hot(la, 3), ld.one_hot(lb, 3)
            empty = np.zeros((N, 3), dtype=bool)
            empty[0 if fm == "class-absent-in-one-item" else slice(None), 2] = True
        elif fm == "foreground-outside-weight":
            w = np.broadcast_to(np_mask("half", shape), shape).astype(np.float64)
            a, b = s * (1 - w), t * (1 - w)  # every foreground voxel has weight zero
            wt = T(w)
            empty = np.ones((N, Cc), dtype=bool)
        elif fm == "all-background":
            a, b = np.zeros(shape), np.zeros(shape)
            empty = np.ones((N, Cc), dtype=bool)
        else:  # one channel of one item is all background in both inputs, the others are not
            a, b = s.copy(), t.copy()
            a[0, Cc - 1] = 0
            b[0, Cc - 1] = 0
            empty = np.zeros((N, Cc), dtype=bool)
            empty[0, Cc - 1] = True
        if same:
            b = a.copy()
        st, v = run(getattr(F_, fn), T(a), T(b), weight=wt, reduction="none")
        got = val(st, v, form, f"{fn}(reduction='none')")
        if got is None:
            return
        res.nontriv = True
        if got.shape != empty.shape:
            res.bad(f"{form}/none-shape", f"'none' output shape {got.shape}, expected {empty.shape}")
            return
        is_loss = fn.endswith("_loss")
        tol = C * EPS32
        if got.min() < -tol or got.max() > 1 + tol:
            res.bad(f"{form}/out-of-range", f"per (item, channel) values in [{got.min():.6g}, {got.max():.6g}] outside [0, 1]")
        want_empty = 0.0 if is_loss else 1.0
        e = got[empty]
        if e.size and np.max(np.abs(e - want_empty)) > tol:
            res.bad(f"{form}/empty-channel-score", f"channel empty in both inputs gives {e.ravel()[:3]}, expected {want_empty} (identical empty segmentations)")
        if same and np.max(np.abs(got - want_empty)) > tol:
            res.bad(f"{form}/identical-inputs", f"identical inputs give {got.ravel()[:4]}, expected {want_empty}")
        if fn == "tversky_index":
            st, v = run(F_.dice_score, T(a), T(b), weight=wt, reduction="none")
            ref = val(st, v, "dice_score/empty-channel/" + fm, "dice_score")
            if ref is not None:
                cmp(res, form, "tversky(.5,.5)!=dice", got, ref, C * EPS32 * scale_of(ref), "default alpha = beta = 1/2 on binary inputs with an empty channel")
        return
    if kind == "alpha-beta":
        # documented meaning of the two multipliers: alpha weighs false positives, beta false negatives.
        # prediction inside the target (no false positives) scores 1 when only false positives count, and
        # a prediction that contains the target (no false negatives) scores 1 when only false negatives count.
        which = case["which"]
        lo, hi = np.minimum(s, t), np.maximum(s, t)
        pred = lo if which == "alpha" else hi
        kw = {"alpha": 1.0, "beta": 0.0} if which == "alpha" else {"alpha": 0.0, "beta": 1.0}
        form = f"tversky_index/only-{which}/{mform(mk)}"
        wt = None
        if mk:
            form += "/pred=1ch" if Cc == 1 else "/pred=Cch"
            wt = T(np.broadcast_to(np_mask(mk, shape), shape).astype(np.float64))  # full (N, C, ..., X) weight
        st, v = run(F_.tversky_index, T(pred), T(t), weight=wt, reduction="none", **kw)
        got = val(st, v, form, f"tversky_index({kw})")
        kw2 = {"alpha": kw["beta"], "beta": kw["alpha"]}
        st, v = run(F_.tversky_index, T(pred), T(t), weight=wt, reduction="none", **kw2)
        other = val(st, v, form, f"tversky_index({kw2})")
        if got is None or other is None:
            return
        res.nontriv = bool(np.any(other < 1 - 1e-3))
        cmp(res, form, "multiplier-of-wrong-error-type", got, np.ones_like(got), C * EPS32, f"prediction {'inside' if which == 'alpha' else 'containing'} the target must score 1 with {kw}")
        return
    if kind == "tversky_loss":
        g = case["gamma"]
        form = f"tversky_loss/gamma={g}" + ("/with_logits" if case["logits"] else "")
        kw = {"alpha": 0.3, "beta": 0.7, "reduction": case["red"]}
        xin = (2 * s - 1) * 1.5 if case["logits"] else np.float32(ld.soft(shape, tab, var)).astype(np.float64)
        fl = F_.tversky_loss_with_logits if case["logits"] else F_.tversky_loss
        fi = F_.tversky_index_with_logits if case["logits"] else F_.tversky_index
        st, v = run(fl, T(xin), T(t), gamma=g, **kw)
        got = val(st, v, form, "tversky_loss")
        kwi = dict(kw)
        kwi["reduction"] = "none"
        st, v = run(fi, T(xin), T(t), **kwi)
        ti = val(st, v, "tversky_index/same-shape/nomask", "tversky_index")
        if got is None or ti is None:
            return
        res.nontriv = True
        loc = (1 - ti) ** (g or 1)
        want = loc if case["red"] == "none" else loc.mean()
        cmp(res, form, "loss!=(1-index)^gamma", got, want, C * EPS32 * 4, f"reduction={case['red']}")
        return
    if kind == "with_logits":
        form = "tversky_index_with_logits"
        lg = np.float32(ld.image("smooth", shape, tab, var) * 2 - 1.5).astype(np.float64)
        kw = {"alpha": 0.3, "beta": 0.7, "reduction": case["red"]}
        st, v = run(F_.tversky_index_with_logits, T(lg), T(t), **kw)
        got = val(st, v, form, "with_logits")
        if shape[1] == 1:
            pr = torch.sigmoid(T(lg))
        else:
            pr = torch.softmax(T(lg), 1)
        st, v = run(F_.tversky_index, pr, T(t), **kw)
        ref = val(st, v, "tversky_index/same-shape/nomask", "tversky_index(normalised input)")
        if got is None or ref is None:
            return
        res.nontriv = True
        cmp(res, form, "differs-from-normalised-input", got, ref, C * EPS32 * 4, f"reduction={case['red']}")
        return
    if kind == "dice_loss==1-score":
        form = f"dice_loss/{mform(mk)}"
        sx = np.float32(ld.soft(shape, tab, var)).astype(np.float64)
        wt = t_mask(mk, shape) if mk else None
        st, v = run(F_.dice_loss, T(sx), T(t), weight=wt, reduction=case["red"])
        got = val(st, v, form, "dice_loss")
        st, v = run(F_.dice_score, T(sx), T(t), weight=wt, reduction="none")
        sc = val(st, v, "dice_score/" + mform(mk), "dice_score")
        if got is None or sc is None:
            return
        res.nontriv = True
        want = (1 - sc) if case["red"] == "none" else (1 - sc).mean()
        cmp(res, form, "loss!=1-score", got, want, C * EPS32 * 4, f"reduction={case['red']}")
        return
    raise KeyError(kind)


# ---------------------------------------------------------------------------
# sub-check: module(opts) == functional(opts)
def module_menu(tier, shape):
    """(class name, ctor kwargs (JSON), functional name, functional kwargs, call form)"""
    D = len(shape) - 2
    kt = [3, 5] if D == 2 else [3, 5, 3]
    m = []
    for eps in (None, 0.1):
        e = {} if eps is None else {"epsilon": eps}
        m.append(("Dice", e, "dice_loss", e, "mask"))
        m.append(("NCC", e, "ncc_loss", e, "mask"))
    for k in (None, 3, 5, kt):
        if (7 if k is None else max(k) if isinstance(k, list) else k) > min(shape[2:]):
            continue  # window larger than the image: outside the domain
        for eps in (None, 0.05):
            o = {}
            if k is not None:
                o["kernel_size"] = k
            if eps is not None:
                o["epsilon"] = eps
            m.append(("LCC", o, "lcc_loss", o, "mask"))
            m.append(("WLCC", o, "wlcc_loss", o, "mask"))
            m.append(("WLCC", o, "wlcc_loss", o, "smtm"))
            m.append(("WLCC", o, "wlcc_loss", o, "mask+smtm"))
    for cls, fn in (("L1ImageLoss", "mae_loss"), ("L2ImageLoss", "mse_loss"), ("SSD", "ssd_loss"), ("HuberImageLoss", "huber_loss"), ("SmoothL1ImageLoss", "smooth_l1_loss")):
        for nf in ("none", "False", "True-noimg", "float", "tensor", "source+target", "source", "target", "True+images"):
            m.append((cls, {"normform": nf}, fn, {}, "mask"))
    m.append(("HuberImageLoss", {"delta": 0.25}, "huber_loss", {"delta": 0.25}, "mask"))
    m.append(("HuberImageLoss", {"beta": 0.25}, "huber_loss", {"delta": 0.25}, "mask"))
    m.append(("HuberImageLoss", {"delta": 2.0, "normform": "float"}, "huber_loss", {"delta": 2.0}, "mask"))
    m.append(("SmoothL1ImageLoss", {"beta": 0.25}, "smooth_l1_loss", {"beta": 0.25}, "mask"))
    m.append(("SmoothL1ImageLoss", {"delta": 0.25}, "smooth_l1_loss", {"beta": 0.25}, "mask"))
    m.append(("SmoothL1ImageLoss", {"beta": 2.0, "normform": "float"}, "smooth_l1_loss", {"beta": 2.0}, "mask"))
    if shape[1] == 1:
        mi = [
            ({}, {}), ({"bins": 16}, {"num_bins": 16}), ({"num_bins": 32}, {"num_bins": 32}),
            ({"vmin": "lo-0.5", "vmax": "hi+1"}, {"vmin": "lo-0.5", "vmax": "hi+1"}), ({"vmin": "lo-0.5"}, {"vmin": "lo-0.5"}), ({"vmax": "hi+1"}, {"vmax": "hi+1"}),
            ({"sample": 0.5}, {"sample_ratio": 0.5}), ({"sample": 20}, {"num_samples": 20}), ({"num_samples": 30}, {"num_samples": 30}),
            ({"sample_ratio": 0.25}, {"sample_ratio": 0.25}), ({"num_samples": -1}, {}), ({"num_samples": 25, "sample_ratio": 0.9}, {"num_samples": 25, "sample_ratio": 0.9}),
        ]
        for o, fo in mi:
            m.append(("MI", o, "mi_loss", fo, "mask"))
            m.append(("NMI", o, "nmi_loss", fo, "mask"))
        m.append(("MI", {"normalized": True}, "nmi_loss", {}, "mask"))
        m.append(("MI", {"normalized": True, "bins": 16}, "nmi_loss", {"num_bins": 16}, "mask"))
        m.append(("MI", {"normalized": False, "bins": 16}, "mi_loss", {"num_bins": 16}, "mask"))
    return m


ALIASES = {"DSC": "Dice", "LNCC": "LCC", "SLCC": "WLCC", "MAE": "L1ImageLoss", "MSE": "L2ImageLoss", "PatchLoss": "PatchwiseImageLoss"}


def cases_module(tier, shape, pair, tab):
    out = []
    for i, (cls, o, fn, fo, cf) in enumerate(module_menu(tier, shape)):
        seg = cls == "Dice"
        imgs = list(seg_pairs(tier)[1]) if seg else list(pair)
        for mk in (None, "half", "b1"):
            if cf != "mask" and mk == "b1":
                continue
            if cf == "smtm" and mk is not None:
                continue
            if cf == "mask+smtm" and mk is None:
                continue
            out.append({"sub": "module", "cls": cls, "opts": o, "fn": fn, "kw": fo, "call": cf, "shape": list(shape), "imgs": imgs, "tab": tab, "mask": mk})
    if pair[2] == 0:
        out.append({"sub": "module", "cls": "aliases", "opts": {}, "fn": "", "kw": {}, "call": "", "shape": list(shape), "imgs": list(pair), "tab": tab, "mask": None})
    return out


def ref_max_difference_sq(s, t):
    """Documented default normalisation: square of the maximum possible intensity difference."""
    d = max(abs(s.max() - t.min()), abs(t.max() - s.min()))
    return float(d) ** 2


def judge_module(case, res):
    import deepali.losses as LL

    cls, o, fn, fo, cf, shape = case["cls"], dict(case["opts"]), case["fn"], dict(case["kw"]), case["call"], case["shape"]
    if cls == "aliases":
        res.trans += len(ALIASES)
        for a, b in ALIASES.items():
            if getattr(LL, a, None) is not getattr(LL, b, "missing"):
                res.bad(f"alias/{a}", f"losses.{a} is not losses.{b}")
        res.nontriv = True
        res.out.append("aliases")
        return
    x, y = xy(case)
    mk = case["mask"]
    # symbolic intensity range options of MI: relative to the data so that the histogram is never empty
    sym = {"lo-0.5": float(np.float32(min(x.min(), y.min()) - 0.5)), "hi+1": float(np.float32(max(x.max(), y.max()) + 1.0))}
    o = {k: sym.get(v, v) if isinstance(v, str) else v for k, v in o.items()}
    fo = {k: sym.get(v, v) if isinstance(v, str) else v for k, v in fo.items()}
    nf = o.pop("normform", None)
    optform = ",".join(sorted(o)) or "default"
    form = f"{cls}/opt={optform}" + (f"/norm={nf}" if nf else "") + f"/call={cf}/{mform(mk)}"
    ctor = {k: (tuple(v) if isinstance(v, list) else v) for k, v in o.items()}
    want_norm = None
    s_img = np.float32(ld.image("wave", tuple(shape), case["tab"], 5) * 3.0).astype(np.float64)
    t_img = np.float32(ld.image("int", tuple(shape), case["tab"], 6)).astype(np.float64)
    if nf == "False":
        ctor["norm"] = False
    elif nf == "True-noimg":
        ctor["norm"] = True
    elif nf == "float":
        ctor["norm"], want_norm = 2.5, 2.5
    elif nf == "tensor":
        ctor["norm"], want_norm = torch.tensor(0.75), 0.75
    elif nf == "source+target":
        ctor["source"], ctor["target"] = T(s_img), T(t_img)
        want_norm = ref_max_difference_sq(s_img, t_img)
    elif nf == "source":
        ctor["source"] = T(s_img)
        want_norm = ref_max_difference_sq(s_img, s_img)
    elif nf == "target":
        ctor["target"] = T(t_img)
        want_norm = ref_max_difference_sq(t_img, t_img)
    elif nf == "True+images":
        ctor["source"], ctor["target"], ctor["norm"] = T(s_img), T(t_img), True
        want_norm = ref_max_difference_sq(s_img, t_img)
    res.trans += 1
    st, mod = guarded(lambda: getattr(LL, cls)(**ctor))
    if st == "raises":
        res.bad(f"{form}/ctor-raises={type(mod).__name__}", exc_text(mod))
        return
    # call forms
    mkw, fkw = {}, dict(fo)
    if want_norm is not None:
        fkw["norm"] = want_norm
    if mk is not None and cf in ("mask", "mask+smtm"):
        mkw["mask"] = t_mask(mk, shape)
        fkw[mask_kw(fn)] = t_mask(mk, shape)
    if cf in ("smtm", "mask+smtm"):
        mkw["source_mask"] = fkw["source_mask"] = t_mask("bands", shape)
        mkw["target_mask"] = fkw["target_mask"] = t_mask("soft", shape)
    sampling = any(k in fo for k in ("num_samples", "sample_ratio"))
    if sampling:
        torch.manual_seed(SEED_SAMPLING)
    res.trans += 1
    st, v = guarded(mod, T(x), T(y), **mkw)
    stf, ref = call(fn, x, y, {k: (tuple(q) if isinstance(q, list) else q) for k, q in fkw.items()})
    res.trans += 1
    res.states.append(h64(cls, repr(sorted(o.items())), nf, cf, mk, x, y))
    if stf == "raises":
        if st == "raises":
            res.undef.append("functional form raises too (judged by the other sub-checks)")
            res.out.append(("both-raise", type(ref).__name__))
            return
        res.undef.append("functional form raises, module does not")
        return
    if st == "raises":
        res.bad(f"{form}/{raise_sig(v)}", f"{cls}({optform}) forward: " + exc_text(v))
        return
    got, want = f64(v), f64(ref)
    res.out.append(tensor_bytes(v))
    if not (np.all(np.isfinite(got)) and np.all(np.isfinite(want))):
        res.bad(f"{form}/nonfinite", "non-finite loss")
        return
    res.nontriv = True
    tol = C * EPS32 * scale_of(want)
    if want_norm is not None:
        tol *= 4  # norm computed in float32 by the module, in float64 by the reference
    cmp(res, form, "module!=functional", got, want, tol, f"{cls}({', '.join(f'{k}={v}' for k, v in case['opts'].items())}) vs {fn}({', '.join(f'{k}={v}' for k, v in fo.items())}{', norm=%g' % want_norm if want_norm else ''})")



# ---------------------------------------------------------------------------
# sub-check: every subset of the optional mask / weight arguments x every mask dtype form
MASK_ARG_NAMES = {"wlcc_loss": ("mask", "source_mask", "target_mask")}
MASK_ARG_PATTERN = {"mask": "half", "weight": "half", "source_mask": "bands", "target_mask": "b1"}
MASK_DFORMS = ("bool", "uint8", "f32", "f32soft", "f64")
MODULE_OF = {
    "wlcc_loss": "WLCC", "lcc_loss": "LCC", "ncc_loss": "NCC", "mse_loss": "L2ImageLoss", "ssd_loss": "SSD", "mae_loss": "L1ImageLoss",
    "huber_loss": "HuberImageLoss", "smooth_l1_loss": "SmoothL1ImageLoss", "mi_loss": "MI", "nmi_loss": "NMI", "dice_loss": "Dice",
}


def mask_arg_names(fn):
    return MASK_ARG_NAMES.get(fn, (mask_kw(fn),))


def mask_args_losses(tier, shape):
    D = len(shape) - 2
    k = kernels(tier, D, shape)[:1 if tier == "quick" else 2]
    fns = [("wlcc_loss", {"kernel_size": q}) for q in k] + [("lcc_loss", {"kernel_size": q}) for q in k] + [("ncc_loss", {})]
    fns += [("mse_loss", {}), ("ssd_loss", {}), ("mae_loss", {}), ("huber_loss", {"delta": 0.25}), ("smooth_l1_loss", {"beta": 0.25})]
    fns += [("dice_score", {}), ("dice_loss", {}), ("tversky_index", {"alpha": 0.3, "beta": 0.7}), ("tversky_loss", {})]
    if shape[1] == 1:
        fns += [("mi_loss", {"num_bins": 16}), ("nmi_loss", {"num_bins": 16})]
    return fns


def cases_mask_args(tier, shape, pair, tab):
    out = []
    for fn, kw in mask_args_losses(tier, shape):
        seg = fn.startswith(("dice", "tversky"))
        imgs = list(seg_pairs(tier)[0]) if seg else list(pair)
        names = mask_arg_names(fn)
        subsets = [list(c) for r in range(1, len(names) + 1) for c in itertools.combinations(names, r)]
        reds = ("none", "mean", "sum") if HAS_REDUCTION(fn) else (None,)
        for sub_ in subsets:
            for df in MASK_DFORMS:
                for red in reds:
                    out.append({"sub": "mask-args", "fn": fn, "kw": kw, "shape": list(shape), "imgs": imgs, "tab": tab, "args": sub_, "dform": df, "red": red, "via": "function"})
                if fn in MODULE_OF:
                    out.append({"sub": "mask-args", "fn": fn, "kw": kw, "shape": list(shape), "imgs": imgs, "tab": tab, "args": sub_, "dform": df, "red": None, "via": "module"})
    return out


def mask_arg_array(arg, shape, soft):
    """float64 array of the 0/1 (or, soft: {0, .5, 1}) pattern of one mask argument; the zero set is the same."""
    m = np_mask(MASK_ARG_PATTERN[arg], shape).astype(np.float64)
    if soft:
        idx = np.indices(m.shape[2:]).sum(axis=0) % 2
        m = m * (0.5 + 0.5 * idx)
    return m


def mask_arg_tensor(a, dform):
    dt = {"bool": torch.bool, "uint8": torch.uint8, "f32": torch.float32, "f32soft": torch.float32, "f64": torch.float64}[dform]
    return T(a, dt)


def judge_mask_args(case, res):
    fn, kw0, shape, args, df, red = case["fn"], case["kw"], case["shape"], case["args"], case["dform"], case["red"]
    x, y = xy(case)
    soft = df == "f32soft"
    arr = {a: mask_arg_array(a, shape, soft) for a in args}
    form = f"{label_of(fn, kw0)}/args={'+'.join(args)}/dtype={df}/{case['via']}"
    base = dict(kw0)
    if fn in ("mi_loss", "nmi_loss"):
        base = mi_range(base, x, y)

    def kwargs(arrays, dform, reduction):
        k = dict(base)
        for a, v in arrays.items():
            k[a] = mask_arg_tensor(v, dform)
        if reduction:
            k["reduction"] = reduction
        return k

    # effective mask of the aggregation (documented): mask, else source_mask * target_mask when both are given
    eff = None
    if fn == "wlcc_loss":
        if "mask" in arr:
            eff = arr["mask"]
        elif "source_mask" in arr and "target_mask" in arr:
            eff = arr["source_mask"] * arr["target_mask"]
    elif args:
        eff = arr[args[0]]
    wl = {"source": arr.get("source_mask", arr.get("mask") if len(args) == 1 else None), "target": arr.get("target_mask", arr.get("mask") if len(args) == 1 else None)} if fn == "wlcc_loss" else {"source": eff, "target": eff}
    if fn == "lcc_loss":
        wl = {"source": None, "target": None}  # unweighted local windows overlap the mask border: no such invariance
    if is_corr(fn):
        k_ = kw0.get("kernel_size", 7)
        cands_x = [w_ for w_ in (wl["source"], eff) if w_ is not None] or [None]
        cands_y = [w_ for w_ in (wl["target"], eff) if w_ is not None] or [None]
        if fn == "ncc_loss":
            cond = 1.0 + ld.global_cond(x, eff) + ld.global_cond(y, eff)
        else:
            cond = 1.0 + max(ld.local_cond(x, k_, w_) for w_ in cands_x) + max(ld.local_cond(y, k_, w_) for w_ in cands_y)
        if not cond < 1e3:
            res.undef.append("ill-conditioned")
            return
        tol0 = C * EPS32 * cond
    else:
        tol0 = None

    def tol_for(ref):
        return tol0 * (float(np.prod(shape)) if red == "sum" else 1.0) if tol0 is not None else C * EPS32 * scale_of(ref) * 4

    if case["via"] == "module":
        import deepali.losses as LL

        ctor = {k: (tuple(v) if isinstance(v, list) else v) for k, v in kw0.items() if k not in ("vmin", "vmax")}
        if "num_bins" in ctor:
            ctor["bins"] = ctor.pop("num_bins")
        if fn in ("mi_loss", "nmi_loss"):
            ctor["vmin"], ctor["vmax"] = base["vmin"], base["vmax"]
        res.trans += 1
        st, mod = guarded(lambda: getattr(LL, MODULE_OF[fn])(**ctor))
        if st == "raises":
            res.bad(f"{form}/ctor-{raise_sig(mod)}", exc_text(mod))
            return
        mkw = {("mask" if a == "weight" else a): mask_arg_tensor(v, df) for a, v in arr.items()}
        res.trans += 1
        st, v = guarded(mod, T(x), T(y), **mkw)
        want = ev(res, fn, x, y, kwargs(arr, df, None), form, "functional form, default reduction")
        if want is None:
            return
        if st == "raises":
            res.bad(f"{form}/{raise_sig(v)}", f"{MODULE_OF[fn]} forward: " + exc_text(v))
            return
        res.nontriv = True
        res.out.append(tensor_bytes(v))
        cmp(res, form, "module!=functional", f64(v), want, tol_for(want), f"{MODULE_OF[fn]}(...)(x, y, {', '.join(mkw)}) vs {fn}")
        return

    got = ev(res, fn, x, y, kwargs(arr, df, red), form, f"reduction={red}")
    if got is None:
        return
    res.nontriv = True
    # R1: the dtype of a 0/1 mask does not matter
    if df in ("bool", "uint8", "f64"):
        ref = ev(res, fn, x, y, kwargs(arr, "f32", red), form, "same masks as float32")
        if ref is not None:
            cmp(res, form, f"mask-dtype-changes-value/reduction={red}", got, ref, tol_for(ref), f"{df} masks vs the same 0/1 masks as float32")
    # R2: documented fall-backs of wlcc_loss
    if fn == "wlcc_loss" and sorted(args) == ["source_mask", "target_mask"]:
        full = dict(arr)
        full["mask"] = np.float32(arr["source_mask"] * arr["target_mask"]).astype(np.float64)
        ref = ev(res, fn, x, y, kwargs(full, "f32" if df != "f32soft" else "f32soft", red), form, "explicit mask = source_mask * target_mask")
        if ref is not None:
            cmp(res, form, f"implicit-product-mask/reduction={red}", got, ref, tol_for(ref), "mask omitted vs mask = source_mask * target_mask given explicitly")
    if fn == "wlcc_loss" and args == ["mask"]:
        full = {"mask": arr["mask"], "source_mask": arr["mask"], "target_mask": arr["mask"]}
        ref = ev(res, fn, x, y, kwargs(full, "f32" if df != "f32soft" else "f32soft", red), form, "mask also given as source_mask and target_mask")
        if ref is not None:
            cmp(res, form, f"mask-as-source-and-target-mask/reduction={red}", got, ref, tol_for(ref), "mask alone vs mask = source_mask = target_mask")
    # R3: samples outside the effective mask (and outside the weights of the local mean of that image) do not matter
    if eff is not None and df in ("bool", "f32", "f32soft"):
        seg = fn.startswith(("dice", "tversky"))
        zs = None if wl["source"] is None else (np.broadcast_to(eff, shape) == 0) & (np.broadcast_to(wl["source"], shape) == 0)
        zt = None if wl["target"] is None else (np.broadcast_to(eff, shape) == 0) & (np.broadcast_to(wl["target"], shape) == 0)
        x2 = x if zs is None else edit_outside(x, (~zs).astype(np.float64), seg, 0)
        y2 = y if zt is None else edit_outside(y, (~zt).astype(np.float64), seg, 1)
        if not (np.array_equal(x, x2) and np.array_equal(y, y2)):
            ref = ev(res, fn, x2, y2, kwargs(arr, df, red), form, "values edited where all weights are zero")
            if ref is not None:
                cmp(res, form, f"depends-on-masked-out-samples/reduction={red}", ref, got, tol_for(got), "edit of samples whose mask and local-mean weights are zero")
    # R4: 'mean' / 'sum' are the mean / sum of 'none' over the effective mask; 'none' vanishes outside it
    if red is not None:
        none = got if red == "none" else ev(res, fn, x, y, kwargs(arr, df, "none"), form, "reduction=none")
        if none is None:
            return
        windowed_or_pointwise = not fn.startswith(("dice", "tversky")) and fn != "ncc_loss"
        if windowed_or_pointwise and none.shape != tuple(shape):
            res.bad(f"{form}/none-shape", f"'none' output shape {none.shape}, expected {tuple(shape)}")
            return
        if red == "none":
            if windowed_or_pointwise and eff is not None:
                e = np.broadcast_to(eff, none.shape)
                off = float(np.abs(none[e == 0]).max()) if (e == 0).any() else 0.0
                if off > 0:
                    res.bad(f"{form}/none-nonzero-outside-effective-mask", f"'none' output is {off:.3g} where the effective mask is zero")
        else:
            s_, sa = none.sum(), max(np.abs(none).sum(), 1e-30)
            if red == "sum":
                cmp(res, form, "sum!=sum-of-none", got, s_, C * EPS32 * sa, "'sum' vs sum of 'none'")
            else:
                den = float(np.broadcast_to(eff, none.shape).sum()) if (windowed_or_pointwise and eff is not None) else float(none.size)
                cmp(res, form, "mean!=mean-of-none-over-effective-mask", got, s_ / den, C * EPS32 * sa / den, "'mean' vs sum of 'none' / sum of the effective mask")


# ---------------------------------------------------------------------------
# sub-check: memory layout of every tensor argument (same values, other strides)
LAYOUT_FORMS = ("transposed", "step-sliced", "expanded")


def relayout(t, form):
    """Same values, other memory layout.  Returns None where the form does not apply."""
    if form == "contiguous":
        return t.contiguous()
    if form == "transposed":  # transposed view of a transposed copy of the last two axes
        v = t.transpose(-1, -2).contiguous().transpose(-1, -2)
        return None if v.is_contiguous() else v
    if form == "step-sliced":  # every second element of a buffer twice as wide
        big = torch.zeros(tuple(t.shape[:-1]) + (2 * t.shape[-1],), dtype=t.dtype)
        big[..., ::2] = t
        v = big[..., ::2]
        return None if v.is_contiguous() else v
    if form == "expanded":  # stride-0 batch / channel axis where the argument is constant along it
        if t.shape[0] == 1 and t.shape[1] == 1:
            return None
        if not (bool((t == t[:1]).all()) and bool((t == t[:, :1]).all())):
            return None
        v = t[:1, :1].expand(t.shape)
        return None if v.is_contiguous() else v
    raise KeyError(form)


def layout_losses(tier, shape):
    return mask_args_losses(tier, shape)


def cases_layout(tier, shape, pair, tab):
    out = []
    for fn, kw in layout_losses(tier, shape):
        seg = fn.startswith(("dice", "tversky"))
        imgs = list(seg_pairs(tier)[0]) if seg else list(pair)
        names = ["source", "target"] + list(mask_arg_names(fn))
        for arg in names + ["all"]:
            for form in LAYOUT_FORMS:
                if form == "expanded" and arg in ("source", "target"):
                    continue  # images are not constant along batch / channel
                for via in ("function", "module") if fn in MODULE_OF else ("function",):
                    reds = (("none", None) if HAS_REDUCTION(fn) else (None,)) if via == "function" else (None,)
                    for red in reds:
                        out.append({"sub": "layout", "fn": fn, "kw": kw, "shape": list(shape), "imgs": imgs, "tab": tab, "arg": arg, "layout": form, "via": via, "red": red})
    return out


def judge_layout(case, res):
    fn, kw0, shape, arg, form, via, red = case["fn"], case["kw"], case["shape"], case["arg"], case["layout"], case["via"], case["red"]
    x, y = xy(case)
    names = list(mask_arg_names(fn))
    N, Cc = shape[0], shape[1]
    sig = f"{label_of(fn, kw0)}/{via}/reduction={red}/arg={arg}/layout={form}"
    base = dict(kw0)
    if fn in ("mi_loss", "nmi_loss"):
        base = mi_range(base, x, y)
    # mask arguments written out per item (and per channel where the loss documents it) so that 'expanded' applies
    full = (N, 1) + tuple(shape[2:]) if (fn in ("mi_loss", "nmi_loss") or fn.startswith("tversky")) else tuple(shape)
    tens = {"source": T(x), "target": T(y)}
    for a in names:
        m = np_mask({"mask": "half", "weight": "half", "source_mask": "bands", "target_mask": "b1"}[a], shape)
        tens[a] = T(np.broadcast_to(m[:1, :1], full).copy())
    targets = list(tens) if arg == "all" else [arg]
    alt = dict(tens)
    changed = False
    for a in targets:
        v = relayout(tens[a], form)
        if v is not None:
            alt[a] = v
            changed = True
    if not changed:
        res.undef.append("layout form not applicable to this argument")
        return

    def evaluate(tt):
        kw = {k: (tuple(v) if isinstance(v, list) else v) for k, v in base.items()}
        if via == "module":
            import deepali.losses as LL

            ctor = {k: v for k, v in kw.items() if k not in ("vmin", "vmax")}
            if "num_bins" in ctor:
                ctor["bins"] = ctor.pop("num_bins")
            if fn in ("mi_loss", "nmi_loss"):
                ctor["vmin"], ctor["vmax"] = base["vmin"], base["vmax"]
            mod = getattr(LL, MODULE_OF[fn])(**ctor)
            return mod(tt["source"], tt["target"], **{("mask" if a == "weight" else a): tt[a] for a in names})
        if red:
            kw["reduction"] = red
        return getattr(L(), fn)(tt["source"], tt["target"], **{a: tt[a] for a in names}, **kw)

    res.trans += 2
    res.states.append(h64(fn, via, red, arg, form, x, y))
    st0, ref = guarded(evaluate, tens)
    if st0 == "raises":
        res.undef.append("contiguous form raises (judged by the other sub-checks)")
        return
    fp = {a: (tensor_bytes(v), v._version) for a, v in alt.items()}
    st1, got = guarded(evaluate, alt)
    if st1 == "raises":
        # plain raises=<Type> (call site in the detail) so that one known / fixed line covers the layout family
        res.bad(f"{sig}/raises={type(got).__name__}", f"{fn} with a non-contiguous '{arg}' ({form}; strides {tuple(alt[targets[0]].stride()) if targets[0] in alt else ''}): " + exc_text(got))
        res.out.append(("raises", type(got).__name__))
        return
    res.nontriv = True
    res.out.append(tensor_bytes(got))
    for a, v in alt.items():
        if (tensor_bytes(v), v._version) != fp[a]:
            res.bad(f"{sig}/argument-modified/{a}", f"argument '{a}' was modified by the call")
    want = f64(ref)
    if is_corr(fn):
        k_ = kw0.get("kernel_size", 7)
        w_ = {a: f64(tens[a]) for a in names}
        eff = w_.get("mask", w_.get("weight"))
        if fn == "ncc_loss":
            cond = 1.0 + ld.global_cond(x, eff) + ld.global_cond(y, eff)
        elif fn == "wlcc_loss":
            cond = 1.0 + max(ld.local_cond(x, k_, w_["source_mask"]), ld.local_cond(x, k_, eff)) + max(ld.local_cond(y, k_, w_["target_mask"]), ld.local_cond(y, k_, eff))
        else:
            cond = 1.0 + ld.local_cond(x, k_, None) + ld.local_cond(y, k_, None)
        if not cond < 1e3:
            res.undef.append("ill-conditioned")
            return
        tol = C * EPS32 * cond
    else:
        tol = C * EPS32 * scale_of(want) * 4
    cmp(res, sig, "value-depends-on-layout", f64(got), want, tol, f"'{arg}' given as {form} view vs contiguous tensor of the same values")

# ---------------------------------------------------------------------------
CASES = {
    "identity": (cases_identity, judge_identity),
    "range": (cases_range, judge_range),
    "symmetry": (cases_symmetry, judge_symmetry),
    "affine": (cases_affine, judge_affine),
    "mask-outside": (cases_mask_outside, judge_mask_outside),
    "mask-mean": (cases_mask_mean, judge_mask_mean),
    "mask-roi": (cases_mask_roi, judge_mask_roi),
    "mask-shape": (cases_mask_shape, judge_mask_shape),
    "norm": (cases_norm, judge_norm),
    "reduction": (cases_reduction, judge_reduction),
    "overlap": (cases_overlap, judge_overlap),
    "module": (cases_module, judge_module),
    "mask-args": (cases_mask_args, judge_mask_args),
    "layout": (cases_layout, judge_layout),
}


def judge_case(case) -> Res:
    res = Res()
    try:
        CASES[case["sub"]][1](case, res)
    except Exception as e:  # noqa: BLE001 - never crash a shard; an unexpected return value of a mutated tree ends here
        name = case.get("cls") or label_of(case.get("fn", "?"), case.get("kw", {}))
        res.bad(f"{name}/judge-exception={type(e).__name__}", "while judging: " + exc_text(e))
    return res


def bounds(tier):
    n = {}
    for sub in SUBS:
        n[sub] = sum(len(CASES[sub][0](tier, sh, p, 0)) for sh in shapes(tier) for p in (pairs(tier) if sub not in ("overlap", "layout") else pairs(tier)[:1]))
    return {
        "shapes": [list(s) for s in shapes(tier)],
        "image_pairs": [list(p) for p in pairs(tier)],
        "segmentation_pairs": [list(p) for p in seg_pairs(tier)],
        "mask_kinds": list(ld.MASK_KINDS),
        "mask_argument_subsets": {"wlcc_loss": 7, "every other loss": 1},
        "mask_dtype_forms": list(MASK_DFORMS),
        "layout_forms": ["contiguous (reference)"] + list(LAYOUT_FORMS),
        "kernel_sizes": kernels(tier, 2),
        "bins": bins(tier),
        "affine_a": list(AFF_A) + ([-0.5, 7.0] if tier == "thorough" else []),
        "affine_b": list(AFF_B) + ([3.0] if tier == "thorough" else []),
        "pointwise_losses": [label_of(f, k) for f, k in POINTWISE],
        "module_forms": len(module_menu(tier, (1, 1, 8, 9))),
        "cases_per_subcheck": n,
        "depth": 1,
    }


def shards(tier: str, seed: int):
    out = []
    for sub in SUBS:
        for si in range(len(shapes(tier))):
            ps = range(len(pairs(tier))) if sub not in ("overlap", "layout") else range(1)
            for pi in ps:
                out.append({"tier": tier, "seed": seed, "sub": sub, "shape": si, "pair": pi})
    return out


def run_shard(shard) -> Acc:
    acc = Acc()
    tier, sub = shard["tier"], shard["sub"]
    shape = shapes(tier)[shard["shape"]]
    pair = pairs(tier)[shard["pair"]]
    tab = shard["seed"] % 4
    cases = CASES[sub][0](tier, shape, pair, tab)
    for case in cases:
        res = judge_case(case)
        acc.trans(res.trans)
        acc.trace(sub, depth=1)
        for s_ in res.states:
            acc.states.add(s_)
        key = h64(repr(sorted((k, repr(v)) for k, v in case.items())))
        acc.outcome(*[o if isinstance(o, (bytes, str)) else repr(o) for o in res.out] or ["none"])
        if res.nontriv:
            acc.nontrivial.add(key)
        for u in res.undef:
            acc.undef(u)
        for tail, detail in res.problems:
            acc.violation(f"C16/{sub}/{tail}", case, detail, size=1)
        if len(acc.samples) < 2 and res.nontriv:
            acc.sample({"case": {k: v for k, v in case.items()}, "observed": [len(o) if isinstance(o, bytes) else o for o in res.out][:4]})
    return acc


def replay(case):
    res = judge_case(case)
    return [(f"C16/{case['sub']}/{tail}", detail) for tail, detail in res.problems]
