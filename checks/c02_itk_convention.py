"""C02 - Grid <-> world convention agrees with ITK for every oriented image geometry.

Enumerated: D in {2,3} x sizes x spacings x origins x directions (ALL signed permutation matrices, proper and
improper, plus generic rotations) x construction routes (origin=, center=, both, from_sitk, Image.sitk
chains, from_reader / from_file through a tiny .mha, from_numpy, origin setter) x a continuous-index lattice
{-1.5, 0, 0.25, (n-1)/2, n-1, n+2}^D.  Oracle: a SimpleITK image with the same header
(TransformContinuousIndexToPhysicalPoint / TransformPhysicalPointToContinuousIndex, independent C++ code).
"""
from __future__ import annotations

import itertools
import os
import shutil
import tempfile

import numpy as np
import torch

from mc.core import Acc, exc_text, guarded, h64, tensor_bytes
from ref import frames as fr
from ref.frames import C, EPS32
from ref.grid import GRID, WORLD, RefGrid

PROPERTY = "C02"
RULE = (
    "every header (D, size, spacing, origin, direction) of the listed product - all 8 / 48 signed permutation "
    "matrices and the generic rotations of the seed's table - through every construction route, compared with "
    "SimpleITK's own index<->physical maps on the complete continuous-index lattice; header -> Grid -> header "
    "chains of 3 rounds; every argument form (separate scalars / flat tuple / nested list / float32 tensor / float64 array) of the copying and "
    "in-place spacing, direction and origin setters; layout (point tensors of index<->world and the header's direction matrix as transposed / "
    "step-sliced / stride-0 expanded views, one size per header class); argument-aliasing histories (second grid from the same argument objects); and all "
    "histories construct(origin= | center= | from_sitk | odd-size grid .downsample() | .resample(1.3 x spacing), the last two with a "
    "fractional internally stored size) -> (query, setter){1,2} on ONE live Grid over the setter "
    "alphabet {spacing, direction, origin, center, align_corners} x {in-place, copying} + clone and the query "
    "alphabet {none, affine, inverse_affine, origin, index_to_world, ...}, every view (origin, center, affine, "
    "index<->world, Image.sitk() header, from_sitk of it) judged in EVERY reached state against the ITK image "
    "carrying the header the grid itself reports; distinct outcome = exact bytes of the mapped lattice / headers; "
    "non-trivial = direction differs from identity or origin differs from 0"
)
EXPLANATION = "exhaustive product of image geometries, construction routes and query/setter histories on live grids, judged by SimpleITK's physical-point transforms"
ASSUMPTIONS = [
    "SimpleITK 2.x (ITK) index<->physical point transforms are the trusted oracle; headers hold float64, deepali grids float32",
    "tolerance = 64 * 2^-23 * (|L^-1| (|A||x| + |center| + extent) + |y|) (+ 0.5e-6 for default-rounded indices); header fields 64 ulp(float32) of their magnitude scale",
    "directions: signed permutations (det +1 and -1, both accepted by Grid and ITK) and proper generic rotations; CPU only",
    "histories: a setter must read back the value set, leave size and the attributes it does not address unchanged (copying forms: leave the source grid unchanged); which of origin/center a spacing or direction setter holds fixed is not judged - only that all views agree with ITK for the reported header",
]
MIN_NONTRIVIAL = {"quick": 400, "thorough": 2500}
MIN_OUTCOMES = {"quick": 30000, "thorough": 190000}
MIN_SUB_TRACES = {"construct-origin": 300, "construct-center": 300, "from_sitk": 300, "chain": 300, "file": 300, "gridattrs": 300, "aliasing": 300, "history": 7000, "layout": 150}


# ---------------------------------------------------------------------------
def directions(D: int, tier: str, seed: int):
    """[(class, name, matrix)]: all signed permutations (perm+ / perm-) and generic rotations."""
    out = []
    for k, M in enumerate(fr.signed_permutations(D)):
        cls = "perm+" if round(float(np.linalg.det(M))) == 1 else "perm-"
        out.append((cls, f"{cls}{k}", M))
    tables = [seed % 4] if tier == "quick" else [(seed + j) % 4 for j in range(4)]
    for t in tables:
        for k, M in enumerate(fr.generic_rotations(D, t, 6)):
            out.append(("rot", f"rot{t}.{k}", M))
    # almost axis-aligned orientations: rotations of 0.02 / 0.04 degrees about a generic axis (table by seed),
    # alone and composed with every signed permutation (judged on a large image: lever arm of ~500 voxels)
    perms = fr.signed_permutations(D)
    for k in range(-2, len(perms)):
        deg = (0.02, 0.04)[k % 2]
        T = tiny_rotation(D, deg, seed)
        if k < 0:
            out.append(("tiny", f"tiny{deg}", T))
        else:
            cls = "tinyperm+" if round(float(np.linalg.det(perms[k]))) == 1 else "tinyperm-"
            out.append((cls, f"{cls}{k}x{deg}", perms[k] @ T))
    return out


_TINY_AXES = ((1.0, 2.0, 3.0), (-2.0, 1.0, 0.5), (0.3, -1.0, 2.0), (3.0, 1.0, -1.0))


def tiny_rotation(D: int, deg: float, seed: int) -> np.ndarray:
    a = np.deg2rad(deg) * (1 if seed % 2 == 0 else -1)
    if D == 2:
        return np.array([[np.cos(a), -np.sin(a)], [np.sin(a), np.cos(a)]])
    u = np.array(_TINY_AXES[seed % 4])
    u = u / np.linalg.norm(u)
    K = np.array([[0, -u[2], u[1]], [u[2], 0, -u[0]], [-u[1], u[0], 0]])
    return np.eye(3) + np.sin(a) * K + (1 - np.cos(a)) * (K @ K)


def geometry_menu(D: int, tier: str):
    if D == 2:
        sizes = [(1, 1), (5, 4), (8, 8)]
        spacings = [(1.0, 1.0), (0.5, 1.25)]
        origins = [(0.0, 0.0), (10.5, -3.25)]
        if tier == "thorough":
            sizes += [(2, 7), (1, 6), (16, 9)]
            origins += [(-250.0, 127.5)]
            spacings += [(0.3, 0.45)]
    else:
        sizes = [(1, 1, 1), (5, 4, 3), (8, 8, 2)]
        spacings = [(1.0, 1.0, 1.0), (0.5, 1.25, 2.0)]
        origins = [(0.0, 0.0, 0.0), (10.5, -3.25, 100.0)]
        if tier == "thorough":
            sizes += [(2, 3, 7), (4, 1, 6), (16, 9, 5)]
            origins += [(-250.0, 127.5, 33.3)]
            spacings += [(0.3, 0.45, 0.7)]
    return sizes, spacings, origins


def index_values(n: int, tier: str):
    vals = [-1.5, 0.0, 0.25, (n - 1) / 2, float(n - 1), float(n + 2)]
    if tier == "thorough":
        vals += [-0.5, n - 0.5]
    out = []
    for v in vals:
        if v not in out:
            out.append(v)
    return out


def index_lattice(size, tier: str) -> np.ndarray:
    if tier == "history":  # reduced lattice judged in every state of a setter history
        return np.array(list(itertools.product(*[[-1.5, 0.25, float(n - 1)] for n in size])), dtype=np.float64)
    return np.array(list(itertools.product(*[index_values(n, tier) for n in size])), dtype=np.float64)


def configs(D: int, di: int, tier: str, seed: int):
    cls, name, M = directions(D, tier, seed)[di]
    sizes, spacings, origins = geometry_menu(D, tier)
    if cls.startswith("tiny"):
        # one large image per almost-aligned orientation: indices up to 512 make an error of 3e-4 rad visible
        sizes = [(512, 400)] if D == 2 else [(400, 512, 3)]
        spacings, origins = spacings[1:2], origins[1:2]
    out = []
    for size in sizes:
        for s in spacings:
            for o in origins:
                out.append({"D": D, "size": list(size), "spacing": list(s), "origin": list(o), "direction": M.tolist(), "dir": name, "dircls": cls, "tier": tier})
    return out


def bounds(tier):
    b = {}
    for D in (2, 3):
        sizes, spacings, origins = geometry_menu(D, tier)
        dirs = directions(D, tier, 0)
        b[f"D{D}"] = {
            "sizes": len(sizes), "spacings": len(spacings), "origins": len(origins),
            "signed_permutations": sum(1 for d in dirs if d[0].startswith("perm")), "generic_rotations": sum(1 for d in dirs if d[0] == "rot"),
            "tiny_rotations_0.02_0.04deg_alone_and_with_each_signed_permutation_on_512_voxel_images": sum(1 for d in dirs if d[0].startswith("tiny")),
            "index_lattice_values_per_axis": len(index_values(5, tier)),
        }
    b["routes"] = list(SUBS)
    b["layout"] = {"point_forms": ["transposed", "sliced", "expanded"], "direction_objects": ["torch32/transposed", "torch32/sliced", "torch64/transposed", "numpy64/fortran", "numpy64/sliced", "numpy32/sliced"], "menu": "headers with first size 5 and the large almost-aligned images"}
    b["history"] = {"routes": list(H_ROUTES), "queries": list(H_QUERIES[tier]), "setters": list(H_SETTERS), "depth_query_setter_pairs": H_DEPTH,
                    "directions": {"D2": len(history_dirs(2, tier, 0)), "D3": len(history_dirs(3, tier, 0))}, "queries_second_pair": list(H_QUERIES2[tier]),
                    "histories_per_route_and_direction": (len(H_QUERIES[tier]) * len(H_SETTERS)) * (1 + len(H_QUERIES2[tier]) * len(H_SETTERS))}
    b["chain_rounds"] = 3
    return b


# ---------------------------------------------------------------------------
class Sink:
    def __init__(self, acc: Acc = None):
        self.acc = acc
        self.out = []

    def violation(self, sig, case, detail, size=1):
        sig = sig.replace("[", "(").replace("]", ")").replace(" ", "")
        self.out.append((sig, detail))
        if self.acc is not None:
            self.acc.violation(sig, case, detail, size=size)

    def __getattr__(self, name):
        acc = self.__dict__.get("acc")
        if acc is not None:
            return getattr(acc, name)
        return lambda *a, **k: None


def make_itk(cfg, origin=None):
    import SimpleITK as sitk

    img = sitk.Image([int(n) for n in cfg["size"]], sitk.sitkUInt8)
    img.SetSpacing([float(v) for v in cfg["spacing"]])
    img.SetDirection([float(v) for v in np.asarray(cfg["direction"]).reshape(-1)])
    img.SetOrigin([float(v) for v in (cfg["origin"] if origin is None else origin)])
    return img


def itk_points(img, idx: np.ndarray) -> np.ndarray:
    return np.array([img.TransformContinuousIndexToPhysicalPoint([float(v) for v in i]) for i in idx], dtype=np.float64)


def itk_indices(img, pts: np.ndarray) -> np.ndarray:
    return np.array([img.TransformPhysicalPointToContinuousIndex([float(v) for v in p]) for p in pts], dtype=np.float64)


def as_np(t):
    return t.detach().double().numpy()


class Ctx:
    """One header: ITK oracle values and derived error bounds."""

    def __init__(self, cfg):
        self.cfg = cfg
        self.D = cfg["D"]
        self.n = np.array(cfg["size"], dtype=np.float64)
        self.ref = RefGrid(cfg["size"], cfg["spacing"], origin=cfg["origin"], direction=cfg["direction"])  # bound magnitudes only
        self.img = make_itk(cfg)
        self.idx = index_lattice(cfg["size"], cfg["tier"])
        self.pts = itk_points(self.img, self.idx)  # oracle
        self.idx_back = itk_indices(self.img, self.pts)  # oracle inverse (equals idx up to double rounding)
        self.center = itk_points(self.img, ((self.n - 1) / 2)[None])[0]
        self.tol_w = fr.tol_points(self.ref, GRID, self.ref, WORLD, self.idx)
        self.tol_i = fr.tol_points(self.ref, WORLD, self.ref, GRID, self.pts)
        self.tol_o = fr.tol_points(self.ref, GRID, self.ref, WORLD, np.zeros((1, self.D)))
        self.key = h64(repr({k: cfg[k] for k in ("size", "spacing", "origin", "direction")}))
        self.suffix = f"/dir={cfg['dircls']}"

    def case(self, sub):
        return {"sub": sub, "cfg": self.cfg}


def cmp(got, exp, tol):
    if not isinstance(got, torch.Tensor):
        return "type", f"returned {type(got).__name__}"
    exp = np.asarray(exp, dtype=np.float64)
    if tuple(got.shape) != tuple(exp.shape):
        return "shape", f"shape {tuple(got.shape)} expected {tuple(exp.shape)}"
    g = as_np(got)
    if not np.all(np.isfinite(g)):
        return "value", "non-finite result"
    err = float(np.abs(g - exp).max()) if g.size else 0.0
    if err > tol:
        k = int(np.unravel_index(np.abs(g - exp).argmax(), g.shape)[0]) if g.ndim > 1 else 0
        return "value", f"max abs error {err:.3e} > tol {tol:.3e} (deepali {np.atleast_2d(g)[k].round(6).tolist()} vs ITK {np.atleast_2d(exp)[k].round(6).tolist()})"
    return None


def check_grid_maps(sink: Sink, cx: Ctx, sub: str, g, what: str, full: bool = True, case_sub: str = None, case: dict = None):
    """index<->world of a real grid against the ITK oracle on the lattice, and the stated equivalences."""
    D = cx.D
    case = case if case is not None else cx.case(case_sub or sub)
    ok = True

    def emit(call, kind, detail):
        nonlocal ok
        ok = False
        sink.violation(f"C02/{sub}/{call}/{kind}{cx.suffix}", case, f"{what} {call}: {detail} [size {cx.cfg['size']} spacing {cx.cfg['spacing']} origin {cx.cfg['origin']} dir {cx.cfg['dir']}]", size=max(1, len(case.get("ops", [0]))))

    def run(call, fn, exp, tol):
        sink.trans()
        st, got = guarded(fn)
        # an outcome is whatever the implementation returned (right, wrong or raised)
        sink.outcome(cx.key, sub, what, call, tensor_bytes(got) if st == "ok" else "raises:" + type(got).__name__)
        if st == "raises":
            emit(call, "raises=" + type(got).__name__, exc_text(got))
            return None
        bad = cmp(got, exp, tol)
        if bad:
            emit(call, bad[0], bad[1])
            return None
        return got

    idx32 = torch.tensor(cx.idx, dtype=torch.float32)
    run("index_to_world", lambda: g.index_to_world(idx32), cx.pts, cx.tol_w)
    run("world_to_index", lambda: g.world_to_index(torch.tensor(cx.pts, dtype=torch.float64)), cx.idx_back, cx.tol_i + 0.5e-6)
    if not full:
        run("origin()", lambda: g.origin().reshape(1, D), np.asarray(cx.cfg["origin"], dtype=np.float64)[None], cx.tol_o)
    if full:
        run("index_to_world(f64)", lambda: g.index_to_world(torch.tensor(cx.idx, dtype=torch.float64)), cx.pts, cx.tol_w)
        run("world_to_index(f32,decimals=None)", lambda: g.world_to_index(torch.tensor(cx.pts, dtype=torch.float32), decimals=None), cx.idx_back,
            cx.tol_i + fr.lin_norm(cx.ref, WORLD, cx.ref, GRID) * EPS32 * float(np.abs(cx.pts).max()))
        from deepali.core.grid import Axes

        run("transform_points(grid->world)", lambda: g.transform_points(idx32, Axes.GRID, Axes.WORLD), cx.pts, cx.tol_w)
        # origin is the position of sample 0; the stored center is consistent with that origin
        run("origin()", lambda: g.origin().reshape(1, D), np.asarray(cx.cfg["origin"], dtype=np.float64)[None], cx.tol_o)
        run("center()", lambda: g.center().reshape(1, D), cx.center[None], cx.tol_w)
        # direction columns are the unit steps along each axis (ITK: physical(e_k) - physical(0))
        eye = np.eye(D)
        steps = itk_points(cx.img, eye) - itk_points(cx.img, np.zeros((1, D)))
        sink.trans()
        st, a = guarded(lambda: as_np(g.index_to_world(torch.tensor(eye, dtype=torch.float32))) - as_np(g.index_to_world(torch.zeros((1, D)))))
        if st == "raises":
            emit("unit-steps", "raises=" + type(a).__name__, exc_text(a))
        elif float(np.abs(a - steps).max()) > 2 * cx.tol_o:
            emit("unit-steps", "value", f"index step vectors {a.round(5).tolist()} vs ITK {steps.round(5).tolist()}")
        sink.trans()
        st, a = guarded(lambda: as_np(g.direction()) * as_np(g.spacing())[None, :])
        if st == "raises":
            emit("direction-columns", "raises=" + type(a).__name__, exc_text(a))
        elif a.shape != (D, D) or float(np.abs(a.T - steps).max()) > C * EPS32 * float(np.abs(steps).max()):
            emit("direction-columns", "value", f"direction()*spacing() columns {a.T.round(5).tolist()} vs ITK unit steps {steps.round(5).tolist()}")
        sink.trans()
        st, sz = guarded(lambda: tuple(int(v) for v in g.size()))
        if st == "raises":
            emit("size()", "raises=" + type(sz).__name__, exc_text(sz))
        elif sz != tuple(cx.cfg["size"]):
            emit("size()", "value", f"{sz} expected {tuple(cx.cfg['size'])}")
    return ok


def header_of(img):
    return {
        "size": tuple(int(v) for v in img.GetSize()),
        "origin": np.array(img.GetOrigin(), dtype=np.float64),
        "spacing": np.array(img.GetSpacing(), dtype=np.float64),
        "direction": np.array(img.GetDirection(), dtype=np.float64),
    }


def cmp_header(cx: Ctx, h, ref_h):
    """None or (field, detail): header fields equal up to float32 storage."""
    if h["size"] != ref_h["size"]:
        return "size", f"size {h['size']} expected {ref_h['size']}"
    if h["origin"].shape != ref_h["origin"].shape or float(np.abs(h["origin"] - ref_h["origin"]).max()) > 2 * cx.tol_o:
        return "origin", f"origin {h['origin'].tolist()} expected {ref_h['origin'].tolist()} tol {2 * cx.tol_o:.2e}"
    if h["spacing"].shape != ref_h["spacing"].shape or np.any(np.abs(h["spacing"] - ref_h["spacing"]) > C * EPS32 * ref_h["spacing"]):
        return "spacing", f"spacing {h['spacing'].tolist()} expected {ref_h['spacing'].tolist()}"
    if h["direction"].shape != ref_h["direction"].shape or float(np.abs(h["direction"] - ref_h["direction"]).max()) > C * EPS32:
        return "direction", f"direction {h['direction'].round(6).tolist()} expected {ref_h['direction'].round(6).tolist()}"
    return None


# ---------------------------------------------------------------------------
def grid_kwargs(cfg, flat_direction=False):
    R = np.asarray(cfg["direction"], dtype=np.float64)
    return dict(size=tuple(cfg["size"]), spacing=tuple(cfg["spacing"]), direction=tuple(R.reshape(-1).tolist()) if flat_direction else R.tolist())


def sub_construct_origin(sink: Sink, cx: Ctx):
    from deepali.core.grid import Grid

    sub = "construct-origin"
    cfg = cx.cfg
    for flat in (False, True):
        for ac in (True, False):
            sink.trans()
            st, g = guarded(lambda: Grid(origin=tuple(cfg["origin"]), align_corners=ac, **grid_kwargs(cfg, flat)))
            what = f"Grid(origin=, direction={'flat' if flat else 'matrix'}, align_corners={ac})"
            if st == "raises":
                sink.violation(f"C02/{sub}/Grid/raises={type(g).__name__}{cx.suffix}", cx.case(sub), f"{what}: {exc_text(g)}", size=1)
                continue
            check_grid_maps(sink, cx, sub, g, what, full=(ac and not flat) or (not ac and flat))
            sink.state(cx.key, sub, flat, ac)
    # origin setter: new grid with the specified origin
    o2 = (np.asarray(cfg["origin"]) + np.array([3.5, -7.25, 11.0][: cx.D])).tolist()
    cfg2 = dict(cfg, origin=o2)
    cx2 = Ctx(cfg2)
    for name, mk in (("origin(arg)", lambda: Grid(center=0, **grid_kwargs(cfg)).origin(tuple(o2))), ("origin_(arg)", lambda: Grid(origin=tuple(cfg["origin"]), **grid_kwargs(cfg)).origin_(*o2))):
        sink.trans()
        st, g = guarded(mk)
        if st == "raises":
            sink.violation(f"C02/{sub}/{name}/raises={type(g).__name__}{cx.suffix}", cx.case(sub), exc_text(g), size=1)
            continue
        bad = None
        sink.trans(2)
        st, r = guarded(lambda: (g.index_to_world(torch.tensor(cx2.idx, dtype=torch.float32)), g.origin().reshape(1, cx.D)))
        if st == "raises":
            sink.violation(f"C02/{sub}/{name}/raises={type(r).__name__}{cx.suffix}", cx.case(sub), exc_text(r), size=1)
            continue
        bad = cmp(r[0], cx2.pts, cx2.tol_w) or cmp(r[1], np.asarray(o2)[None], cx2.tol_o)
        if bad:
            sink.violation(f"C02/{sub}/{name}/{bad[0]}{cx.suffix}", cx.case(sub), f"{name}: {bad[1]}", size=1)
    # from_numpy / from_seq with origin=True
    attrs = np.concatenate([np.asarray(cfg["size"], float), np.asarray(cfg["spacing"], float), np.asarray(cfg["origin"], float), np.asarray(cfg["direction"], float).reshape(-1)])
    for name, mk in (("from_numpy(origin=True)", lambda: Grid.from_numpy(attrs, origin=True)), ("from_seq(origin=True)", lambda: Grid.from_seq(attrs.tolist(), origin=True))):
        sink.trans()
        st, g = guarded(mk)
        if st == "raises":
            sink.violation(f"C02/{sub}/{name}/raises={type(g).__name__}{cx.suffix}", cx.case(sub), exc_text(g), size=1)
            continue
        check_grid_maps(sink, cx, sub, g, name, full=False)
    # every argument form of the attribute setters (copying and in-place): separate scalars, flat tuple, nested list,
    # float32 tensor, float64 numpy array; Grid(size).spacing(F).direction(F).origin(F) must be the header's grid
    D = cx.D
    sp, o, R = [float(v) for v in cfg["spacing"]], [float(v) for v in cfg["origin"]], np.asarray(cfg["direction"], dtype=np.float64)
    flatR = [float(v) for v in R.reshape(-1)]
    forms = {
        "scalars": (lambda v: tuple(v), lambda m: tuple(flatR)),
        "flat-tuple": (lambda v: (tuple(v),), lambda m: (tuple(flatR),)),
        "list": (lambda v: (list(v),), lambda m: (R.tolist(),)),
        "tensor32": (lambda v: (torch.tensor(v, dtype=torch.float32),), lambda m: (torch.tensor(R, dtype=torch.float32),)),
        "numpy64": (lambda v: (np.asarray(v, dtype=np.float64),), lambda m: (R.copy(),)),
    }
    for fname, (fv, fm) in forms.items():
        for inplace in (False, True):
            u = "_" if inplace else ""
            name = f"setters{u}[{fname}]"

            def mk():
                g = Grid(size=tuple(cfg["size"]))
                g = getattr(g, "spacing" + u)(*fv(sp))
                g = getattr(g, "direction" + u)(*fm(R))
                return getattr(g, "origin" + u)(*fv(o))

            sink.trans(4)
            st, g = guarded(mk)
            if st == "raises":
                sink.violation(f"C02/{sub}/{name}/raises={type(g).__name__}{cx.suffix}", cx.case(sub), exc_text(g), size=3)
                continue
            check_grid_maps(sink, cx, sub, g, name, full=False)
    sink.trace(sub)


def sub_construct_center(sink: Sink, cx: Ctx):
    from deepali.core.grid import Grid

    sub = "construct-center"
    cfg = cx.cfg
    c = cx.center.tolist()  # computed by ITK: physical point of index (n-1)/2
    sink.trans()
    st, g = guarded(lambda: Grid(center=tuple(c), **grid_kwargs(cfg)))
    if st == "raises":
        sink.violation(f"C02/{sub}/Grid/raises={type(g).__name__}{cx.suffix}", cx.case(sub), exc_text(g), size=1)
    else:
        check_grid_maps(sink, cx, sub, g, "Grid(center=)")
        sink.state(cx.key, sub)
    attrs = np.concatenate([np.asarray(cfg["size"], float), np.asarray(cfg["spacing"], float), np.asarray(c, float), np.asarray(cfg["direction"], float).reshape(-1)])
    sink.trans()
    st, g = guarded(lambda: Grid.from_numpy(attrs))
    if st == "raises":
        sink.violation(f"C02/{sub}/from_numpy/raises={type(g).__name__}{cx.suffix}", cx.case(sub), exc_text(g), size=1)
    else:
        check_grid_maps(sink, cx, sub, g, "Grid.from_numpy(center)", full=False)
        # numpy() round trip keeps the geometry
        sink.trans(2)
        st, g2 = guarded(lambda: Grid.from_numpy(g.numpy()))
        if st == "raises":
            sink.violation(f"C02/{sub}/numpy-roundtrip/raises={type(g2).__name__}{cx.suffix}", cx.case(sub), exc_text(g2), size=1)
        else:
            check_grid_maps(sink, cx, sub, g2, "Grid.from_numpy(grid.numpy())", full=False)
    # both given, consistent: accepted, same grid
    sink.trans()
    st, g = guarded(lambda: Grid(origin=tuple(cfg["origin"]), center=tuple(c), **grid_kwargs(cfg)))
    if st == "raises":
        sink.violation(f"C02/{sub}/origin+center-consistent/raises={type(g).__name__}{cx.suffix}", cx.case(sub), "consistent origin and center rejected: " + exc_text(g), size=1)
    else:
        check_grid_maps(sink, cx, sub, g, "Grid(origin=, center=) consistent", full=False)
    # both given, inconsistent by one whole sample along the first axis: documented to raise
    R = np.asarray(cfg["direction"], dtype=np.float64)
    c_bad = (cx.center + R[:, 0] * cfg["spacing"][0]).tolist()
    sink.trans()
    st, g = guarded(lambda: Grid(origin=tuple(cfg["origin"]), center=tuple(c_bad), **grid_kwargs(cfg)))
    if st == "ok":
        sink.violation(f"C02/{sub}/origin+center-inconsistent/accepted{cx.suffix}", cx.case(sub), f"center off by one sample from the origin was accepted; origin() = {as_np(g.origin()).tolist()}", size=1)
    sink.trace(sub)


def sub_from_sitk(sink: Sink, cx: Ctx):
    from deepali.core.grid import Grid
    from deepali.data import Image

    sub = "from_sitk"
    for ac in (True, False):
        sink.trans()
        st, g = guarded(lambda: Grid.from_sitk(cx.img, align_corners=ac))
        what = f"Grid.from_sitk(align_corners={ac})"
        if st == "raises":
            sink.violation(f"C02/{sub}/Grid.from_sitk/raises={type(g).__name__}{cx.suffix}", cx.case(sub), exc_text(g), size=1)
            continue
        check_grid_maps(sink, cx, sub, g, what, full=ac)
        sink.state(cx.key, sub, ac)
    sink.trans()
    st, g = guarded(lambda: Image.from_sitk(cx.img).grid())
    if st == "raises":
        sink.violation(f"C02/{sub}/Image.from_sitk/raises={type(g).__name__}{cx.suffix}", cx.case(sub), exc_text(g), size=1)
    else:
        check_grid_maps(sink, cx, sub, g, "Image.from_sitk(img).grid()", full=False)
    sink.trace(sub)


def sub_chain(sink: Sink, cx: Ctx):
    """header -> Grid.from_sitk -> Image.sitk() header -> Grid.from_sitk ... (3 rounds)."""
    from deepali.core.grid import Grid
    from deepali.data import Image

    sub = "chain"
    case = cx.case(sub)
    h0 = header_of(cx.img)
    img = cx.img
    prev_g = None
    prev_h = h0
    for rnd in (1, 2, 3):
        sink.trans()
        st, g = guarded(lambda: Grid.from_sitk(img))
        if st == "raises":
            sink.violation(f"C02/{sub}/round{rnd}/Grid.from_sitk/raises={type(g).__name__}{cx.suffix}", case, exc_text(g), size=rnd)
            break
        if not check_grid_maps(sink, cx, sub, g, f"round {rnd} grid", full=False):
            break
        shape = tuple(int(v) for v in reversed(cx.cfg["size"]))
        sink.trans()
        st, out = guarded(lambda: Image(torch.zeros((1,) + shape), g).sitk())
        if st == "raises":
            sink.violation(f"C02/{sub}/round{rnd}/Image.sitk/raises={type(out).__name__}{cx.suffix}", case, exc_text(out), size=rnd)
            break
        h = header_of(out)
        bad = cmp_header(cx, h, h0)
        if bad:
            sink.violation(f"C02/{sub}/round{rnd}/Image.sitk/header-{bad[0]}{cx.suffix}", case, f"round {rnd}: header of Image.sitk() differs from the original header: {bad[1]}", size=rnd)
            break
        if rnd > 1:
            bad = cmp_header(cx, h, prev_h)
            if bad:
                sink.violation(f"C02/{sub}/round{rnd}/not-a-fixpoint/header-{bad[0]}{cx.suffix}", case, f"round {rnd}: {bad[1]}", size=rnd)
                break
            sink.trans()
            st, eq = guarded(lambda: bool(g == prev_g))
            if st == "raises" or not eq:
                sink.violation(f"C02/{sub}/round{rnd}/not-a-fixpoint/grid-ne{cx.suffix}", case, f"round {rnd}: grid differs from the previous round's grid", size=rnd)
                break
        # the physical map of the written header is ITK-equal to the original one
        p2 = itk_points(out, cx.idx)
        if float(np.abs(p2 - cx.pts).max()) > cx.tol_w:
            sink.violation(f"C02/{sub}/round{rnd}/Image.sitk/physical-points{cx.suffix}", case, f"round {rnd}: ITK physical points of the produced image differ by {np.abs(p2 - cx.pts).max():.3e}", size=rnd)
            break
        sink.outcome(cx.key, sub, rnd, h["origin"].tobytes(), h["direction"].tobytes())
        sink.state(cx.key, sub, rnd)
        prev_g, prev_h, img = g, h, out
    sink.trace(sub, depth=3)


def sub_file(sink: Sink, cx: Ctx, tmpdir: str):
    import SimpleITK as sitk

    from deepali.core.grid import Grid

    sub = "file"
    path = os.path.join(tmpdir, "g.mha")
    sitk.WriteImage(cx.img, path)
    chk = sitk.ReadImage(path)
    if cmp_header(cx, header_of(chk), header_of(cx.img)):
        sink.undef("file: SimpleITK did not round-trip the header itself")
        return
    for ac in (True, False):
        sink.trans()
        st, g = guarded(lambda: Grid.from_file(path, align_corners=ac))
        if st == "raises":
            sink.violation(f"C02/{sub}/Grid.from_file/raises={type(g).__name__}{cx.suffix}", cx.case(sub), exc_text(g), size=1)
        else:
            check_grid_maps(sink, cx, sub, g, f"Grid.from_file(.mha, align_corners={ac})", full=ac)
    reader = sitk.ImageFileReader()
    reader.SetFileName(path)
    reader.ReadImageInformation()
    sink.trans()
    st, g = guarded(lambda: Grid.from_reader(reader))
    if st == "raises":
        sink.violation(f"C02/{sub}/Grid.from_reader/raises={type(g).__name__}{cx.suffix}", cx.case(sub), exc_text(g), size=1)
    else:
        check_grid_maps(sink, cx, sub, g, "Grid.from_reader", full=False)
    sink.state(cx.key, sub)
    sink.trace(sub)


def sub_gridattrs(sink: Sink, cx: Ctx):
    """utils/simpleitk/grid.py: GridAttrs index<->physical maps and its origin/center routes."""
    from deepali.utils.simpleitk.grid import GridAttrs, image_grid_attributes

    sub = "gridattrs"
    case = cx.case(sub)
    cfg = cx.cfg
    D = cx.D
    tol64 = C * 2.0 ** -52 * float(np.abs(cx.pts).max() + np.abs(cx.ref.extent).max() + 1.0) * fr.lin_norm(cx.ref, WORLD, cx.ref, GRID) + 1e-12

    def emit(call, kind, detail):
        sink.violation(f"C02/{sub}/{call}/{kind}{cx.suffix}", case, f"GridAttrs {call}: {detail}", size=1)

    def arr(call, fn, exp, tol):
        sink.trans()
        st, got = guarded(fn)
        if st == "raises":
            emit(call, "raises=" + type(got).__name__, exc_text(got))
            return
        try:
            a = np.asarray(got, dtype=np.float64)
        except Exception:  # noqa: BLE001
            emit(call, "type", f"returned {type(got).__name__}")
            return
        exp = np.asarray(exp, dtype=np.float64)
        if a.shape != exp.shape:
            emit(call, "shape", f"{a.shape} expected {exp.shape}")
        elif not np.all(np.isfinite(a)) or float(np.abs(a - exp).max()) > tol:
            emit(call, "value", f"max abs error {np.abs(a - exp).max():.3e} > tol {tol:.2e}; got {a.reshape(-1)[:4].tolist()} expected {exp.reshape(-1)[:4].tolist()}")
        else:
            sink.outcome(cx.key, sub, call, a.tobytes())

    for name, mk in (
        ("image_grid_attributes", lambda: image_grid_attributes(cx.img)),
        ("GridAttrs(origin=)", lambda: GridAttrs(size=cfg["size"], origin=cfg["origin"], spacing=cfg["spacing"], direction=cfg["direction"])),
    ):
        sink.trans()
        st, ga = guarded(mk)
        if st == "raises":
            emit(name, "raises=" + type(ga).__name__, exc_text(ga))
            continue
        arr(name + ".index_to_physical_space", lambda: ga.index_to_physical_space(cx.idx), cx.pts, tol64)
        arr(name + ".physical_space_to_continuous_index", lambda: ga.physical_space_to_continuous_index(cx.pts), cx.idx_back, tol64 + 0.5e-12)
        if name == "image_grid_attributes":
            arr("center", lambda: ga.center, cx.center, tol64)
            arr("size", lambda: ga.size, np.asarray(cfg["size"], float), 0.0)
    sink.trans()
    st, ga = guarded(lambda: GridAttrs(size=cfg["size"], center=cx.center.tolist(), spacing=cfg["spacing"], direction=cfg["direction"]))
    if st == "raises":
        emit("GridAttrs(center=)", "raises=" + type(ga).__name__, exc_text(ga))
    else:
        arr("GridAttrs(center=).origin", lambda: ga.origin, np.asarray(cfg["origin"], float), tol64)
        arr("GridAttrs(center=).index_to_physical_space", lambda: ga.index_to_physical_space(cx.idx), cx.pts, tol64)
    sink.state(cx.key, sub)
    sink.trace(sub)


ARG_KINDS = ("list", "torch32", "torch64", "numpy32", "numpy64")


def as_kind(values, kind: str, integer: bool = False):
    """The same attribute values as a fresh argument object of the given container kind."""
    a = np.asarray(values)
    if kind == "list":
        return a.tolist() if a.ndim > 1 else tuple(a.tolist())
    if kind.startswith("torch"):
        if integer:
            return torch.tensor(a.astype(np.int64))
        return torch.tensor(a, dtype=torch.float32 if kind == "torch32" else torch.float64)
    if integer:
        return a.astype(np.int64)
    return a.astype(np.float32 if kind == "numpy32" else np.float64)


def fingerprint(obj) -> bytes:
    if isinstance(obj, torch.Tensor):
        return tensor_bytes(obj)
    if isinstance(obj, np.ndarray):
        return str(obj.dtype).encode() + str(obj.shape).encode() + obj.tobytes()
    return repr(obj).encode()


def sub_aliasing(sink: Sink, cx: Ctx):
    """Histories on shared argument objects: every construction route with the attributes given as lists,
    torch tensors (float32/float64) and numpy arrays; every argument fingerprinted before/after; a second
    grid built from the SAME argument objects; both grids re-judged against ITK afterwards; attribute
    tensors returned by accessors reused as arguments must leave the grid they came from unchanged."""
    from deepali.core.grid import Grid

    sub = "aliasing"
    cfg = cx.cfg
    case = cx.case(sub)
    D = cx.D

    def emit(tag, kind, detail):
        sink.violation(f"C02/{sub}/{tag}/{kind}{cx.suffix}", case, f"{tag}: {detail} [size {cfg['size']} spacing {cfg['spacing']} origin {cfg['origin']} dir {cfg['dir']}]", size=2)

    def judge(g, cxx, tag, what):
        return check_grid_maps(sink, cxx, f"{sub}/{tag}", g, what, full=False, case_sub=sub)

    def args_unchanged(args, prints, tag):
        ok = True
        for k, v in args.items():
            if fingerprint(v) != prints[k]:
                ok = False
                emit(tag, f"argument-mutated/{k}", f"the caller's '{k}' argument object was modified (now {np.asarray(v).reshape(-1)[:4].tolist()})")
        return ok

    for kind in ARG_KINDS:
        for route in ("origin", "center"):
            tag = f"{route}/{kind}"
            args = {
                "size": as_kind(cfg["size"], kind, integer=True),
                "spacing": as_kind(cfg["spacing"], kind),
                "direction": as_kind(cfg["direction"], kind),
                route: as_kind(cfg["origin"] if route == "origin" else cx.center, kind),
            }
            prints = {k: fingerprint(v) for k, v in args.items()}
            sink.trans()
            st, g1 = guarded(lambda: Grid(**args))
            if st == "raises":
                emit(tag, "first/raises=" + type(g1).__name__, exc_text(g1))
                continue
            ok = args_unchanged(args, prints, tag + "/first")
            ok = judge(g1, cx, tag + "/first", f"first Grid({route}=<{kind}>)") and ok
            sink.trans()
            st, g2 = guarded(lambda: Grid(**args))  # the SAME argument objects
            if st == "raises":
                emit(tag, "second/raises=" + type(g2).__name__, exc_text(g2))
                continue
            args_unchanged(args, prints, tag + "/second")
            judge(g2, cx, tag + "/second", f"second Grid({route}=<{kind}>) from the same argument objects")
            judge(g1, cx, tag + "/first-after-second", "first grid re-judged after the second construction")
            sink.state(cx.key, sub, kind, route, ok)
        # setters on a shared argument object
        o2 = (np.asarray(cfg["origin"]) + np.array([3.5, -7.25, 11.0][:D])).tolist()
        cx2 = Ctx(dict(cfg, origin=o2))
        arg = as_kind(o2, kind)
        fp = fingerprint(arg)
        tag = f"setter/{kind}"
        sink.trans(3)
        st, gs = guarded(lambda: (Grid(center=0, **grid_kwargs(cfg)).origin(arg), Grid(center=0, **grid_kwargs(cfg)).origin_(arg), Grid(center=0, **grid_kwargs(cfg)).origin(arg)))
        if st == "raises":
            emit(tag, "raises=" + type(gs).__name__, exc_text(gs))
        else:
            if fingerprint(arg) != fp:
                emit(tag, "argument-mutated/origin", "the caller's origin argument object was modified by origin()/origin_()")
            for k, g in enumerate(gs):
                judge(g, cx2, f"{tag}/grid{k + 1}", f"grid {k + 1} of three given the same origin argument object")
    # attribute tensors returned by accessors, reused as arguments of other grids
    sink.trans()
    st, ga = guarded(lambda: Grid(origin=tuple(cfg["origin"]), **grid_kwargs(cfg)))
    if st == "ok" and judge(ga, cx, "accessor/base", "base grid"):
        cxc = Ctx(dict(cfg, origin=cx.center.tolist()))  # header whose origin is the base grid's center
        steps = (
            ("Grid(origin=g.origin())", lambda: Grid(size=ga.size(), origin=ga.origin(), spacing=ga.spacing(), direction=ga.direction()), cx),
            ("Grid(center=g.center())", lambda: Grid(size=ga.size(), center=ga.center(), spacing=ga.spacing(), direction=ga.direction()), cx),
            ("other.origin(g.center())", lambda: Grid(center=0, **grid_kwargs(cfg)).origin(ga.center()), cxc),
            ("other.origin_(g.center())", lambda: Grid(center=0, **grid_kwargs(cfg)).origin_(ga.center()), cxc),
            ("other.center(g.origin())", lambda: Grid(center=0, **grid_kwargs(cfg)).center(ga.origin()), None),
            ("g.origin(g.origin())", lambda: ga.origin(ga.origin()), cx),
        )
        for name, fn, cxx in steps:
            tag = "accessor/" + name
            sink.trans()
            st, gb = guarded(fn)
            if st == "raises":
                emit(tag, "raises=" + type(gb).__name__, exc_text(gb))
                continue
            if cxx is not None:
                judge(gb, cxx, tag + "/new", f"grid returned by {name}")
            judge(ga, cx, tag + "/source-after", f"grid whose accessor result was passed to {name}, re-judged")
        sink.state(cx.key, sub, "accessor")
    sink.trace(sub, depth=3)


def sub_layout(sink: Sink, cx: Ctx):
    """Memory layout: index / world point tensors of the index<->world maps, and the direction matrix of a
    header, given as transposed / step-sliced / stride-0 expanded (points) views: no exception, result equal to
    the contiguous form (and to ITK), arguments unchanged (bits and _version)."""
    from deepali.core.grid import Axes, Grid

    from ref.layout import applicable, relayout

    sub = "layout"
    cfg = cx.cfg
    case = cx.case(sub)
    D = cx.D
    sink.trans()
    st, g = guarded(lambda: Grid(origin=tuple(cfg["origin"]), **grid_kwargs(cfg)))
    if st == "raises":
        sink.undef("layout: construction fails (reported by construct-origin)")
        return
    k = min(len(cx.idx), 6)
    calls = (
        ("index_to_world", lambda t: g.index_to_world(t), cx.idx[:k], cx.pts[:k], cx.tol_w),
        ("world_to_index", lambda t: g.world_to_index(t), cx.pts[:k], cx.idx_back[:k], cx.tol_i + 0.5e-6 + fr.lin_norm(cx.ref, WORLD, cx.ref, GRID) * EPS32 * float(np.abs(cx.pts).max())),
        ("transform_points(grid->world)", lambda t: g.transform_points(t, Axes.GRID, Axes.WORLD), cx.idx[:k], cx.pts[:k], cx.tol_w),
        ("transform_vectors(grid->world)", lambda t: g.transform_vectors(t, Axes.GRID, Axes.WORLD), cx.idx[:k], None, cx.tol_w),
    )
    for name, fn, x64, itk, tol, shp in [c + (sh,) for c in calls for sh in ("MD", "23D")]:
        if shp == "23D" and len(x64) < 6:
            continue
        x = torch.tensor(x64, dtype=torch.float32)
        if shp == "23D":
            x = x.reshape(2, 3, D)
            itk = None if itk is None else np.asarray(itk).reshape(2, 3, D)
        sink.trans()
        st, ref = guarded(fn, relayout(x, "contig"))
        if st == "raises" or not isinstance(ref, torch.Tensor):
            sink.undef("layout: contiguous form fails (reported by the other sub-checks)")
            continue
        for form in ("transposed", "sliced", "expanded"):
            if not applicable(x, form):
                continue
            xv = relayout(x, form, n=2)
            exp = ref
            if form == "expanded":
                sink.trans()
                st, exp = guarded(fn, relayout(x, "repeat", n=2))
                if st == "raises" or not isinstance(exp, torch.Tensor):
                    sink.undef("layout: batched contiguous form not accepted by this call")
                    continue
            before, ver = tensor_bytes(xv), xv._version
            sink.trans()
            st, got = guarded(fn, xv)
            sig = f"C02/{sub}/{name}/shape={shp}/layout={form}/"
            sink.outcome(cx.key, sub, name, shp, form, tensor_bytes(got) if st == "ok" and isinstance(got, torch.Tensor) else repr(type(got)))
            if st == "raises":
                sink.violation(sig + "raises=" + type(got).__name__ + cx.suffix, case, f"{name} with a {form} point tensor: {exc_text(got)}", size=1)
                continue
            bad = cmp(got, as_np(exp), tol)
            if bad is None and itk is not None and form != "expanded":
                bad = cmp(got, itk, tol)
            if bad:
                sink.violation(sig + bad[0] + cx.suffix, case, f"{name} with a {form} point tensor differs from the contiguous form / ITK: {bad[1]}", size=1)
            if tensor_bytes(xv) != before or xv._version != ver:
                sink.violation(sig + "operand-mutated" + cx.suffix, case, f"{name}: the {form} argument tensor was modified (bits or _version)", size=1)
    # direction matrix of a header as a non-contiguous object
    R = np.asarray(cfg["direction"], dtype=np.float64)
    big = np.full((2 * D, 2 * D), 7.0)
    big[::2, ::2] = R
    objs = (
        ("torch32/transposed", lambda: relayout(torch.tensor(R, dtype=torch.float32), "transposed")),
        ("torch32/sliced", lambda: relayout(torch.tensor(R, dtype=torch.float32), "sliced")),
        ("torch64/transposed", lambda: relayout(torch.tensor(R), "transposed")),
        ("numpy64/fortran", lambda: np.asfortranarray(R)),
        ("numpy64/sliced", lambda: big[::2, ::2]),
        ("numpy32/sliced", lambda: big.astype(np.float32)[::2, ::2]),
    )
    for kind, mk in objs:
        for route in ("origin", "center"):
            arg = mk()
            before = fingerprint(arg)
            ver = arg._version if isinstance(arg, torch.Tensor) else None
            kw = dict(size=tuple(cfg["size"]), spacing=tuple(cfg["spacing"]), direction=arg)
            kw[route] = tuple(cfg["origin"]) if route == "origin" else tuple(cx.center.tolist())
            sink.trans()
            st, g2 = guarded(lambda: Grid(**kw))
            tag = f"Grid({route}=,direction=<{kind}>)"
            if st == "raises":
                sink.violation(f"C02/{sub}/{tag}/layout={kind.split('/')[1]}/raises={type(g2).__name__}{cx.suffix}", case, f"{tag}: {exc_text(g2)}", size=1)
                continue
            check_grid_maps(sink, cx, f"{sub}/{tag}/layout={kind.split('/')[1]}", g2, tag, full=False, case_sub=sub)
            if fingerprint(arg) != before or (ver is not None and arg._version != ver):
                sink.violation(f"C02/{sub}/{tag}/layout={kind.split('/')[1]}/operand-mutated{cx.suffix}", case, f"{tag}: the direction argument was modified", size=1)
    sink.state(cx.key, sub)
    sink.trace(sub)


SUBS = ("construct-origin", "construct-center", "from_sitk", "chain", "file", "gridattrs", "aliasing", "layout")


# ---------------------------------------------------------------------------
# histories on ONE live Grid object: construct -> (query, setter) -> (query, setter); every view judged in
# every reached state against the ITK image that carries the header the grid itself reports
H_ROUTES = ("origin", "center", "from_sitk", "frac-downsample", "frac-resample")
# the two frac-* routes start from a DERIVED grid whose internally stored size is fractional (odd size halved /
# extent not divisible by the new spacing): getters round that size, so every setter must do the same
H_QUERIES = {"quick": ("none", "affine", "inverse_affine", "origin", "index_to_world"),
             "thorough": ("none", "affine", "inverse_affine", "origin", "index_to_world", "world_to_index", "transform")}
# queries of the second (query, setter) pair: quick uses none / index_to_world (the latter evaluates affine and origin)
H_QUERIES2 = {"quick": ("none", "index_to_world"), "thorough": H_QUERIES["thorough"]}
H_SETTERS = ("spacing_", "spacing", "direction_", "direction", "origin_", "origin", "center_", "center", "align_corners_", "align_corners", "clone")
H_DEPTH = 2


def history_dirs(D: int, tier: str, seed: int):
    """Indices into directions(): one non-symmetric proper permutation, one improper, one generic and one
    almost-aligned rotation (quick); thorough adds the identity, a second of each class."""
    dirs = directions(D, tier, seed)
    # quick: the four orientation classes are split over the two dimensions (histories exercise state, not orientation)
    want = ({"perm+": 1, "rot": 1} if D == 2 else {"perm-": 1, "tiny": 1}) if tier == "quick" else {"perm+": 3, "perm-": 2, "rot": 2, "tiny": 1, "tinyperm-": 1}
    out = []
    for i, (cls, name, M) in enumerate(dirs):
        if want.get(cls, 0) <= 0:
            continue
        if cls == "perm+" and tier == "quick" and np.allclose(M, M.T):
            continue  # symmetric matrices hide a transposition
        want[cls] -= 1
        out.append(i)
    return out


def history_cfg(D: int, di: int, tier: str, seed: int):
    cls, name, M = directions(D, tier, seed)[di]
    size, s, o = ((5, 4), (0.5, 1.25), (10.5, -3.25)) if D == 2 else ((5, 4, 3), (0.5, 1.25, 2.0), (10.5, -3.25, 100.0))
    return {"D": D, "size": list(size), "spacing": list(s), "origin": list(o), "direction": M.tolist(), "dir": name, "dircls": cls, "tier": "history", "seed": seed}


def setter_value(cfg, name: str, k: int):
    """The value given to the k-th (0/1) use of a setter in a history; deterministic function of the header."""
    D = cfg["D"]
    base = name.rstrip("_")
    if base == "spacing":
        fac = ((1.5, 0.4, 2.5), (0.6, 2.0, 0.5))[k][:D]
        return (np.asarray(cfg["spacing"]) * np.asarray(fac)).tolist()
    if base == "direction":
        gen = fr.generic_rotations(D, cfg.get("seed", 0) + 2, 2)[k]
        return (gen @ np.asarray(cfg["direction"])).tolist()
    if base == "origin":
        off = ((3.5, -7.25, 11.0), (-20.0, 0.75, 2.5))[k][:D]
        return (np.asarray(cfg["origin"]) + np.asarray(off)).tolist()
    if base == "center":
        off = ((-2.25, 6.5, 1.75), (40.0, -1.5, -9.0))[k][:D]
        return (np.asarray(cfg["origin"]) + np.asarray(off)).tolist()
    return None


def grid_views(g) -> bytes:
    """Fingerprint of everything a caller can observe of a grid's geometry."""
    D = g.ndim
    probe = torch.tensor([[0.0] * D, [1.0] * D, [2.5, -1.0, 0.75][:D]])
    return b"|".join([repr(tuple(g.size())).encode(), tensor_bytes(g.origin()), tensor_bytes(g.center()), tensor_bytes(g.spacing()),
                      tensor_bytes(g.direction()), tensor_bytes(g.index_to_world(probe)), tensor_bytes(g.world_to_index(probe, decimals=None))])


def run_history(sink: Sink, cfg, route: str, ops, judge_from: int = 0):
    """Execute one history [(query, setter), ...] on a fresh grid; judge the states with index >= judge_from
    (state 0 = the constructed grid, state k = after the k-th setter). Returns True if all judged states hold."""
    from deepali.core.grid import Axes, Grid
    from deepali.data import Image

    D = cfg["D"]
    cx0 = Ctx(cfg)
    suffix = f"/dir={cfg['dircls']}"
    opstr = "+".join(f"{q}>{st}" for q, st in ops) or "construct"
    case = {"sub": "history", "cfg": cfg, "route": route, "ops": [list(o) for o in ops]}
    ok = True

    def emit(step, view, kind, detail):
        nonlocal ok
        ok = False
        sink.violation(f"C02/history/{route}/{opstr}/step{step}/{view}/{kind}{suffix}", case, f"history {route}: {opstr}, state {step}: {view}: {detail}", size=len(ops))

    def judge_state(g, step):
        """All views of the live grid against the ITK image carrying the header the grid reports."""
        nonlocal ok
        sink.trans(4)
        st, h = guarded(lambda: (tuple(int(v) for v in g.size()), as_np(g.origin()), as_np(g.spacing()), as_np(g.direction())))
        if st == "raises":
            emit(step, "header", "raises=" + type(h).__name__, exc_text(h))
            return
        cfgH = dict(cfg, size=list(h[0]), origin=h[1].tolist(), spacing=h[2].tolist(), direction=h[3].tolist())
        st, cxH = guarded(Ctx, cfgH)
        if st == "raises":
            emit(step, "header", "not-an-ITK-header", exc_text(cxH))
            return
        if not check_grid_maps(sink, cxH, f"history/{route}/{opstr}/step{step}", g, f"history {route}: {opstr}, state {step}", full=True, case=case):
            ok = False
            return
        # affine() is direction @ diag(spacing) of the reported header; inverse_affine() its inverse
        sink.trans(2)
        st, r = guarded(lambda: (as_np(g.affine()), as_np(g.inverse_affine())))
        if st == "raises":
            emit(step, "affine", "raises=" + type(r).__name__, exc_text(r))
        else:
            A = h[3] * h[2][None, :]
            tolA = C * EPS32 * float(np.abs(A).max())
            if r[0].shape != A.shape or float(np.abs(r[0] - A).max()) > tolA:
                emit(step, "affine", "value", f"affine() {r[0].round(5).tolist()} vs direction()*spacing() {A.round(5).tolist()}")
            elif r[1].shape != A.shape or float(np.abs(r[1] @ A - np.eye(D)).max()) > C * EPS32 * D * float(np.abs(h[2]).max() / np.abs(h[2]).min()):
                emit(step, "inverse_affine", "value", f"inverse_affine() @ affine != I: {(r[1] @ A).round(5).tolist()}")
        # header written by Image.sitk() and the grid read back from it
        shape = tuple(int(v) for v in reversed(h[0]))
        sink.trans(2)
        st, out = guarded(lambda: Image(torch.zeros((1,) + shape), g).sitk())
        if st == "raises":
            emit(step, "Image.sitk", "raises=" + type(out).__name__, exc_text(out))
            return
        bad = cmp_header(cxH, header_of(out), header_of(cxH.img))
        if bad:
            emit(step, "Image.sitk", "header-" + bad[0], bad[1])
            return
        p2 = itk_points(out, cxH.idx)
        if float(np.abs(p2 - cxH.pts).max()) > cxH.tol_w:
            emit(step, "Image.sitk", "physical-points", f"ITK physical points of the written header differ by {np.abs(p2 - cxH.pts).max():.3e}")
        st, g2 = guarded(lambda: Grid.from_sitk(out))
        if st == "raises":
            emit(step, "from_sitk(sitk())", "raises=" + type(g2).__name__, exc_text(g2))
        else:
            bad = cmp(guarded(lambda: g2.index_to_world(torch.tensor(cxH.idx, dtype=torch.float32)))[1], cxH.pts, 2 * cxH.tol_w)
            if bad:
                emit(step, "from_sitk(sitk())", bad[0], bad[1])
        sink.outcome(cx0.key, route, opstr, step, h[1].tobytes(), h[2].tobytes(), h[3].tobytes())
        sink.state(cx0.key, route, "history", h[1].round(4).tobytes(), h[2].round(5).tobytes(), h[3].round(5).tobytes())

    # -- construct ---------------------------------------------------------
    sink.trans()
    if route == "origin":
        st, g = guarded(lambda: Grid(origin=tuple(cfg["origin"]), **grid_kwargs(cfg)))
    elif route == "center":
        st, g = guarded(lambda: Grid(center=tuple(cx0.center.tolist()), **grid_kwargs(cfg)))
    elif route == "frac-downsample":
        st, g = guarded(lambda: Grid(origin=tuple(cfg["origin"]), **grid_kwargs(cfg)).downsample())
    elif route == "frac-resample":
        st, g = guarded(lambda: Grid(origin=tuple(cfg["origin"]), **grid_kwargs(cfg)).resample(tuple(1.3 * float(v) for v in cfg["spacing"])))
    else:
        st, g = guarded(lambda: Grid.from_sitk(cx0.img))
    if st == "raises":
        emit(0, "construct", "raises=" + type(g).__name__, exc_text(g))
        return False
    if judge_from <= 0:
        judge_state(g, 0)
        if not ok:
            return False
    used = {}
    for step, (q, setter) in enumerate(ops, start=1):
        # -- query (fills whatever the implementation may cache) --------------
        idx = torch.tensor(cx0.idx[:4], dtype=torch.float32)
        qfn = {
            "none": lambda: None, "affine": lambda: g.affine(), "inverse_affine": lambda: g.inverse_affine(), "origin": lambda: g.origin(),
            "index_to_world": lambda: g.index_to_world(idx), "world_to_index": lambda: g.world_to_index(idx), "transform": lambda: g.transform(Axes.GRID, Axes.WORLD),
        }[q]
        sink.trans()
        st, r = guarded(qfn)
        if st == "raises":
            emit(step, "query-" + q, "raises=" + type(r).__name__, exc_text(r))
            return False
        # -- setter -----------------------------------------------------------
        base = setter.rstrip("_")
        k = used.get(base, 0)
        used[base] = k + 1
        inplace = setter.endswith("_")
        st, before = guarded(lambda: (grid_views(g), tuple(g.size()), as_np(g.spacing()).copy(), as_np(g.direction()).copy(), g.align_corners()))
        if st == "raises":
            emit(step, "views", "raises=" + type(before).__name__, exc_text(before))
            return False
        if setter == "clone":
            val = None
            call = lambda: g.clone()  # noqa: E731
        elif base == "align_corners":
            val = not before[4]
            call = lambda: getattr(g, setter)(val)  # noqa: E731
        else:
            val = setter_value(cfg, setter, k)
            call = lambda: getattr(g, setter)(tuple(val) if base != "direction" else val)  # noqa: E731
        sink.trans()
        st, res = guarded(call)
        if st == "raises":
            emit(step, setter, "raises=" + type(res).__name__, exc_text(res))
            return False
        if not isinstance(res, Grid):
            emit(step, setter, "type", f"returned {type(res).__name__}")
            return False
        if not inplace:
            # copying form: the grid it was called on is untouched, the result is another object
            st, after = guarded(grid_views, g)
            if st == "raises" or after != before[0] or g.align_corners() != before[4]:
                emit(step, setter, "source-grid-changed", "the grid the copying setter was called on changed")
                return False
            if res is g:
                emit(step, setter, "not-a-copy", "copying form returned the same object")
                return False
            g = res
        # else: in-place form: keep judging the SAME object g
        # read back what was set; the attributes not addressed by the setter are unchanged
        st, now = guarded(lambda: (tuple(g.size()), as_np(g.spacing()), as_np(g.direction()), g.align_corners(), as_np(g.origin()), as_np(g.center())))
        if st == "raises":
            emit(step, setter, "raises=" + type(now).__name__, exc_text(now))
            return False
        mag = C * EPS32 * float(np.abs(now[4]).max() + np.abs(now[5]).max() + np.abs(now[1] * np.asarray(now[0])).max() + 1.0)
        if base == "spacing" and float(np.abs(now[1] - np.asarray(val)).max()) > C * EPS32 * max(val):
            emit(step, setter, "readback", f"spacing() {now[1].tolist()} after setting {val}")
        if base == "direction" and float(np.abs(now[2] - np.asarray(val)).max()) > C * EPS32:
            emit(step, setter, "readback", f"direction() {now[2].round(6).tolist()} after setting {np.asarray(val).round(6).tolist()}")
        if base == "origin" and float(np.abs(now[4] - np.asarray(val)).max()) > mag:
            emit(step, setter, "readback", f"origin() {now[4].tolist()} after setting {val}")
        if base == "center" and float(np.abs(now[5] - np.asarray(val)).max()) > mag:
            emit(step, setter, "readback", f"center() {now[5].tolist()} after setting {val}")
        if base == "align_corners" and now[3] != val:
            emit(step, setter, "readback", f"align_corners() {now[3]} after setting {val}")
        if now[0] != before[1]:
            emit(step, setter, "size-changed", f"size {now[0]} was {before[1]}")
        if base != "spacing" and not np.array_equal(now[1], before[2]):
            emit(step, setter, "spacing-changed", f"spacing {now[1].tolist()} was {before[2].tolist()}")
        if base != "direction" and not np.array_equal(now[2], before[3]):
            emit(step, setter, "direction-changed", "direction changed by a setter that does not address it")
        if base != "align_corners" and now[3] != before[4]:
            emit(step, setter, "flag-changed", "align_corners changed by a setter that does not address it")
        if base in ("align_corners", "clone"):
            st, after = guarded(grid_views, g)
            if st == "raises" or after != before[0]:
                emit(step, setter, "geometry-changed", "the geometry changed although only the flag was set / the grid was cloned")
        if not ok:
            return False
        if step >= judge_from:
            judge_state(g, step)
            if not ok:
                return False
    sink.trace("history", depth=len(ops))
    return True


def explore_histories(sink: Sink, cfg, route: str, tier: str):
    """All histories (query, setter){1..H_DEPTH} from one construction route; states are rebuilt by replaying
    the history on a fresh grid; a history is extended only if all its states held."""
    Q, S = H_QUERIES[tier], H_SETTERS
    if not run_history(sink, cfg, route, []):
        return
    for q1 in Q:
        for s1 in S:
            if not run_history(sink, cfg, route, [(q1, s1)], judge_from=1):
                continue
            if H_DEPTH < 2:
                continue
            for q2 in H_QUERIES2[tier]:
                for s2 in S:
                    run_history(sink, cfg, route, [(q1, s1), (q2, s2)], judge_from=2)


def run_config(sink: Sink, cfg, tmpdir: str, only: str = None):
    cx = Ctx(cfg)
    R = np.asarray(cfg["direction"], dtype=np.float64)
    for sub in SUBS:
        if only is not None and sub != only:
            continue
        if sub == "construct-origin":
            sub_construct_origin(sink, cx)
        elif sub == "construct-center":
            sub_construct_center(sink, cx)
        elif sub == "from_sitk":
            sub_from_sitk(sink, cx)
        elif sub == "chain":
            sub_chain(sink, cx)
        elif sub == "file":
            sub_file(sink, cx, tmpdir)
        elif sub == "gridattrs":
            sub_gridattrs(sink, cx)
        elif sub == "aliasing":
            sub_aliasing(sink, cx)
        elif sub == "layout":
            # reduced menu: one size per (spacing, origin, direction) and the large almost-aligned images
            if cfg["size"][0] in (5, 512, 400):
                sub_layout(sink, cx)
    if only is None and (not np.allclose(R, np.eye(cx.D)) or np.abs(np.asarray(cfg["origin"])).max() > 0):
        sink.nontriv(cx.key)


def shards(tier: str, seed: int):
    out = []
    for D in (2, 3):
        for di in range(len(directions(D, tier, seed))):
            out.append({"tier": tier, "seed": seed, "D": D, "dir": di})
    for D in (2, 3):
        for di in history_dirs(D, tier, seed):
            for route in H_ROUTES:
                out.append({"kind": "history", "tier": tier, "seed": seed, "D": D, "dir": di, "route": route})
    return out


def _tmpdir():
    return tempfile.mkdtemp(prefix="deepali-verif-c02-", dir=os.environ.get("VERIF_TMP", "/var/tmp"))


def run_shard(shard) -> Acc:
    acc = Acc()
    sink = Sink(acc)
    if shard.get("kind") == "history":
        cfg = history_cfg(shard["D"], shard["dir"], shard["tier"], shard["seed"])
        explore_histories(sink, cfg, shard["route"], shard["tier"])
        sink.nontriv("history", shard["D"], shard["dir"], shard["route"])
        acc.sample({"sub": "history", "route": shard["route"], "header": {k: cfg[k] for k in ("size", "spacing", "origin", "direction")},
                    "example": [["affine", "spacing_"], ["origin", "direction"]], "judged": "every view vs the ITK image carrying the header the grid reports, in every state"})
        return acc
    tmpdir = _tmpdir()
    try:
        cfgs = configs(shard["D"], shard["dir"], shard["tier"], shard["seed"])
        for k, cfg in enumerate(cfgs):
            run_config(sink, cfg, tmpdir)
            if k == len(cfgs) - 1 and len(acc.samples) < 1:
                acc.sample({"header": {k2: cfg[k2] for k2 in ("size", "spacing", "origin", "direction")}, "routes": list(SUBS), "index_lattice_points": len(index_lattice(cfg["size"], cfg["tier"]))})
    finally:
        shutil.rmtree(tmpdir, ignore_errors=True)
    return acc


def replay(case):
    sink = Sink(None)
    if case["sub"] == "history":
        run_history(sink, case["cfg"], case["route"], [tuple(o) for o in case["ops"]])
        return sink.out
    tmpdir = _tmpdir()
    try:
        run_config(sink, case["cfg"], tmpdir, only=case["sub"])
    finally:
        shutil.rmtree(tmpdir, ignore_errors=True)
    return sink.out
