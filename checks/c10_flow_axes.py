"""C10 - flow fields mean the same displacement in every vector representation.

Frame graph: nodes = {GRID, CUBE, CUBE_CORNERS, WORLD}; edges = FlowField(s).axes(to).  A configuration
is (D, oriented grid, batch form, field); the same world displacement field is built independently by the
float64 reference in each of the four start representations.

Sub-checks
  axes    every path of `depth` edges from every start node (4^(depth+1) paths, complete), judged at
          EVERY node: value == reference representation, label/grids/type preserved, edge ==
          Grid.transform_vectors, closed path returns the start tensor, open path equals the direct edge
  warp    warp_image(image) from every start representation == numpy reference (image sampled at x + u(x))
          and identical across representations
  sample  sample(target grid) for the target-grid menu == numpy reference resampling of the world field,
          result expressed w.r.t. the new grid in the same axes, batch size preserved
  exp     exp(scale, steps) == numpy scaling-and-squaring of the world field, identical across starts
  sitk    FlowField.sitk() stores world vectors (+ explicit axes forms); from_sitk(...).axes(a) returns
  file    FlowField.write / read through a .nrrd file (formats are C18's business)
  default axes=None at construction means CUBE_CORNERS / CUBE by the grid's align_corners flag
  tovec   Grid.transform_vectors(v, a, b, to_grid=target) for all 4x4 (a, b) and every sample target == reference
  history on ONE object: op, op again (bit-identical, receiver untouched), in-place update of the vectors
          (mul_, add_, tensor().copy_), op again == the op on a fresh object with the updated vectors; op in
          {axes(b) x 4, warp_image, exp}
  livegrid LIVE Grid objects: a grid that has served conversions / sampling is derived (resize, downsample, upsample,
          resample, crop, pad), all orders up to depth 3; every conversion a -> b of fields built on EVERY live grid
          (derived and parents) and sampling of root-grid fields onto the derived grid == float64 vector map of the
          attributes the grid reports
  relabel ONE live FlowField / FlowFields: observe (axes x 3, exp, warp_image, sample), relabel the grid in place
          grid_(g2) (two alternative same-size grids), copy form grid(g2), in-place mul_ of the vectors, observe again;
          all orders up to depth 3 with >= 1 mutator; reference recomputed from the current (data, grid, axes) record
  layout  the vector data given as transposed view / step-sliced view / stride-0 expanded batch (reduced menu): every
          flow-object operation and the plain-tensor functional forms == the contiguous form, operand untouched
  helpers core/flow.py normalize_flow / denormalize_flow (argument-form product) == GRID <-> CUBE[_CORNERS]
"""
from __future__ import annotations

import itertools
import os
import shutil
import tempfile

import numpy as np
import torch

from mc.core import Acc, h64, tensor_bytes
from mc.core import exc_text as _exc_text
from mc.core import guarded as _guarded
from ref import flowfield as ff
from ref import grid as rg
from ref.grid import AXES, WORLD, RefGrid


def guarded(fn, *a, **kw):
    """mc.core.guarded + defusing of the caught exception: its text (with the deepali file:line) is computed at once and
    the traceback frames are cleared immediately. Otherwise the frames of the failed library call (e.g. a BytesIO with an
    exported memoryview inside the MetaImage reader) stay alive until the cyclic garbage collector frees them in
    arbitrary order, which was seen to crash the interpreter (segmentation fault during GC) on a mutated tree."""
    import traceback

    st, v = _guarded(fn, *a, **kw)
    if st == "raises":
        try:
            v._verif_text = _exc_text(v)
            traceback.clear_frames(v.__traceback__)
        except Exception:  # noqa: BLE001
            pass
        v.__traceback__ = None
        v.__context__ = None
        v.__cause__ = None
    return st, v


def exc_text(e):
    return getattr(e, "_verif_text", None) or _exc_text(e)


def _sweep_stale_tmp(prefix="c10-", older_than_s=3600.0):
    """Temp directories of workers that were killed (pool.terminate on a budget cap) never reach their `finally`:
    remove our own leftovers that are older than an hour. Never part of any hash or verdict."""
    import os, shutil, time

    root = os.environ.get("VERIF_TMP", "/var/tmp")
    try:
        for name in os.listdir(root):
            if name.startswith(prefix):
                q = os.path.join(root, name)
                if time.time() - os.path.getmtime(q) > older_than_s:
                    shutil.rmtree(q, ignore_errors=True)
    except OSError:
        pass


PROPERTY = "C10"
RULE = (
    "complete product D x grid menu x batch form x field kind; per configuration every axes() path of the tier "
    "depth from each of the 4 start representations (judged at every node) and every (operation, argument form, "
    "start representation) triple of warp_image / sample / exp / sitk / write-read; plus complete histories up to depth 3 on LIVE objects "
    "(grids derived from an already-used parent grid; one flow object observed, relabelled by grid_()/grid(), updated in place, observed again); plus a reduced memory-layout menu (vector data as transposed / step-sliced / stride-0 expanded view through every flow operation and the plain-tensor forms); distinct outcome = bit pattern "
    "of the returned tensor + label; non-trivial = the result differs from its input tensor by more than 1e-3 relative"
)
EXPLANATION = "frame-graph exploration of flow-field representations, stateless and on live objects (histories of grid derivations, relabelling and in-place updates up to depth 3) and on non-contiguous vector data, against a float64 world-space denotation"
ASSUMPTIONS = [
    "a flow field is denoted by its world displacement at the sample positions; inputs are float32 casts of the reference representation, the denotation is taken from the cast input",
    "tolerances: 64 x 2^-23 x depth x (max spacing / min spacing) x max|u| for vector conversions; interpolating operations: 64 x 2^-23 x depth x value scale x (cond + n/2 [+ |world position| / min spacing when sampling between grids]) = coordinate rounding times the steepest slope",
    "warp_image is only judged with the image on the same grid as the flow field (the API ignores the image grid)",
    "zeros and border padding only (continuous in the coordinates, identical for both align_corners conventions); linear interpolation",
    "CPU float32; D in {2,3}; sizes <= 9 per axis; path depth 3 (quick) / 4 (thorough, forms single and perfield2; 3 for the others)",
]
MIN_NONTRIVIAL = {"quick": 50000, "thorough": 150000}
MIN_OUTCOMES = {"quick": 50000, "thorough": 150000}
MIN_SUB_TRACES = {"axes": 20000, "warp": 800, "sample": 3000, "exp": 1000, "sitk": 300, "file": 300, "helpers": 800, "tovec": 4000, "history": 4000, "livegrid": 1000, "relabel": 20000, "layout": 80}

EPS32 = 2.0 ** -23
C = 64.0
FORMS = ("single", "batch1", "shared2", "perfield2")


# ---------------------------------------------------------------------------
# configuration lattice
def geometries(D: int, tier: str, seed: int):
    dirs = rg.direction_menu(D, seed)
    if D == 2:
        g = [
            ("u54", (5, 4), (1.0, 1.0), (0.0, 0.0), "id"),
            ("p54", (5, 4), (0.5, 1.25), (10.5, -3.25), "perm"),
            ("r73", (7, 3), (0.5, 1.25), (0.0, 0.0), "rot"),
            ("r26", (2, 6), (1.25, 0.5), (10.5, -3.25), "rot"),
        ]
        if tier == "thorough":
            g += [
                ("i86", (8, 6), (0.5, 1.25), (10.5, -3.25), "id"),
                ("p38", (3, 8), (1.25, 0.5), (0.0, 0.0), "perm"),
                ("r55", (5, 5), (1.0, 1.0), (10.5, -3.25), "rot"),
                ("r92", (9, 2), (0.3, 0.45), (0.0, 0.0), "rot"),
                ("i45", (4, 5), (0.3, 0.45), (0.0, 0.0), "id"),
                ("p67", (6, 7), (0.5, 1.25), (10.5, -3.25), "perm"),
                ("r34", (3, 4), (2.0, 0.5), (0.0, 0.0), "rot"),
                ("u22", (2, 2), (1.0, 1.0), (0.0, 0.0), "id"),
            ]
    else:
        g = [
            ("u432", (4, 3, 2), (1.0, 1.0, 1.0), (0.0, 0.0, 0.0), "id"),
            ("p435", (4, 3, 5), (0.5, 1.25, 2.0), (10.5, -3.25, 100.0), "perm"),
            ("r354", (3, 5, 4), (0.5, 1.25, 2.0), (0.0, 0.0, 0.0), "rot"),
            ("r523", (5, 2, 3), (2.0, 0.5, 1.25), (10.5, -3.25, 100.0), "rot"),
        ]
        if tier == "thorough":
            g += [
                ("i543", (5, 4, 3), (0.5, 1.25, 2.0), (10.5, -3.25, 100.0), "id"),
                ("p246", (2, 4, 6), (1.25, 0.5, 2.0), (0.0, 0.0, 0.0), "perm"),
                ("r444", (4, 4, 4), (1.0, 1.0, 1.0), (10.5, -3.25, 100.0), "rot"),
                ("r632", (6, 3, 2), (0.3, 0.45, 0.6), (0.0, 0.0, 0.0), "rot"),
                ("i335", (3, 3, 5), (0.3, 0.45, 0.6), (0.0, 0.0, 0.0), "id"),
                ("p453", (4, 5, 3), (0.5, 1.25, 2.0), (10.5, -3.25, 100.0), "perm"),
                ("r234", (2, 3, 4), (2.0, 0.5, 1.25), (0.0, 0.0, 0.0), "rot"),
                ("u222", (2, 2, 2), (1.0, 1.0, 1.0), (0.0, 0.0, 0.0), "id"),
            ]
    out = []
    for name, size, sp, org, dname in g:
        out.append((name, {"size": list(size), "spacing": list(sp), "origin": list(org), "direction": dirs[dname], "dir": dname}))
    return out


def field_kinds(tier: str):
    return ("affine", "smooth") if tier == "quick" else ("affine", "smooth", "big")


def forms(tier: str):
    return FORMS if tier == "quick" else FORMS + ("perfield3",)


def configs(tier: str, seed: int):
    out = []
    for D in (2, 3):
        geo = geometries(D, tier, seed)
        for gi, (gname, gspec) in enumerate(geo):
            for ac in (True, False):
                for form in forms(tier):
                    for fk in field_kinds(tier):
                        n_items = {"single": 1, "batch1": 1, "shared2": 2, "perfield2": 2, "perfield3": 3}[form]
                        grids = []
                        for j in range(n_items):
                            if j == 0 or form == "shared2":
                                s = dict(gspec)
                                s["ac"] = ac
                            else:
                                # a different geometry with the same number of samples; flag flipped for odd gi
                                other = geo[(gi + j) % len(geo)][1]
                                s = dict(other)
                                s["size"] = list(gspec["size"])
                                s["ac"] = (not ac) if (gi + j) % 2 else ac
                            grids.append(s)
                        fields = []
                        for j, s in enumerate(grids):
                            r = rg.ref_grid(s)
                            kind, amp = (fk, 1.0) if fk != "big" else ("smooth", 2.0)
                            fields.append(ff.make_field(kind, r, seed + j + (1 if fk == "smooth" else 0), amp))
                        cfg = {
                            "D": D, "gname": gname + ("-T" if ac else "-F"), "form": form, "fkind": fk,
                            "grids": grids, "fields": fields, "tier": tier,
                        }
                        if relabel_enabled(tier, form, fk):
                            cfg["alt"] = alt_grids(geo, gi, grids, D)
                        out.append(cfg)
    return out


def relabel_enabled(tier: str, form: str, fk: str) -> bool:
    if tier == "thorough":
        return fk == "affine" and form != "batch1"
    return fk == "affine" and form in ("single", "shared2", "perfield2")


def alt_grids(geo, gi: int, grids, D: int):
    """Two alternative grid lists of the SAME size for the in-place relabelling grid_(g2): A = another geometry of the
    menu with the flag flipped; B = the same geometry re-spaced, rotated by 20 degrees and shifted."""
    A, B = [], []
    for j, g in enumerate(grids):
        other = geo[(gi + j + 2) % len(geo)][1]
        a = dict(other)
        a["size"] = list(g["size"])
        a["ac"] = not g["ac"]
        A.append(a)
        r = rg.ref_grid(g)
        sp = [float(v) for v in (r.s * np.array([1.5, 0.75, 1.25][:D]))]
        b = {"size": list(g["size"]), "spacing": sp, "center": [float(v) for v in (r.c + 0.3 * r.s)],
             "direction": (r.R @ ff.rot_about(D, 20.0)).tolist(), "ac": bool(g["ac"])}
        B.append(b)
    return {"A": A, "B": B}


def depth_of(tier: str, form: str = "single") -> int:
    """axes() path depth: 3; in the thorough tier 4 for the FlowField and the per-field-grid batch form."""
    return 4 if (tier == "thorough" and form in ("single", "perfield2")) else 3


def bounds(tier):
    cf = configs(tier, 0)
    return {
        "configurations": len(cf),
        "grids_per_D": len(geometries(2, tier, 0)) * 2,
        "batch_forms": list(forms(tier)),
        "field_kinds": list(field_kinds(tier)),
        "axes_path_depth": {f: depth_of(tier, f) for f in forms(tier)},
        "axes_paths_per_configuration": {f: 4 ** (depth_of(tier, f) + 1) for f in forms(tier)},
        "exp_menu": [list(x) for x in exp_menu(tier)],
        "sample_targets": target_names(tier),
        "layout": {"forms": list(LAYOUTS), "configurations": sum(1 for c in cf if layout_enabled(c)), "starts": 4,
                   "operations": ["axes x3", "exp", "sample", "warp_image", "warp_image(image view)", "Grid.transform_vectors x3", "normalize_flow", "denormalize_flow", "expv", "warp_image(flow view)", "sample_flow", "compose_flows"]},
        "livegrid": {"alphabet": list(LG_OBS + LG_DERIVE), "depth": 3, "histories_per_configuration": len(livegrid_histories(tier)),
                     "configurations": sum(1 for c in cf if c["form"] == "single" and (tier == "thorough" or c["fkind"] == "affine"))},
        "relabel": {"alphabet": list(RL_OBS + RL_MUT), "depth": 3, "histories_per_configuration_and_start": len(relabel_histories(tier)),
                    "configurations": sum(1 for c in cf if c.get("alt"))},
        "paddings": ["default(zeros)", "border"],
    }


def exp_menu(tier):
    m = [(None, 0), (None, 3), (None, 5), (-0.5, 2)]
    if tier == "thorough":
        m += [(2.0, 0), (None, 1), (None, None), (0.5, 4)]
    return m


def target_names(tier):
    t = ["same", "flipac", "finer", "sub", "rot", "outside", "resT", "resF"]
    if tier == "thorough":
        t += ["coarse", "rot2"]
    return t


# ---------------------------------------------------------------------------
# target grids for sample(), derived from the source grid spec in float64
def target_spec(src: dict, name: str, item: int = 0) -> dict:
    r = rg.ref_grid(src)
    D = r.D
    n = r.n
    t = {"size": [int(v) for v in n], "spacing": [float(v) for v in r.s], "center": [float(v) for v in r.c],
         "direction": r.R.tolist(), "ac": bool(src["ac"])}
    if name == "same":
        return t
    if name == "flipac":
        t["ac"] = not src["ac"]
        return t
    if name in ("resT", "resF"):
        # same flag as the source, another size: resT keeps the corner samples (Grid.resize with align_corners=True),
        # resF keeps the extent n * s (align_corners=False). For the source flag T (F) the target resT (resF) has the
        # same Grid.domain() as the source, although CUBE (CUBE_CORNERS) vectors still change by n(m-1)/((n-1)m).
        m = n + 3
        t["size"] = [int(v) for v in m]
        t["spacing"] = [float(v) for v in (r.s * (n - 1) / (m - 1) if name == "resT" else r.s * n / m)]
        return t
    if name == "finer":
        t["size"] = [int(2 * v - 1) for v in n]
        t["spacing"] = [float(v) / 2 for v in r.s]
        t["ac"] = not src["ac"]
        return t
    if name == "coarse":
        t["size"] = [max(int(np.ceil(v / 2)), 2) for v in n]
        t["spacing"] = [float(v) * 1.7 for v in r.s]
        return t
    if name == "sub":
        t["size"] = [max(int(v) - 2, 2) for v in n]
        t["center"] = [float(v) for v in r.index_to_world((n - 1) / 2 + 0.25)]
        return t
    if name in ("rot", "rot2"):
        deg = 20.0 if name == "rot" else -65.0
        t["size"] = [3, 4, 3][:D] if name == "rot" else [int(v) for v in n]
        t["spacing"] = [float(np.mean(r.s)) * 0.6] * D if name == "rot" else [float(v) for v in r.s[::-1]]
        t["direction"] = (r.R @ ff.rot_about(D, deg)).tolist()
        t["ac"] = not src["ac"]
        return t
    if name == "outside":
        t["center"] = [float(v) for v in r.index_to_world((n - 1) / 2 + n * 0.45)]
        return t
    raise KeyError(name)


# ---------------------------------------------------------------------------
class Ctx:
    """Reference state of one configuration + builders of the real objects."""

    def __init__(self, cfg: dict):
        self.cfg = cfg
        self.form = cfg["form"]
        self.D = cfg["D"]
        self.N = len(cfg["grids"])
        self.single = self.form == "single"
        self.rgrids = [rg.ref_grid(s) for s in cfg["grids"]]
        self.u = [ff.field_on_grid(f, r) for f, r in zip(cfg["fields"], self.rgrids)]  # intended world field
        self.umax = max(float(np.abs(u).max()) for u in self.u)
        self.smin = min(float(r.s.min()) for r in self.rgrids)
        self.cond = max(ff.cond_spacing(r) for r in self.rgrids)
        self.nmax = max(float(r.n.max()) for r in self.rgrids)
        self.uscale = max(self.umax, 1e-3 * self.smin)

    # real objects ------------------------------------------------------
    def real_grids(self):
        if self.form == "shared2":
            g = rg.real_grid(self.cfg["grids"][0])
            return [g] * self.N
        return [rg.real_grid(s) for s in self.cfg["grids"]]

    def start_arrays(self, a: str):
        return [ff.represent(r, u, a).astype(np.float32) for r, u in zip(self.rgrids, self.u)]

    def denotation(self, a: str):
        """World field actually denoted by the float32 start tensors in representation a."""
        return [ff.to_world(r, v.astype(np.float64), a) for r, v in zip(self.rgrids, self.start_arrays(a))]

    def build(self, a: str):
        from deepali.core.grid import Axes
        from deepali.data.flow import FlowField, FlowFields

        grids = self.real_grids()
        arrs = self.start_arrays(a)
        if self.single:
            return FlowField(torch.from_numpy(arrs[0].copy()), grids[0], Axes(a)), grids
        data = torch.from_numpy(np.stack(arrs, axis=0))
        garg = grids[0] if self.form in ("batch1", "shared2") else list(grids)
        return FlowFields(data, garg, Axes(a)), grids

    # tolerances -------------------------------------------------------
    def tol_vec(self, depth: int) -> float:
        return C * EPS32 * max(depth, 1) * self.cond * self.uscale

    def tol_interp(self, scale: float, depth: int = 1, pos_scale: float = 0.0) -> float:
        """Interpolating operations: vector conversion (cond) + coordinate rounding in index units
        (n/2 for cube coordinates; |world position| / spacing when points are mapped between two grids
        through world space) times the steepest slope (value scale per sample, at a zero-padded border)."""
        return C * EPS32 * max(depth, 1) * scale * (self.cond + self.nmax / 2.0 + pos_scale / self.smin)


def items_of(F, single: bool):
    """Float64 arrays (C, *shape) per batch item of a returned image / flow object."""
    t = F.tensor().detach()
    if single:
        return [t.double().numpy()]
    return [t[j].double().numpy() for j in range(t.shape[0])]


def grids_of(F, single: bool):
    if single:
        return [F.grid()]
    return list(F.grids())


def same_geometry(g, r: RefGrid, tol_rel: float = 64 * EPS32):
    """Real grid g has the geometry of reference grid r (flag not compared)."""
    o = RefGrid.from_real(g)
    if o.D != r.D or not np.array_equal(o.n, r.n):
        return False
    sc = r.scale()
    return bool(
        np.all(np.abs(o.s - r.s) <= tol_rel * r.s)
        and np.all(np.abs(o.c - r.c) <= tol_rel * sc)
        and np.all(np.abs(o.R - r.R) <= 8 * EPS32)
    )


def grid_key(g) -> bytes:
    return b"|".join([tensor_bytes(g._size), tensor_bytes(g._center), tensor_bytes(g._spacing), tensor_bytes(g._direction), b"T" if g._align_corners else b"F"])


def result_key(F, single):
    def key():
        lab = str(F._axes) if hasattr(F, "_axes") else ""
        return (type(F).__name__, tensor_bytes(F.tensor()), lab, b"".join(grid_key(g) for g in grids_of(F, single)))

    st, k = guarded(key)
    return k if st == "ok" else ("unobservable", type(F).__name__)


class Rec:
    """Collects problems of one case: list of (sig, detail)."""

    def __init__(self):
        self.problems = []
        self.trans = 0
        self.results = []  # observed result keys (outcomes)
        self.nontrivial = 0
        self.undef = []

    def add(self, sig, detail):
        self.problems.append((sig, detail))

    def call(self, fn, *a, **kw):
        self.trans += 1
        return guarded(fn, *a, **kw)


def _flow_meta(rec: Rec, pre: str, ctx: Ctx, res, a: str, grids, expect_single: bool, check_grids=True):
    """Type / label / grid bookkeeping of a returned flow object. Returns False if values cannot be judged."""
    from deepali.core.grid import Axes
    from deepali.data.flow import FlowField, FlowFields

    want = FlowField if expect_single else FlowFields
    if not isinstance(res, want):
        rec.add(f"{pre}/type", f"returned {type(res).__name__}, expected {want.__name__}")
        return False
    st, lab = guarded(res.axes)
    if st == "raises" or lab is not Axes(a):
        rec.add(f"{pre}/label", f"axes() is {lab!r}, expected {a}")
        return False
    if check_grids:
        st, gs = guarded(grids_of, res, expect_single)
        if st == "raises" or len(gs) != len(grids):
            rec.add(f"{pre}/grid-count", f"{'?' if st == 'raises' else len(gs)} grids, expected {len(grids)}")
            return False
        for j, (g, g0) in enumerate(zip(gs, grids)):
            if not (g is g0 or grid_key(g) == grid_key(g0)):
                rec.add(f"{pre}/grid", f"item {j}: grid differs from the input's grid")
                return False
    return True


# ---------------------------------------------------------------------------
# sub-check: axes paths
def axes_node(rec: Rec, ctx: Ctx, a0: str, F0, grids, den, prev, a_prev: str, a: str, depth: int, direct=None):
    """Execute one edge and judge the node; a result that cannot even be observed is a violation, never a crash."""
    try:
        return _axes_node(rec, ctx, a0, F0, grids, den, prev, a_prev, a, depth, direct)
    except Exception as e:  # noqa: BLE001 - e.g. a mutated tree returning an object without tensor()/grid()
        rec.add(f"C10/axes/{ctx.form}/{a_prev}->{a}/unobservable/raises={type(e).__name__}", exc_text(e))
        return None


def _axes_node(rec: Rec, ctx: Ctx, a0: str, F0, grids, den, prev, a_prev: str, a: str, depth: int, direct=None):
    """Execute one edge prev.axes(a) and judge the reached node. Returns the new object or None."""
    from deepali.core.grid import Axes

    form = ctx.form
    pre = f"C10/axes/{form}/{a_prev}->{a}"
    st, res = rec.call(prev.axes, Axes(a))
    if st == "raises":
        rec.add(f"{pre}/raises={type(res).__name__}", exc_text(res))
        return None
    if not _flow_meta(rec, pre, ctx, res, a, grids, ctx.single):
        return None
    st, obs = guarded(items_of, res, ctx.single)
    if st == "raises" or len(obs) != ctx.N or any(o.shape != u.shape for o, u in zip(obs, den)):
        rec.add(f"{pre}/shape", f"tensor shape {getattr(res, 'shape', None)}")
        return None
    tol = ctx.tol_vec(depth + 1)
    bad = False
    for j, (o, r, u) in enumerate(zip(obs, ctx.rgrids, den)):
        err = float(np.abs(ff.to_world(r, o, a) - u).max())
        if not err <= tol:
            rec.add(f"{pre}/value", f"item {j}: world error {err:.3e} > tol {tol:.2e} (max|u| {ctx.umax:.3g}) after path from {a0} depth {depth}")
            bad = True
    # differential: the edge is the grid's own vector map
    st, pobs = guarded(lambda: prev.tensor().detach())
    if st == "ok":
        for j, g in enumerate(grids):
            v = pobs if ctx.single else pobs[j]
            v = v.movedim(0, -1)
            rec.trans += 1
            st2, w = guarded(g.transform_vectors, v, axes=Axes(a_prev), to_axes=Axes(a))
            if st2 == "raises":
                rec.add(f"C10/transform_vectors/{a_prev}->{a}/raises={type(w).__name__}", exc_text(w))
                continue
            w = w.movedim(-1, 0).double().numpy()
            sc = max(float(np.abs(w).max()), 1e-30)
            d = float(np.abs(w - obs[j]).max())
            if not d <= 8 * EPS32 * sc:
                rec.add(f"{pre}/vs-transform_vectors", f"item {j}: axes() differs from Grid.transform_vectors by {d:.3e} (scale {sc:.3g})")
                bad = True
    # closed / open path relations (in world units, through the reference map)
    if depth >= 1 and not bad:
        if a == a0:
            st, s0 = guarded(items_of, F0, ctx.single)
            for j, (o, r) in enumerate(zip(obs, ctx.rgrids)):
                d = float(np.abs(ff.to_world(r, o - s0[j], a)).max())
                if not d <= tol:
                    rec.add(f"C10/axes/{form}/closed-path/start={a0}", f"item {j}: returned to {a0} with world difference {d:.3e} > {tol:.2e}")
        elif direct is not None:
            dres = direct(a)
            if dres is not None:
                st, d0 = guarded(items_of, dres, ctx.single)
                if st == "ok":
                    for j, (o, r) in enumerate(zip(obs, ctx.rgrids)):
                        d = float(np.abs(ff.to_world(r, o - d0[j], a)).max())
                        if not d <= tol:
                            rec.add(f"C10/axes/{form}/open-path/{a0}->{a}", f"item {j}: path result differs from the direct edge by {d:.3e} > {tol:.2e}")
    rec.results.append(result_key(res, ctx.single))
    if a != a_prev:
        stp, pp = guarded(lambda: prev.tensor().detach().double().numpy())
        if stp == "ok":
            cur = obs[0] if ctx.single else np.stack(obs)
            if pp.shape == cur.shape and float(np.abs(pp - cur).max()) > 1e-3 * max(float(np.abs(pp).max()), 1e-30):
                rec.nontrivial += 1
    return None if bad else res


def run_axes_path(ctx: Ctx, a0: str, path):
    """Linear execution of one path (replay and per-path runs)."""
    rec = Rec()
    st, built = guarded(ctx.build, a0)
    if st == "raises":
        rec.add(f"C10/construct/{ctx.form}/start={a0}/raises={type(built).__name__}", exc_text(built))
        return rec
    F0, grids = built
    den = ctx.denotation(a0)
    cache = {}

    def direct(b):
        from deepali.core.grid import Axes

        if b not in cache:
            st, r = guarded(F0.axes, Axes(b))
            cache[b] = r if st == "ok" else None
        return cache[b]

    cur, a_prev = F0, a0
    for depth, a in enumerate(path):
        cur = axes_node(rec, ctx, a0, F0, grids, den, cur, a_prev, a, depth, direct)
        if cur is None:
            break
        a_prev = a
    return rec


def explore_axes(acc: Acc, ctx: Ctx, depth_max: int):
    cfg = ctx.cfg
    for a0 in AXES:
        st, built = guarded(ctx.build, a0)
        if st == "raises":
            acc.violation(f"C10/construct/{ctx.form}/start={a0}/raises={type(built).__name__}", {"cfg": cfg, "sub": "axes", "start": a0, "path": []}, exc_text(built), size=0)
            continue
        F0, grids = built
        den = ctx.denotation(a0)
        acc.state(result_key(F0, ctx.single))
        cache = {}

        def direct(b, F0=F0, cache=cache):
            from deepali.core.grid import Axes

            if b not in cache:
                st, r = guarded(F0.axes, Axes(b))
                cache[b] = r if st == "ok" else None
            return cache[b]

        def dfs(cur, a_prev, path):
            for a in AXES:
                rec = Rec()
                nxt = axes_node(rec, ctx, a0, F0, grids, den, cur, a_prev, a, len(path), direct)
                p2 = path + [a]
                acc.trans(rec.trans)
                case = {"cfg": cfg, "sub": "axes", "start": a0, "path": p2}
                for sig, detail in rec.problems:
                    acc.violation(sig, case, detail, size=len(p2))
                for k in rec.results:
                    acc.state(k)
                    acc.outcome(k)
                    if rec.nontrivial:
                        acc.nontriv(k)
                acc.trace("axes", depth=len(p2))
                if nxt is not None and len(p2) < depth_max:
                    dfs(nxt, a, p2)
                elif len(p2) == depth_max and len(acc.samples) < 1 and a != a_prev:
                    acc.sample({"config": {k: cfg[k] for k in ("D", "gname", "form", "fkind")}, "sub": "axes", "start": a0, "path": p2, "verdict": "ok" if not rec.problems else "violation"})

        dfs(F0, a0, [])


def cross_pass(rec: Rec, got):
    """got: list of (start, sig prefix, [world arrays per item], passed its own value check, tol).
    Every start is compared with the first start that passed its absolute check (else with the first)."""
    if len(got) < 2:
        return
    base = next((g for g in got if g[3]), got[0])
    for g in got:
        if g is base or len(g[2]) != len(base[2]):
            continue
        for j, (x, y) in enumerate(zip(g[2], base[2])):
            if x.shape != y.shape:
                continue
            d = float(np.abs(x - y).max())
            tol = 2 * max(g[4], base[4])
            if not d <= tol:
                rec.add(f"{g[1]}/cross", f"item {j}: world result differs from start={base[0]} by {d:.3e} > tol {tol:.2e}")


# ---------------------------------------------------------------------------
# sub-check: warp_image
def real_image(ctx: Ctx, grids, imgform: str):
    from deepali.data.image import Image, ImageBatch

    arrs = [ff.ramp_image(r).astype(np.float32) for r in ctx.rgrids]
    if imgform == "Image":
        return Image(torch.from_numpy(arrs[0].copy()), grids[0]), arrs
    data = torch.from_numpy(np.stack(arrs, axis=0))
    return ImageBatch(data, grids[0] if ctx.form in ("single", "batch1", "shared2") else list(grids)), arrs


def warp_forms(ctx: Ctx):
    # a single Image is deformed by every field of the batch: only meaningful when all fields share its grid
    f = []
    if ctx.form in ("single", "batch1", "shared2"):
        f.append("Image")
    f.append("ImageBatch")
    return f


def run_warp(ctx: Ctx, imgform: str, pad, starts=AXES):
    from deepali.data.image import Image, ImageBatch

    rec = Rec()
    form = ctx.form
    ref_pad = "zeros" if pad is None else pad
    got = []
    for a in starts:
        pre = f"C10/warp/{form}/img={imgform}/pad={pad}/start={a}"
        st, built = guarded(ctx.build, a)
        if st == "raises":
            rec.add(f"C10/construct/{form}/start={a}/raises={type(built).__name__}", exc_text(built))
            continue
        F, grids = built
        st, im = guarded(real_image, ctx, grids, imgform)
        if st == "raises":
            rec.add(f"C10/construct-image/{imgform}/raises={type(im).__name__}", exc_text(im))
            continue
        image, arrs = im
        kw = {} if pad is None else {"padding": pad}
        st, res = rec.call(F.warp_image, image, **kw)
        if st == "raises":
            rec.add(f"{pre}/raises={type(res).__name__}", exc_text(res))
            continue
        single_out = ctx.single and imgform == "Image"
        want = Image if single_out else ImageBatch
        if not isinstance(res, want) or type(res).__name__.startswith("Flow"):
            rec.add(f"{pre}/type", f"returned {type(res).__name__}, expected {want.__name__}")
            continue
        st, obs = guarded(items_of, res, single_out)
        n_out = ctx.N
        if st == "raises" or len(obs) != n_out or any(o.shape != x.shape for o, x in zip(obs, [arrs[0]] * n_out if imgform == "Image" else arrs)):
            rec.add(f"{pre}/shape", f"result shape {tuple(getattr(res, 'shape', ()))}")
            continue
        st, gs = guarded(grids_of, res, single_out)
        if st == "raises" or len(gs) != n_out or any(not same_geometry(g, r) for g, r in zip(gs, ctx.rgrids)):
            rec.add(f"{pre}/grid", "result is not on the flow field's grid")
        den = ctx.denotation(a)
        worst = 0.0
        good = True
        for j in range(n_out):
            img = (arrs[0] if imgform == "Image" else arrs[j]).astype(np.float64)
            exp = ff.warp_reference(img, ctx.rgrids[j], den[j], ref_pad)
            tol = ctx.tol_interp(float(np.abs(img).max()))
            err = float(np.abs(obs[j] - exp).max())
            worst = max(worst, err / tol)
            if not err <= tol:
                good = False
                rec.add(f"{pre}/value", f"item {j}: warped image differs from image(x + u(x)) by {err:.3e} > tol {tol:.2e}")
            if float(np.abs(obs[j] - img).max()) > 1e-3 * float(np.abs(img).max()):
                rec.nontrivial += 1
        got.append((a, pre, obs, good, tol))
        rec.results.append(("warp", imgform, str(pad), result_key(res, single_out)))
    cross_pass(rec, got)
    return rec


# ---------------------------------------------------------------------------
# sub-check: sample
def sample_cases(ctx: Ctx, tier: str):
    out = []
    for t in target_names(tier):
        out.append({"target": t, "list": False})
    if ctx.N > 1:
        out.append({"target": "sub", "list": True})
        out.append({"target": "finer", "list": True})
    return out


def run_sample(ctx: Ctx, target: str, as_list: bool, pad, starts=AXES):
    from deepali.core.grid import Axes

    rec = Rec()
    form = ctx.form
    ref_pad = "zeros" if pad is None else pad
    tname = ("arg=list/target=" if as_list else "arg=grid/target=") + target
    if as_list:
        tspecs = [target_spec(ctx.cfg["grids"][j], target, j) for j in range(ctx.N)]
        # all items must be sampled on grids of one size: use the size of item 0's target
        for t in tspecs[1:]:
            t["size"] = list(tspecs[0]["size"])
    else:
        tspecs = [target_spec(ctx.cfg["grids"][0], target)] * ctx.N
    rts = [rg.ref_grid(t) for t in tspecs]
    got = []
    for a in starts:
        pre = f"C10/sample/{form}/{tname}/pad={pad}/start={a}"
        st, built = guarded(ctx.build, a)
        if st == "raises":
            rec.add(f"C10/construct/{form}/start={a}/raises={type(built).__name__}", exc_text(built))
            continue
        F, grids = built
        st, tg = guarded(lambda: [rg.real_grid(t) for t in (tspecs if as_list else tspecs[:1])])
        if st == "raises":
            rec.add(f"C10/construct-grid/raises={type(tg).__name__}", exc_text(tg))
            continue
        arg = list(tg) if as_list else tg[0]
        kw = {} if pad is None else {"padding": pad}
        st, res = rec.call(F.sample, arg, **kw)
        if st == "raises":
            rec.add(f"{pre}/raises={type(res).__name__}", exc_text(res))
            continue
        # type / label
        from deepali.data.flow import FlowField, FlowFields

        want = FlowField if ctx.single else FlowFields
        if not isinstance(res, want):
            rec.add(f"{pre}/type", f"returned {type(res).__name__}, expected {want.__name__}")
            continue
        st, lab = guarded(res.axes)
        if st == "raises" or lab is not Axes(a):
            rec.add(f"{pre}/label", f"axes() is {lab!r}, expected {a}")
            continue
        st, obs = guarded(items_of, res, ctx.single)
        st2, gs = guarded(grids_of, res, ctx.single)
        if st == "raises" or st2 == "raises":
            rec.add(f"{pre}/unobservable", "tensor()/grids() of the result raised")
            continue
        if len(obs) != ctx.N:
            rec.add(f"{pre}/batch-size", f"{ctx.N} fields sampled, result holds {len(obs)} field(s)")
            continue
        if len(gs) != ctx.N:
            rec.add(f"{pre}/grid-count", f"result of {ctx.N} fields carries {len(gs)} grid(s)")
            continue
        if any(not same_geometry(g, r) for g, r in zip(gs, rts)):
            rec.add(f"{pre}/grid", "result grid is not the requested sampling grid")
            continue
        den = ctx.denotation(a)
        pos = max([r.scale() for r in ctx.rgrids] + [r.scale() for r in rts])
        tol = ctx.tol_interp(ctx.uscale, 2, pos)
        good, ows = True, []
        for j in range(ctx.N):
            exp = ff.sample_reference(den[j], ctx.rgrids[j], rts[j], ref_pad)
            if obs[j].shape != exp.shape:
                rec.add(f"{pre}/shape", f"item {j}: shape {obs[j].shape} expected {exp.shape}")
                good = False
                continue
            # vectors of the result are w.r.t. the NEW grid in the same axes
            ow = ff.to_world(rts[j], obs[j], a)
            ows.append(ow)
            err = float(np.abs(ow - exp).max())
            if not err <= tol:
                good = False
                rec.add(f"{pre}/value", f"item {j}: world vectors on the new grid differ from the resampled world field by {err:.3e} > tol {tol:.2e} (max|u| {ctx.umax:.3g})")
        if len(ows) == ctx.N:
            got.append((a, pre, ows, good, tol))
        if target not in ("same", "flipac"):
            rec.nontrivial += 1
        rec.results.append(("sample", tname, str(pad), result_key(res, ctx.single)))
    cross_pass(rec, got)
    return rec


# ---------------------------------------------------------------------------
# sub-check: exp
def run_exp(ctx: Ctx, scale, steps, starts=AXES):
    rec = Rec()
    form = ctx.form
    got = []
    for a in starts:
        pre = f"C10/exp/{form}/steps={steps}/scale={scale}/start={a}"
        st, built = guarded(ctx.build, a)
        if st == "raises":
            rec.add(f"C10/construct/{form}/start={a}/raises={type(built).__name__}", exc_text(built))
            continue
        F, grids = built
        kw = {}
        if scale is not None:
            kw["scale"] = scale
        if steps is not None:
            kw["steps"] = steps
        st, res = rec.call(F.exp, **kw)
        if st == "raises":
            rec.add(f"{pre}/raises={type(res).__name__}", exc_text(res))
            continue
        if not _flow_meta(rec, pre, ctx, res, a, grids, ctx.single):
            continue
        st, obs = guarded(items_of, res, ctx.single)
        if st == "raises" or len(obs) != ctx.N or any(o.shape != u.shape for o, u in zip(obs, ctx.u)):
            rec.add(f"{pre}/shape", f"tensor shape {tuple(getattr(res, 'shape', ()))}")
            continue
        den = ctx.denotation(a)
        sc = 1.0 if scale is None else float(scale)
        k = 5 if steps is None else int(steps)
        ows, good, tmax = [], True, 0.0
        for j in range(ctx.N):
            exp = ff.exp_reference(den[j], ctx.rgrids[j], sc, k)
            ow = ff.to_world(ctx.rgrids[j], obs[j], a)
            ows.append(ow)
            scl = max(float(np.abs(exp).max()), ctx.uscale)
            tol = ctx.tol_interp(scl, k + 2) if k > 0 else ctx.tol_vec(3) * max(abs(sc), 1.0)
            tmax = max(tmax, tol)
            err = float(np.abs(ow - exp).max())
            if not err <= tol:
                good = False
                rec.add(f"{pre}/value", f"item {j}: world result differs from scaling-and-squaring of the world field by {err:.3e} > tol {tol:.2e} (max|exp| {scl:.3g})")
        got.append((a, pre, ows, good, tmax))
        if k > 0 or abs(sc - 1) > 0:
            rec.nontrivial += 1
        rec.results.append(("exp", str(scale), str(steps), result_key(res, ctx.single)))
    cross_pass(rec, got)
    return rec


# ---------------------------------------------------------------------------
# sub-check: sitk / file (FlowField only)
def _sitk_judge(rec: Rec, pre: str, ctx: Ctx, img, expect: np.ndarray, what: str):
    """img: SimpleITK image; expect (D, *shape) float64 vectors."""
    import SimpleITK as sitk

    r = ctx.rgrids[0]
    D = ctx.D
    if img.GetDimension() != D or img.GetNumberOfComponentsPerPixel() != D:
        rec.add(f"{pre}/layout", f"dimension {img.GetDimension()} components {img.GetNumberOfComponentsPerPixel()}")
        return
    if tuple(img.GetSize()) != tuple(int(v) for v in r.n):
        rec.add(f"{pre}/size", f"size {img.GetSize()} expected {r.n.tolist()}")
        return
    arr = np.moveaxis(sitk.GetArrayFromImage(img).astype(np.float64), -1, 0)
    tol = ctx.tol_vec(2)
    err = float(np.abs(arr - expect).max())
    if not err <= tol:
        rec.add(f"{pre}/value", f"stored vectors differ from the {what} vectors by {err:.3e} > tol {tol:.2e}")
    sc = r.scale()
    o = np.array(img.GetOrigin())
    s = np.array(img.GetSpacing())
    R = np.array(img.GetDirection()).reshape(D, D)
    if np.any(np.abs(o - r.origin) > C * EPS32 * sc) or np.any(np.abs(s - r.s) > C * EPS32 * r.s) or np.any(np.abs(R - r.R) > 8 * EPS32):
        rec.add(f"{pre}/header", f"origin {o.tolist()} spacing {s.tolist()} direction {R.reshape(-1).tolist()}")


def run_sitk(ctx: Ctx, b, starts=AXES):
    """F_a.sitk(axes=b) -> image; FlowField.from_sitk(image, axes=b).axes(a) returns the start tensor."""
    from deepali.core.grid import Axes
    from deepali.data.flow import FlowField

    rec = Rec()
    for a in starts:
        pre = f"C10/sitk/axes={b}/start={a}"
        st, built = guarded(ctx.build, a)
        if st == "raises":
            rec.add(f"C10/construct/{ctx.form}/start={a}/raises={type(built).__name__}", exc_text(built))
            continue
        F, grids = built
        den = ctx.denotation(a)
        st, img = rec.call(F.sitk) if b is None else rec.call(F.sitk, Axes(b))
        if st == "raises":
            rec.add(f"{pre}/to/raises={type(img).__name__}", exc_text(img))
            continue
        stored = WORLD if b is None else b
        st, _ = guarded(_sitk_judge, rec, f"{pre}/to", ctx, img, ff.represent(ctx.rgrids[0], den[0], stored), stored)
        if st == "raises":
            rec.add(f"{pre}/to/unreadable", exc_text(_))
            continue
        ac = bool(ctx.cfg["grids"][0]["ac"])
        st, G = rec.call(FlowField.from_sitk, img, align_corners=ac) if b is None else rec.call(FlowField.from_sitk, img, axes=Axes(b), align_corners=ac)
        if st == "raises":
            rec.add(f"{pre}/from/raises={type(G).__name__}", exc_text(G))
            continue
        _judge_back(rec, f"{pre}/from", ctx, G, stored, a, den, F)
        rec.results.append(("sitk", str(b), result_key(G, True)))
        rec.nontrivial += 1
    return rec


def _judge_back(rec: Rec, pre: str, ctx: Ctx, G, stored: str, a: str, den, F):
    """G is the flow field that came back (labelled `stored`); .axes(a) must return the start tensor."""
    from deepali.core.grid import Axes
    from deepali.data.flow import FlowField

    if not isinstance(G, FlowField):
        rec.add(f"{pre}/type", f"returned {type(G).__name__}")
        return
    st, lab = guarded(G.axes)
    if st == "raises" or lab is not Axes(stored):
        rec.add(f"{pre}/label", f"axes() is {lab!r}, expected {stored}")
        return
    st, g = guarded(G.grid)
    if st == "raises" or not same_geometry(g, ctx.rgrids[0]):
        rec.add(f"{pre}/grid", "grid differs from the original grid")
        return
    if bool(g.align_corners()) != bool(ctx.cfg["grids"][0]["ac"]):
        rec.add(f"{pre}/grid-flag", "align_corners argument not applied")
    st, obs = guarded(items_of, G, True)
    if st == "raises" or obs[0].shape != den[0].shape:
        rec.add(f"{pre}/shape", f"shape {tuple(getattr(G, 'shape', ()))}")
        return
    tol = ctx.tol_vec(3)
    err = float(np.abs(ff.to_world(ctx.rgrids[0], obs[0], stored) - den[0]).max())
    if not err <= tol:
        rec.add(f"{pre}/value", f"world vectors differ from the original field by {err:.3e} > tol {tol:.2e}")
        return
    st, H = rec.call(G.axes, Axes(a))
    if st == "raises":
        rec.add(f"{pre}/back/raises={type(H).__name__}", exc_text(H))
        return
    st, hb = guarded(items_of, H, True)
    st2, fb = guarded(items_of, F, True)
    if st == "raises" or st2 == "raises" or hb[0].shape != fb[0].shape:
        rec.add(f"{pre}/back/shape", "shape changed")
        return
    d = float(np.abs(ff.to_world(ctx.rgrids[0], hb[0] - fb[0], a)).max())
    if not d <= ctx.tol_vec(4):
        rec.add(f"{pre}/back/value", f".axes({a}) differs from the original tensor by {d:.3e} (world units) > tol {ctx.tol_vec(4):.2e}")


def run_file(ctx: Ctx, b, compress: bool, starts=AXES):
    import SimpleITK as sitk
    from deepali.core.grid import Axes
    from deepali.data.flow import FlowField

    rec = Rec()
    tmp = tempfile.mkdtemp(prefix="c10-", dir=os.environ.get("VERIF_TMP", "/var/tmp"))
    try:
        for a in starts:
            pre = f"C10/file/axes={b}/start={a}"
            st, built = guarded(ctx.build, a)
            if st == "raises":
                rec.add(f"C10/construct/{ctx.form}/start={a}/raises={type(built).__name__}", exc_text(built))
                continue
            F, grids = built
            den = ctx.denotation(a)
            path = os.path.join(tmp, f"flow_{a}.nrrd")
            kw = {"compress": compress}
            if b is not None:
                kw["axes"] = Axes(b)
            st, r = rec.call(F.write, path, **kw)
            if st == "raises":
                rec.add(f"{pre}/write/raises={type(r).__name__}", exc_text(r))
                continue
            stored = WORLD if b is None else b
            st, img = guarded(sitk.ReadImage, path)
            if st == "raises":
                rec.add(f"{pre}/write/unreadable-by-sitk", exc_text(img))
                continue
            st, _ = guarded(_sitk_judge, rec, f"{pre}/write", ctx, img, ff.represent(ctx.rgrids[0], den[0], stored), stored)
            ac = bool(ctx.cfg["grids"][0]["ac"])
            kw = {"align_corners": ac}
            if b is not None:
                kw["axes"] = Axes(b)
            st, G = rec.call(FlowField.read, path, **kw)
            if st == "raises":
                rec.add(f"{pre}/read/raises={type(G).__name__}", exc_text(G))
                continue
            _judge_back(rec, f"{pre}/read", ctx, G, stored, a, den, F)
            rec.results.append(("file", str(b), result_key(G, True)))
            rec.nontrivial += 1
    finally:
        shutil.rmtree(tmp, ignore_errors=True)
    return rec


# ---------------------------------------------------------------------------
# sub-check: default label (axes=None means the cube convention of the grid's align_corners flag)
def run_default(ctx: Ctx):
    from deepali.core.grid import Axes
    from deepali.data.flow import FlowField, FlowFields

    rec = Rec()
    a = "cube_corners" if ctx.cfg["grids"][0]["ac"] else "cube"
    pre = f"C10/default-axes/{ctx.form}/ac={'T' if ctx.cfg['grids'][0]['ac'] else 'F'}"
    grids = ctx.real_grids()
    arrs = ctx.start_arrays(a)
    den = ctx.denotation(a)

    def make():
        if ctx.single:
            return FlowField(torch.from_numpy(arrs[0].copy()), grids[0])
        return FlowFields(torch.from_numpy(np.stack(arrs, axis=0)), grids[0] if ctx.form in ("batch1", "shared2") else list(grids))

    st, F = rec.call(make)
    if st == "raises":
        rec.add(f"{pre}/raises={type(F).__name__}", exc_text(F))
        return rec
    st, lab = guarded(F.axes)
    if st == "raises" or lab is not Axes(a):
        rec.add(f"{pre}/label", f"axes() is {lab!r}, expected {a}")
        return rec
    st, W = rec.call(F.axes, Axes(WORLD))
    if st == "raises":
        rec.add(f"{pre}/to-world/raises={type(W).__name__}", exc_text(W))
        return rec
    st, obs = guarded(items_of, W, ctx.single)
    # items beyond the first are labelled by the FIRST grid's flag: their reference representation is `a` too
    if st == "raises" or len(obs) != ctx.N:
        rec.add(f"{pre}/to-world/shape", "unobservable result")
        return rec
    tol = ctx.tol_vec(2)
    for j in range(ctx.N):
        err = float(np.abs(obs[j] - den[j]).max())
        if not err <= tol:
            rec.add(f"{pre}/to-world/value", f"item {j}: world error {err:.3e} > tol {tol:.2e}")
    rec.results.append(("default", result_key(W, ctx.single)))
    rec.nontrivial += 1
    return rec


# ---------------------------------------------------------------------------
# sub-check: normalise / denormalise helpers of core/flow.py (GRID <-> CUBE[_CORNERS] on plain tensors)
def helper_cases():
    out = []
    for ac in (True, False):
        for sizeform in ("none", "Size", "tensor"):
            for cl in (False, True):
                for side in (2, 1):
                    if sizeform == "none" and cl:
                        continue  # the size cannot be inferred from a channels-last tensor (documented)
                    out.append({"ac": ac, "size": sizeform, "channels_last": cl, "side": side})
    return out


def run_helpers(ctx: Ctx, p: dict):
    from deepali.core import flow as U
    from deepali.core.grid import Axes

    rec = Rec()
    ac, sizeform, cl, side = p["ac"], p["size"], p["channels_last"], p["side"]
    cube = "cube_corners" if ac else "cube"
    pre = f"C10/helpers/ac={'T' if ac else 'F'}/size={sizeform}/{'cl' if cl else 'cf'}/side={side}"
    arrs = ctx.start_arrays("grid")
    den = ctx.denotation("grid")
    t = torch.from_numpy(np.stack(arrs, axis=0))  # (N, D, ..., X)
    n = [int(v) for v in ctx.rgrids[0].n]
    size = None if sizeform == "none" else (torch.Size(n) if sizeform == "Size" else torch.tensor(n))
    x = t.movedim(1, -1) if cl else t
    kw = dict(align_corners=ac, channels_last=cl)
    if size is not None:
        kw["size"] = size
    if side != 2:
        kw["side_length"] = side
    st, y = rec.call(U.normalize_flow, x, **kw)
    if st == "raises":
        rec.add(f"{pre}/normalize_flow/raises={type(y).__name__}", exc_text(y))
        return rec
    if not isinstance(y, torch.Tensor) or y.shape != x.shape:
        rec.add(f"{pre}/normalize_flow/shape", f"shape {tuple(getattr(y, 'shape', ()))} expected {tuple(x.shape)}")
        return rec
    yo = (y.movedim(-1, 1) if cl else y).double().numpy()
    tol = ctx.tol_vec(2)
    grids = ctx.real_grids()
    for j, r in enumerate(ctx.rgrids):
        # side_length s: the cube has side s instead of 2 -> vectors scale by s / 2
        ow = ff.to_world(r, yo[j] * (2.0 / side), cube)
        err = float(np.abs(ow - den[j]).max())
        if not err <= tol:
            rec.add(f"{pre}/normalize_flow/value", f"item {j}: not the {cube} representation of the field: world error {err:.3e} > tol {tol:.2e}")
        if side == 2:
            rec.trans += 1
            st, w = guarded(grids[j].transform_vectors, t[j].movedim(0, -1), axes=Axes("grid"), to_axes=Axes(cube))
            if st == "ok":
                w = w.movedim(-1, 0).double().numpy()
                d = float(np.abs(w - yo[j]).max())
                if not d <= 8 * EPS32 * max(float(np.abs(w).max()), 1e-30):
                    rec.add(f"{pre}/normalize_flow/vs-transform_vectors", f"item {j}: differs from Grid.transform_vectors(grid -> {cube}) by {d:.3e}")
    st, z = rec.call(U.denormalize_flow, y, **kw)
    if st == "raises":
        rec.add(f"{pre}/denormalize_flow/raises={type(z).__name__}", exc_text(z))
        return rec
    if not isinstance(z, torch.Tensor) or z.shape != x.shape:
        rec.add(f"{pre}/denormalize_flow/shape", f"shape {tuple(getattr(z, 'shape', ()))} expected {tuple(x.shape)}")
        return rec
    zo = (z.movedim(-1, 1) if cl else z).double().numpy()
    for j, r in enumerate(ctx.rgrids):
        d = float(np.abs(ff.to_world(r, zo[j] - arrs[j].astype(np.float64), "grid")).max())
        if not d <= tol:
            rec.add(f"{pre}/denormalize_flow/closed-path", f"item {j}: denormalize(normalize(v)) differs from v by {d:.3e} (world units) > tol {tol:.2e}")
    rec.results.append(("helpers", repr(sorted(p.items())), tensor_bytes(y)))
    rec.nontrivial += 1
    return rec


# ---------------------------------------------------------------------------
# sub-check: Grid.transform_vectors(v, axes, to_axes, to_grid=target) == the reference vector map between two grids
def run_tovec(ctx: Ctx, target: str):
    from deepali.core.grid import Axes

    rec = Rec()
    tspec = target_spec(ctx.cfg["grids"][0], target)
    rt = rg.ref_grid(tspec)
    r = ctx.rgrids[0]
    st, gg = guarded(lambda: (rg.real_grid(ctx.cfg["grids"][0]), rg.real_grid(tspec)))
    if st == "raises":
        rec.add(f"C10/construct-grid/raises={type(gg).__name__}", exc_text(gg))
        return rec
    g, tg = gg
    tol = C * EPS32 * 3 * max(ctx.cond, ff.cond_spacing(rt)) * ctx.uscale
    for a in AXES:
        v = ctx.start_arrays(a)[0]
        den = ff.to_world(r, v.astype(np.float64), a)
        t = torch.from_numpy(np.moveaxis(v, 0, -1).copy())
        for b in AXES:
            pre = f"C10/tovec/target={target}/{a}->{b}"
            st, w = rec.call(g.transform_vectors, t, axes=Axes(a), to_axes=Axes(b), to_grid=tg)
            if st == "raises":
                rec.add(f"{pre}/raises={type(w).__name__}", exc_text(w))
                continue
            if not isinstance(w, torch.Tensor) or w.shape != t.shape:
                rec.add(f"{pre}/shape", f"returned {type(w).__name__} {tuple(getattr(w, 'shape', ()))}")
                continue
            ow = ff.to_world(rt, np.moveaxis(w.double().numpy(), -1, 0), b)
            err = float(np.abs(ow - den).max())
            if not err <= tol:
                rec.add(f"{pre}/value", f"vectors w.r.t. the other grid denote a different world displacement: error {err:.3e} > tol {tol:.2e} (max|u| {ctx.umax:.3g})")
            st2, same = guarded(lambda: bool(torch.equal(w, t)))
            if st2 == "ok" and not same:
                rec.nontrivial += 1
            rec.results.append(("tovec", target, a, b, tensor_bytes(w)))
    return rec


# ---------------------------------------------------------------------------
# sub-check: histories on ONE object: op, op again (bit-identical, receiver untouched), in-place update of the
# vectors, op again == the same op on a fresh object holding the updated vectors (and the grid's own vector map)
UPDATES = ("mul_", "add_", "copy_")


def history_ops(tier):
    ops = [("axes", b) for b in AXES] + [("warp", None), ("exp", 3)]
    return ops


def _apply_update(F, upd: str, single: bool):
    """In-place change of the vectors on the same storage; returns nothing."""
    if upd == "mul_":
        F.mul_(0.5)
    elif upd == "add_":
        F.add_(torch.full_like(F.tensor(), 0.125) * F.tensor().abs().max())
    else:
        t = F.tensor()
        t.copy_(t.flip(-1) * 0.75)


def _do_hist_op(ctx: Ctx, F, grids, op, arg):
    from deepali.core.grid import Axes

    if op == "axes":
        return F.axes(Axes(arg))
    if op == "exp":
        return F.exp(steps=arg)
    image, _ = real_image(ctx, grids, "Image" if ctx.form in ("single", "batch1", "shared2") else "ImageBatch")
    return F.warp_image(image)


def _bits(x, single):
    return (type(x).__name__, tensor_bytes(x.tensor()), str(getattr(x, "_axes", "")), b"".join(grid_key(g) for g in grids_of(x, single)))


def run_history(ctx: Ctx, op: str, arg, upd: str, starts=AXES):
    from deepali.core.grid import Axes
    from deepali.data.flow import FlowField, FlowFields

    rec = Rec()
    form = ctx.form
    oname = f"{op}({arg})" if arg is not None else op
    for a in starts:
        pre = f"C10/history/{form}/op={oname}/update={upd}/start={a}"
        st, built = guarded(ctx.build, a)
        if st == "raises":
            rec.add(f"C10/construct/{form}/start={a}/raises={type(built).__name__}", exc_text(built))
            continue
        F, grids = built
        out_single = ctx.single and not (op == "warp" and False)
        recv0 = _bits(F, ctx.single)
        st, r1 = rec.call(_do_hist_op, ctx, F, grids, op, arg)
        if st == "raises":
            rec.add(f"{pre}/first/raises={type(r1).__name__}", exc_text(r1))
            continue
        st, b1 = guarded(_bits, r1, out_single)
        if st == "raises":
            rec.add(f"{pre}/first/unobservable", exc_text(b1))
            continue
        if _bits(F, ctx.single) != recv0:
            rec.add(f"{pre}/receiver-changed", "the operation changed the data, label or grids of the flow field it was called on")
            continue
        st, r1b = rec.call(_do_hist_op, ctx, F, grids, op, arg)
        if st == "raises":
            rec.add(f"{pre}/repeat/raises={type(r1b).__name__}", exc_text(r1b))
            continue
        st, b1b = guarded(_bits, r1b, out_single)
        if st == "raises" or b1b != b1:
            rec.add(f"{pre}/repeat/not-bit-identical", "the same operation on the unchanged object gave a different result the second time")
            continue
        # in-place update of the vectors (same storage, same Python object)
        st, e = rec.call(_apply_update, F, upd, ctx.single)
        if st == "raises":
            rec.add(f"C10/history/{form}/update={upd}/raises={type(e).__name__}", exc_text(e))
            continue
        st, cur = guarded(lambda: F.tensor().detach().clone())
        if st == "raises":
            rec.add(f"{pre}/update/unobservable", exc_text(cur))
            continue
        if tensor_bytes(cur) == recv0[1]:
            rec.add(f"C10/history/{form}/update={upd}/no-effect", "in-place update did not change the vectors")
            continue
        st, r2 = rec.call(_do_hist_op, ctx, F, grids, op, arg)
        if st == "raises":
            rec.add(f"{pre}/after-update/raises={type(r2).__name__}", exc_text(r2))
            continue
        # the same operation on a fresh object that holds the updated vectors
        def fresh():
            if ctx.single:
                return FlowField(cur.clone(), grids[0], Axes(a))
            return FlowFields(cur.clone(), grids[0] if form in ("batch1", "shared2") else list(grids), Axes(a))

        st, G = guarded(fresh)
        if st == "raises":
            rec.add(f"C10/construct/{form}/start={a}/raises={type(G).__name__}", exc_text(G))
            continue
        st, r2f = rec.call(_do_hist_op, ctx, G, grids, op, arg)
        if st == "raises":
            rec.add(f"{pre}/fresh/raises={type(r2f).__name__}", exc_text(r2f))
            continue
        st, b2 = guarded(_bits, r2, out_single)
        st2, b2f = guarded(_bits, r2f, out_single)
        if st == "raises" or st2 == "raises":
            rec.add(f"{pre}/after-update/unobservable", "result could not be observed")
            continue
        if b2 != b2f:
            stale = " (it is bit-identical to the result BEFORE the update: stale)" if b2 == b1 else ""
            rec.add(f"{pre}/after-update/differs-from-fresh", "after an in-place update of the vectors the operation does not give the result of the same operation on a fresh flow field with the same vectors" + stale)
        if op == "axes":
            # the grid's own vector map of the CURRENT data
            obs = items_of(r2, ctx.single)
            for j, g in enumerate(grids):
                v = (cur if ctx.single else cur[j]).movedim(0, -1)
                rec.trans += 1
                st, w = guarded(g.transform_vectors, v, axes=Axes(a), to_axes=Axes(arg))
                if st == "ok":
                    w = w.movedim(-1, 0).double().numpy()
                    d = float(np.abs(w - obs[j]).max())
                    if not d <= 8 * EPS32 * max(float(np.abs(w).max()), 1e-30):
                        rec.add(f"{pre}/after-update/vs-transform_vectors", f"item {j}: axes() differs from Grid.transform_vectors of the current vectors by {d:.3e}")
        if b2 != b1:
            rec.nontrivial += 1
        rec.results.append(("history", oname, upd, b2[1]))
    return rec


# ---------------------------------------------------------------------------
# LIVE-OBJECT HISTORIES (round 4)
def _live_ctx(form: str, D: int, gspecs, rgrids, den):
    """A Ctx for the CURRENT record of a live object: reference grids and the world field it denotes right now."""
    c = Ctx.__new__(Ctx)
    c.cfg = {"grids": gspecs, "form": form, "D": D}
    c.form, c.D, c.N, c.single = form, D, len(rgrids), form == "single"
    c.rgrids, c.u = rgrids, den
    c.umax = max(float(np.abs(u).max()) for u in den)
    c.smin = min(float(r.s.min()) for r in rgrids)
    c.cond = max(ff.cond_spacing(r) for r in rgrids)
    c.nmax = max(float(r.n.max()) for r in rgrids)
    c.uscale = max(c.umax, 1e-3 * c.smin)
    return c


def _spec_of(r: RefGrid):
    return {"size": [int(v) for v in r.n], "spacing": [float(v) for v in r.s], "center": [float(v) for v in r.c], "direction": r.R.tolist(), "ac": bool(r.ac)}


# (a) live Grid objects: a grid that already served conversions is derived; fields on the DERIVED grid must follow the
#     derived grid's own vector map (reference = float64 model of the attributes the derived grid reports)
LG_DERIVE = ("resize", "downsample", "upsample", "resample", "crop", "pad")
LG_OBS = ("conv", "sample")


def livegrid_histories(tier: str):
    alpha = LG_OBS + LG_DERIVE
    out = []
    for x1 in alpha:
        for x2 in LG_OBS:
            if x1 in LG_DERIVE:
                out.append([x1, x2])
    for x1 in alpha:
        for x2 in alpha:
            if x1 in LG_DERIVE or x2 in LG_DERIVE:
                for x3 in LG_OBS:
                    out.append([x1, x2, x3])
    return out


def _derive(g, name: str):
    n = [int(v) for v in g.size()]
    if name == "resize":
        return g.resize(tuple(v + 2 for v in n))
    if name == "downsample":
        return g.downsample(1)
    if name == "upsample":
        return g.upsample(1)
    if name == "resample":
        return g.resample(g.spacing() * 0.8)
    if name == "crop":
        return g.crop(1)
    if name == "pad":
        return g.pad(1)
    raise KeyError(name)


def _derive_enabled(r: RefGrid, name: str) -> bool:
    n = r.n
    if name == "downsample":
        return bool(np.all(np.ceil(n / 2) >= 2))
    if name == "crop":
        return bool(np.all(n - 2 >= 2))
    if name in ("upsample", "resample", "pad", "resize"):
        return bool(np.all(n <= 12))
    return True


def run_livegrid(ctx: Ctx, hist):
    from deepali.core.grid import Axes, Grid
    from deepali.data.flow import FlowField

    rec = Rec()
    field = ctx.cfg["fields"][0]
    st, g0 = guarded(rg.real_grid, ctx.cfg["grids"][0])
    if st == "raises":
        rec.add(f"C10/construct-grid/raises={type(g0).__name__}", exc_text(g0))
        return rec
    pool = [g0]  # every live grid of this history, oldest first; the last one is the current grid
    done = []
    for op in hist:
        after = ",".join(done) if done else "start"
        cur = pool[-1]
        if op in LG_DERIVE:
            rcur = RefGrid.from_real(cur)
            if not _derive_enabled(rcur, op):
                rec.undef.append("livegrid: derivation outside the domain (size < 2 or > 12)")
                return rec
            st, g2 = rec.call(_derive, cur, op)
            if st == "raises" or not isinstance(g2, Grid):
                rec.undef.append("livegrid: the grid derivation itself failed (property C03, not judged here)")
                return rec
            pool.append(g2)
        elif op == "conv":
            # every live grid (parents too: deriving must not disturb them), every edge a -> b of fields built on it
            for gi, g in enumerate(pool):
                r = RefGrid.from_real(g)
                if np.any(r.n < 2):
                    rec.undef.append("livegrid: derived grid with a single-sample axis")
                    return rec
                u = ff.field_on_grid(field, r)
                uscale = max(float(np.abs(u).max()), 1e-3 * float(r.s.min()))
                tol = C * EPS32 * 3 * ff.cond_spacing(r) * uscale
                which = "current" if gi == len(pool) - 1 else "parent"
                for a in AXES:
                    v = ff.represent(r, u, a).astype(np.float32)
                    den = ff.to_world(r, v.astype(np.float64), a)
                    st, F = guarded(lambda: FlowField(torch.from_numpy(v.copy()), g, Axes(a)))
                    if st == "raises":
                        rec.add(f"C10/livegrid/after={after}/construct/raises={type(F).__name__}", exc_text(F))
                        continue
                    for b in AXES:
                        if b == a:
                            continue
                        pre = f"C10/livegrid/after={after}/conv[{which}]/{a}->{b}"
                        st, res = rec.call(F.axes, Axes(b))
                        if st == "raises":
                            rec.add(f"{pre}/raises={type(res).__name__}", exc_text(res))
                            continue
                        st, o = guarded(lambda: res.tensor().double().numpy())
                        if st == "raises" or o.shape != den.shape:
                            rec.add(f"{pre}/shape", "result not observable or of another shape")
                            continue
                        err = float(np.abs(ff.to_world(r, o, b) - den).max())
                        if not err <= tol:
                            rec.add(f"{pre}/value", f"field on a grid derived by [{after}] (size {r.n.tolist()}, spacing {r.s.tolist()}): conversion does not follow the grid's own vector map, world error {err:.3e} > tol {tol:.2e} (max|u| {uscale:.3g})")
                        rec.results.append(("livegrid", after, which, a, b, tensor_bytes(res.tensor())))
            rec.nontrivial += 1
        elif op == "sample":
            # fields living on the ROOT grid are sampled onto the current (derived) grid
            if len(pool) == 1:
                done.append(op)
                continue
            r0 = RefGrid.from_real(g0)
            rt = RefGrid.from_real(cur)
            if np.any(rt.n < 2):
                rec.undef.append("livegrid: derived grid with a single-sample axis")
                return rec
            u0 = ff.field_on_grid(field, r0)
            lc = _live_ctx("single", ctx.D, [_spec_of(r0)], [r0], [u0])
            tol = lc.tol_interp(lc.uscale, 2, max(r0.scale(), rt.scale()))
            for a in AXES:
                pre = f"C10/livegrid/after={after}/sample/start={a}"
                v = ff.represent(r0, u0, a).astype(np.float32)
                den = ff.to_world(r0, v.astype(np.float64), a)
                st, F = guarded(lambda: FlowField(torch.from_numpy(v.copy()), g0, Axes(a)))
                if st == "raises":
                    rec.add(f"C10/livegrid/after={after}/construct/raises={type(F).__name__}", exc_text(F))
                    continue
                st, res = rec.call(F.sample, cur)
                if st == "raises":
                    rec.add(f"{pre}/raises={type(res).__name__}", exc_text(res))
                    continue
                st, got = guarded(lambda: (res.tensor().double().numpy(), res.axes(), res.grid()))
                if st == "raises":
                    rec.add(f"{pre}/unobservable", exc_text(got))
                    continue
                o, lab, rgd = got
                if lab is not Axes(a):
                    rec.add(f"{pre}/label", f"axes() is {lab!r}, expected {a}")
                    continue
                if res is F:
                    continue  # the derived grid compares equal to the root grid (e.g. crop then pad): nothing sampled
                exp = ff.sample_reference(den, r0, rt, "zeros")
                if o.shape != exp.shape:
                    rec.add(f"{pre}/shape", f"shape {o.shape} expected {exp.shape}")
                    continue
                err = float(np.abs(ff.to_world(rt, o, a) - exp).max())
                if not err <= tol:
                    rec.add(f"{pre}/value", f"field sampled onto a grid derived by [{after}]: vectors w.r.t. the new grid differ from the resampled world field by {err:.3e} > tol {tol:.2e}")
                rec.results.append(("livegrid-sample", after, a, tensor_bytes(res.tensor())))
            rec.nontrivial += 1
        done.append(op)
    return rec


# (b) one live FlowField / FlowFields object: observe, relabel the grid in place (grid_) or by the copy form (grid),
#     change the vectors in place, observe again; the reference is recomputed from the current (data, grid, axes) record
RL_OBS = ("conv", "exp", "warp", "sample")
RL_MUT = ("grid_A", "grid_B", "gridcopy_A", "mul_")


def relabel_histories(tier: str):
    alpha = RL_OBS + RL_MUT
    out = []
    for x1 in RL_MUT:
        for x2 in RL_OBS:
            out.append([x1, x2])
    for x1 in alpha:
        for x2 in alpha:
            if x1 in RL_MUT or x2 in RL_MUT:
                for x3 in RL_OBS:
                    out.append([x1, x2, x3])
    return out


def _grids_arg(form: str, grids):
    return grids[0] if form in ("single", "batch1", "shared2") else list(grids)


def _relabel_observe(rec: Rec, pre: str, lc: Ctx, F, grids, a: str, op: str):
    """One observing operation on the live object, judged against the current record held by lc."""
    from deepali.core.grid import Axes
    from deepali.data.image import Image, ImageBatch

    den = lc.u
    if op == "conv":
        for b in AXES:
            if b == a:
                continue
            p2 = f"{pre}/op=axes({b})"
            st, res = rec.call(F.axes, Axes(b))
            if st == "raises":
                rec.add(f"{p2}/raises={type(res).__name__}", exc_text(res))
                continue
            if not _flow_meta(rec, p2, lc, res, b, grids, lc.single):
                continue
            st, obs = guarded(items_of, res, lc.single)
            if st == "raises" or len(obs) != lc.N or any(o.shape != u.shape for o, u in zip(obs, den)):
                rec.add(f"{p2}/shape", "result not observable or of another shape")
                continue
            tol = lc.tol_vec(3)
            for j, (o, r, u) in enumerate(zip(obs, lc.rgrids, den)):
                err = float(np.abs(ff.to_world(r, o, b) - u).max())
                if not err <= tol:
                    rec.add(f"{p2}/value", f"item {j}: conversion does not follow the vector map of the grid the field is on NOW: world error {err:.3e} > tol {tol:.2e} (max|u| {lc.umax:.3g})")
            rec.results.append(("relabel", pre, b, result_key(res, lc.single)))
        return
    if op == "exp":
        p2 = f"{pre}/op=exp"
        st, res = rec.call(F.exp, steps=3)
        if st == "raises":
            rec.add(f"{p2}/raises={type(res).__name__}", exc_text(res))
            return
        if not _flow_meta(rec, p2, lc, res, a, grids, lc.single):
            return
        st, obs = guarded(items_of, res, lc.single)
        if st == "raises" or len(obs) != lc.N or any(o.shape != u.shape for o, u in zip(obs, den)):
            rec.add(f"{p2}/shape", "result not observable or of another shape")
            return
        for j in range(lc.N):
            exp = ff.exp_reference(den[j], lc.rgrids[j], 1.0, 3)
            scl = max(float(np.abs(exp).max()), lc.uscale)
            tol = lc.tol_interp(scl, 5)
            err = float(np.abs(ff.to_world(lc.rgrids[j], obs[j], a) - exp).max())
            if not err <= tol:
                rec.add(f"{p2}/value", f"item {j}: exp() is not the exponential of the field on its CURRENT grid: world error {err:.3e} > tol {tol:.2e}")
        rec.results.append(("relabel", pre, "exp", result_key(res, lc.single)))
        return
    if op == "warp":
        p2 = f"{pre}/op=warp"
        imgform = "Image" if lc.form in ("single", "batch1", "shared2") else "ImageBatch"
        st, im = guarded(real_image, lc, grids, imgform)
        if st == "raises":
            rec.add(f"C10/construct-image/{imgform}/raises={type(im).__name__}", exc_text(im))
            return
        image, arrs = im
        st, res = rec.call(F.warp_image, image)
        if st == "raises":
            rec.add(f"{p2}/raises={type(res).__name__}", exc_text(res))
            return
        single_out = lc.single
        if not isinstance(res, Image if single_out else ImageBatch):
            rec.add(f"{p2}/type", f"returned {type(res).__name__}")
            return
        st, obs = guarded(items_of, res, single_out)
        if st == "raises" or len(obs) != lc.N:
            rec.add(f"{p2}/shape", "result not observable")
            return
        for j in range(lc.N):
            img = (arrs[0] if imgform == "Image" else arrs[j]).astype(np.float64)
            if obs[j].shape != img.shape:
                rec.add(f"{p2}/shape", f"shape {obs[j].shape}")
                continue
            exp = ff.warp_reference(img, lc.rgrids[j], den[j], "zeros")
            tol = lc.tol_interp(float(np.abs(img).max()))
            err = float(np.abs(obs[j] - exp).max())
            if not err <= tol:
                rec.add(f"{p2}/value", f"item {j}: warped image differs from image(x + u(x)) on the CURRENT grid by {err:.3e} > tol {tol:.2e}")
        rec.results.append(("relabel", pre, "warp", tensor_bytes(res.tensor())))
        return
    if op == "sample":
        p2 = f"{pre}/op=sample"
        tspec = target_spec(lc.cfg["grids"][0], "sub")
        rt = rg.ref_grid(tspec)
        st, tg = guarded(rg.real_grid, tspec)
        if st == "raises":
            rec.add(f"C10/construct-grid/raises={type(tg).__name__}", exc_text(tg))
            return
        st, res = rec.call(F.sample, tg)
        if st == "raises":
            rec.add(f"{p2}/raises={type(res).__name__}", exc_text(res))
            return
        st, got = guarded(lambda: (items_of(res, lc.single), res.axes(), grids_of(res, lc.single)))
        if st == "raises":
            rec.add(f"{p2}/unobservable", exc_text(got))
            return
        obs, lab, gs = got
        if lab is not Axes(a):
            rec.add(f"{p2}/label", f"axes() is {lab!r}, expected {a}")
            return
        if len(obs) != lc.N or len(gs) != lc.N or any(not same_geometry(g, rt) for g in gs):
            rec.add(f"{p2}/grid", "result is not one field per input on the requested grid")
            return
        pos = max([r.scale() for r in lc.rgrids] + [rt.scale()])
        tol = lc.tol_interp(lc.uscale, 2, pos)
        for j in range(lc.N):
            exp = ff.sample_reference(den[j], lc.rgrids[j], rt, "zeros")
            if obs[j].shape != exp.shape:
                rec.add(f"{p2}/shape", f"item {j}: shape {obs[j].shape} expected {exp.shape}")
                continue
            err = float(np.abs(ff.to_world(rt, obs[j], a) - exp).max())
            if not err <= tol:
                rec.add(f"{p2}/value", f"item {j}: sampled field differs from the resampling of the field on its CURRENT grid by {err:.3e} > tol {tol:.2e}")
        rec.results.append(("relabel", pre, "sample", result_key(res, lc.single)))
        return
    raise KeyError(op)


def run_relabel(ctx: Ctx, hist, starts=AXES):
    rec = Rec()
    form, D = ctx.form, ctx.D
    alt = ctx.cfg.get("alt")
    if not alt:
        return rec
    for a in starts:
        st, built = guarded(ctx.build, a)
        if st == "raises":
            rec.add(f"C10/construct/{form}/start={a}/raises={type(built).__name__}", exc_text(built))
            continue
        F, grids = built
        data = [x.copy() for x in ctx.start_arrays(a)]
        gspecs = list(ctx.cfg["grids"])
        done = []
        for op in hist:
            after = ",".join(done) if done else "start"
            pre = f"C10/relabel/{form}/after={after}/start={a}"
            if op in RL_OBS:
                rgrids = [rg.ref_grid(sp) for sp in gspecs]
                den = [ff.to_world(r, d.astype(np.float64), a) for r, d in zip(rgrids, data)]
                lc = _live_ctx(form, D, gspecs, rgrids, den)
                _relabel_observe(rec, pre, lc, F, grids, a, op)
                rec.nontrivial += 1 if done and any(x in RL_MUT for x in done) else 0
            elif op == "mul_":
                st, e = rec.call(lambda: F.mul_(0.5))
                if st == "raises":
                    rec.add(f"{pre}/mul_/raises={type(e).__name__}", exc_text(e))
                    break
                data = [(d * np.float32(0.5)).astype(np.float32) for d in data]
            else:
                which = op[-1]
                specs2 = alt[which]
                st, g2 = guarded(lambda: [rg.real_grid(sp) for sp in specs2])
                if st == "raises":
                    rec.add(f"C10/construct-grid/raises={type(g2).__name__}", exc_text(g2))
                    break
                if form == "shared2":
                    g2 = [g2[0]] * len(g2)
                    specs2 = [specs2[0]] * len(specs2)
                if op.startswith("grid_"):
                    st, r = rec.call(F.grid_, _grids_arg(form, g2))
                    if st == "raises":
                        rec.add(f"{pre}/{op}/raises={type(r).__name__}", exc_text(r))
                        break
                    if r is not F:
                        rec.add(f"{pre}/{op}/not-in-place", "grid_() did not return the object itself")
                        break
                else:  # copy form: the copy lives on g2, the original must stay on its grid
                    old_keys = [grid_key(g) for g in grids_of(F, ctx.single)]
                    st, G = rec.call(F.grid, _grids_arg(form, g2))
                    if st == "raises":
                        rec.add(f"{pre}/{op}/raises={type(G).__name__}", exc_text(G))
                        break
                    st, same = guarded(lambda: [grid_key(g) for g in grids_of(F, ctx.single)] == old_keys)
                    if st == "raises" or not same:
                        rec.add(f"{pre}/{op}/original-changed", "grid(g2) changed the grid of the object it was called on")
                        break
                    if type(G) is not type(F):
                        rec.add(f"{pre}/{op}/type", f"grid(g2) returned {type(G).__name__}")
                        break
                    F = G
                grids, gspecs = g2, list(specs2)
                st, ok = guarded(lambda: [grid_key(x) for x in grids_of(F, ctx.single)] == [grid_key(x) for x in grids])
                if st == "raises" or not ok:
                    rec.add(f"{pre}/{op}/grid-not-set", "grid()/grids() does not report the new grid")
                    break
            # the record the harness keeps must be what the object reports
            st, cur = guarded(lambda: F.tensor().detach().numpy())
            exp = data[0] if ctx.single else np.stack(data)
            if st == "raises" or cur.shape != exp.shape or not np.array_equal(cur, exp):
                rec.add(f"{pre}/{op}/data-changed", "the vectors of the live object are not the expected ones after this step")
                break
            done.append(op)
    return rec


# ---------------------------------------------------------------------------
# sub-check: MEMORY LAYOUT of the user-supplied vector data (transposed view, step-sliced view, stride-0 batch)
LAYOUTS = ("transposed", "sliced", "expanded")
LAYOUT_GEOS = ("p54", "r73", "p435", "r354")


def layout_enabled(cfg) -> bool:
    return cfg["fkind"] == "affine" and cfg["form"] in ("single", "shared2") and cfg["gname"][:-2] in LAYOUT_GEOS


def _unchanged(t, before):
    return tensor_bytes(t) == before[0] and t._version == before[1]


def run_layout(ctx: Ctx, layout: str, starts=AXES):
    """Every operation on a flow object (and the plain-tensor functional forms) whose vector data is a non-contiguous
    view must give the result of the contiguous form and leave the operand untouched."""
    from deepali.core import flow as U
    from deepali.core.grid import Axes
    from deepali.data.flow import FlowField, FlowFields
    from deepali.data.image import Image, ImageBatch
    from ref import layout as L

    rec = Rec()
    form = ctx.form
    if layout == "expanded" and ctx.single:
        return rec  # a stride-0 batch needs a batch
    grids = ctx.real_grids()
    r0 = ctx.rgrids[0]
    for a in starts:
        arrs = ctx.start_arrays(a)
        if layout == "expanded":
            base = torch.from_numpy(arrs[0].copy())
            tl = L.relayout(base, "expanded", n=ctx.N)
            tc = L.relayout(base, "repeat", n=ctx.N)
        else:
            t0 = torch.from_numpy(arrs[0].copy() if ctx.single else np.stack(arrs))
            if not L.applicable(t0, layout):
                rec.undef.append("layout: form not applicable to this shape")
                continue
            tl = L.relayout(t0, layout)
            tc = L.relayout(t0, "contig")
        if tl.is_contiguous() or not torch.equal(tl, tc):
            rec.undef.append("layout: variant is contiguous or not equal (harness)")
            continue
        before = (tensor_bytes(tl), tl._version)
        # the field every item denotes (all items equal for the expanded form)
        den = [ff.to_world(r0 if layout == "expanded" else r, (tc if ctx.single else tc[j]).double().numpy(), a) for j, r in enumerate(ctx.rgrids)]
        lc = _live_ctx(form, ctx.D, ctx.cfg["grids"], ctx.rgrids, den)

        def make(t):
            if ctx.single:
                return FlowField(t, grids[0], Axes(a))
            return FlowFields(t, grids[0], Axes(a))

        st, pair = guarded(lambda: (make(tc), make(tl)))
        pre0 = f"C10/layout/{form}/start={a}/layout={layout}"
        if st == "raises":
            rec.add(f"{pre0}/op=construct/raises={type(pair).__name__}", exc_text(pair))
            continue
        Fc, Fl = pair
        rec.results.append(("layout-kept", bool(not Fl.tensor().is_contiguous())))
        imgform = "Image"
        image_c, arrs_img = real_image(lc, grids, imgform)
        img_l = L.relayout(image_c.tensor(), "transposed")
        image_l = Image(img_l, grids[0])
        tspec = target_spec(ctx.cfg["grids"][0], "sub")
        tg = rg.real_grid(tspec)
        ops = [(f"axes({b})", (lambda F, b=b: F.axes(Axes(b))), "vec") for b in AXES if b != a]
        ops += [("exp", (lambda F: F.exp(steps=3)), "interp"), ("sample", (lambda F: F.sample(tg)), "interp"),
                ("warp", (lambda F: F.warp_image(image_c)), "img"), ("warp[image-view]", (lambda F: F.warp_image(image_l)), "img")]
        for name, fn, kind in ops:
            pre = f"C10/layout/{form}/op={name}/start={a}/layout={layout}"
            stc, rc = rec.call(fn, Fc)
            stl, rl = rec.call(fn, Fl if name != "warp[image-view]" else Fc)
            if stc == "raises":
                continue  # the contiguous form is judged by the other sub-checks
            if stl == "raises":
                rec.add(f"{pre}/raises={type(rl).__name__}", exc_text(rl))
                continue
            st, oc = guarded(lambda: rc.tensor().double().numpy())
            st2, ol = guarded(lambda: rl.tensor().double().numpy())
            if st == "raises" or st2 == "raises" or type(rc) is not type(rl) or oc.shape != ol.shape:
                rec.add(f"{pre}/shape", f"result {type(rl).__name__} {getattr(rl, 'shape', None)} vs contiguous form {type(rc).__name__} {getattr(rc, 'shape', None)}")
                continue
            if getattr(rc, "_axes", None) is not getattr(rl, "_axes", None):
                rec.add(f"{pre}/label", "axes label differs from the contiguous form")
            scale = max(float(np.abs(oc).max()), 1e-30)
            tol = 0.0 if np.array_equal(oc, ol) else (C * EPS32 * 3 * lc.cond * scale if kind == "vec" else C * EPS32 * 5 * scale * (lc.cond + lc.nmax / 2.0 + (max(r.scale() for r in lc.rgrids) / lc.smin if name == "sample" else 0.0)))
            d = float(np.abs(oc - ol).max())
            if not d <= tol:
                rec.add(f"{pre}/value", f"result differs from the contiguous form by {d:.3e} > tol {tol:.2e}")
            if not _unchanged(tl, before):
                rec.add(f"{pre}/operand-mutated", "the non-contiguous vector data was modified")
                break
            rec.results.append(("layout", name, a, layout, tensor_bytes(rl.tensor())))
            rec.nontrivial += 1
        # plain-tensor functional forms
        fun = []
        vl, vc = (tl if not ctx.single else tl.unsqueeze(0)), (tc if not ctx.single else tc.unsqueeze(0))  # (N, D, ..., X)
        for b in AXES:
            if b != a:
                fun.append((f"Grid.transform_vectors({b})", (lambda t, b=b: grids[0].transform_vectors(t.movedim(1, -1), axes=Axes(a), to_axes=Axes(b))), "vec"))
        if a == "grid":
            fun.append(("normalize_flow", (lambda t: U.normalize_flow(t, align_corners=False)), "vec"))
        if a == "cube":
            fun.append(("denormalize_flow", (lambda t: U.denormalize_flow(t, align_corners=False)), "vec"))
            fun.append(("expv", (lambda t: U.expv(t, steps=3, align_corners=False)), "interp"))
            coords = grids[0].coords(align_corners=False)
            img_b = image_c.tensor().unsqueeze(0)
            fun.append(("warp_image[flow-view]", (lambda t: U.warp_image(img_b, coords, flow=t.movedim(1, -1), align_corners=False)), "interp"))
            fun.append(("sample_flow", (lambda t: U.sample_flow(t, coords.unsqueeze(0), align_corners=False)), "interp"))
            fun.append(("compose_flows", (lambda t: U.compose_flows(t, t, align_corners=False)), "interp"))
        for name, fn, kind in fun:
            pre = f"C10/layout/tensor/op={name}/start={a}/layout={layout}"
            stc, rc = rec.call(fn, vc)
            stl, rl = rec.call(fn, vl)
            if stc == "raises":
                continue
            if stl == "raises":
                rec.add(f"{pre}/raises={type(rl).__name__}", exc_text(rl))
                continue
            if not isinstance(rl, torch.Tensor) or rl.shape != rc.shape:
                rec.add(f"{pre}/shape", f"shape {tuple(getattr(rl, 'shape', ()))} vs {tuple(rc.shape)}")
                continue
            oc, ol = rc.double().numpy(), rl.double().numpy()
            scale = max(float(np.abs(oc).max()), 1e-30)
            tol = 0.0 if np.array_equal(oc, ol) else (C * EPS32 * 3 * lc.cond * scale if kind == "vec" else C * EPS32 * 5 * scale * (lc.cond + lc.nmax / 2.0))
            d = float(np.abs(oc - ol).max())
            if not d <= tol:
                rec.add(f"{pre}/value", f"result differs from the contiguous form by {d:.3e} > tol {tol:.2e}")
            if not _unchanged(tl, before):
                rec.add(f"{pre}/operand-mutated", "the non-contiguous vector data was modified")
                break
            rec.results.append(("layout-fn", name, a, layout, tensor_bytes(rl)))
            rec.nontrivial += 1
    return rec


# ---------------------------------------------------------------------------
def op_cases(ctx: Ctx, tier: str):
    """All (sub, params) cases of the operation sub-checks for a configuration."""
    out = []
    for imgform in warp_forms(ctx):
        for pad in (None, "border"):
            out.append(("warp", {"img": imgform, "pad": pad}))
    for sc in sample_cases(ctx, tier):
        for pad in (None, "border"):
            out.append(("sample", {"target": sc["target"], "list": sc["list"], "pad": pad}))
    for scale, steps in exp_menu(tier):
        out.append(("exp", {"scale": scale, "steps": steps}))
    out.append(("default", {}))
    if ctx.form in ("single", "perfield2"):  # the map depends on grid 0 only
        for t in target_names(tier):
            out.append(("tovec", {"target": t}))
    for op, arg in history_ops(tier):
        for upd in UPDATES:
            out.append(("history", {"op": op, "arg": arg, "update": upd}))
    if ctx.single and (tier == "thorough" or ctx.cfg["fkind"] == "affine"):
        for h in livegrid_histories(tier):
            out.append(("livegrid", {"hist": h}))
    if layout_enabled(ctx.cfg):
        for lay in LAYOUTS:
            out.append(("layout", {"layout": lay}))
    if ctx.cfg.get("alt"):
        for h in relabel_histories(tier):
            out.append(("relabel", {"hist": h}))
    if ctx.form != "batch1":  # batch1 holds the same tensors as single
        for p in helper_cases():
            out.append(("helpers", p))
    if ctx.single:
        for b in (None,) + tuple(AXES):
            out.append(("sitk", {"axes": b}))
        for b, compress in ((None, True), (None, False), ("grid", True), ("cube", False), ("cube_corners", True), ("world", False)):
            out.append(("file", {"axes": b, "compress": compress}))
    return out


def run_op(ctx: Ctx, sub: str, p: dict, starts=AXES) -> Rec:
    try:
        return _run_op(ctx, sub, p, starts)
    except Exception as e:  # noqa: BLE001 - result of the real call could not be observed at all
        rec = Rec()
        rec.add(f"C10/{sub}/{ctx.form}/unobservable/raises={type(e).__name__}", exc_text(e))
        return rec


def _run_op(ctx: Ctx, sub: str, p: dict, starts=AXES) -> Rec:
    if sub == "warp":
        return run_warp(ctx, p["img"], p["pad"], starts)
    if sub == "sample":
        return run_sample(ctx, p["target"], p["list"], p["pad"], starts)
    if sub == "exp":
        return run_exp(ctx, p["scale"], p["steps"], starts)
    if sub == "sitk":
        return run_sitk(ctx, p["axes"], starts)
    if sub == "file":
        return run_file(ctx, p["axes"], p["compress"], starts)
    if sub == "helpers":
        return run_helpers(ctx, p)
    if sub == "default":
        return run_default(ctx)
    if sub == "tovec":
        return run_tovec(ctx, p["target"])
    if sub == "history":
        return run_history(ctx, p["op"], p["arg"], p["update"], starts)
    if sub == "layout":
        return run_layout(ctx, p["layout"], starts)
    if sub == "livegrid":
        return run_livegrid(ctx, list(p["hist"]))
    if sub == "relabel":
        return run_relabel(ctx, list(p["hist"]), starts)
    raise KeyError(sub)


def shards(tier: str, seed: int):
    return [{"tier": tier, "seed": seed, "i": i, "tag": f"{c['D']}D/{c['gname']}/{c['form']}/{c['fkind']}"} for i, c in enumerate(configs(tier, seed))]


def run_shard(shard) -> Acc:
    acc = Acc()
    _sweep_stale_tmp()
    tier = shard["tier"]
    cfg = configs(tier, shard["seed"])[shard["i"]]
    ctx = Ctx(cfg)
    explore_axes(acc, ctx, depth_of(tier, cfg["form"]))
    brief = {k: cfg[k] for k in ("D", "gname", "form", "fkind")}
    for sub, p in op_cases(ctx, tier):
        rec = run_op(ctx, sub, p)
        acc.trans(rec.trans)
        case = {"cfg": cfg, "sub": sub, "params": p}
        for sig, detail in rec.problems:
            acc.violation(sig, case, detail, size=1)
        for k in rec.results:
            acc.state(k)
            acc.outcome(k)
            if rec.nontrivial:
                acc.nontriv(k)
        for reason in rec.undef:
            acc.undef(reason)
        acc.trace(sub, n=1 if sub in ("helpers", "default", "livegrid") else (16 if sub == "tovec" else len(AXES)), depth=len(p["hist"]) if "hist" in p else 1)
        if len(acc.samples) < 3 and sub in ("sample", "exp"):
            acc.sample({"config": brief, "sub": sub, "params": p, "starts": list(AXES), "verdict": "ok" if not rec.problems else "violation"})
    return acc


def replay(case):
    cfg = case["cfg"]
    ctx = Ctx(cfg)
    if case["sub"] == "axes":
        rec = run_axes_path(ctx, case["start"], list(case["path"]))
    else:
        rec = run_op(ctx, case["sub"], case["params"])
    return list(rec.problems)
