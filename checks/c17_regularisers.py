"""C17 - deformation regularisers: null space, sign, scaling, units.

Product lattice (D, shape, spacing form, mode, N, dtype, call form) x field menus, explored completely; the edges
of the transition system are input transformations (u -> u + affine, u -> c u, spacing -> k spacing, reduction change,
functional -> module) and the invariant relates the loss values at the two ends, plus analytic values on affine /
quadratic / spline fields (ref/elastic.py, ref/poly.py), the elastic constant conversion table and the units of the
inverse consistency error.
"""
from __future__ import annotations

import itertools
import math

import numpy as np
import torch

from mc.core import Acc, exc_text, guarded, h64
from ref import elastic as E
from ref import poly as P
from checks.c12_derivatives import (
    ALL_MODES, C, DT, EPS, SP_QUICK, Built, field_from, field_spec, margin_of, mode_arg, pack, spacing_form, stride_tuple,
)

PROPERTY = "C17"
RULE = (
    "product of D x shape x spacing form x derivative mode (and spline stride) x batch size x dtype x call form (complete on the shapes listed in "
    "bounds; reduced dtype / N menu for the 3-D quick tier and two extreme elements on the remaining shapes, see bounds) "
    "(functional / module) over the menus: constant, affine-basis (E_a, E_a+E_b, E_a-E_b, generic), quadratic-basis and smooth fields; "
    "edges u->u+affine, u->c u (c in -1,2,-1/2,3), spacing->k spacing (k in 2,1/2), reduction none/mean/sum, 3-D linear tensors; "
    "all pairs of elastic constants on 4 materials; inverse consistency on exact inverse pairs and on (translation, identity) pairs for "
    "units x align_corners x margin x mask x reduction; memory layout: the displacement / coefficient field of every regulariser (functional and module) and the forward map, "
    "inverse map and mask of inverse_consistency_loss as transposed view, step-sliced view and stride-0 expanded batch must give the result of the contiguous form and stay unchanged; "
    "distinct = (sub-check, configuration, loss, field, edge); "
    "non-trivial = the judged loss value (or relation side) is non-zero"
)
EXPLANATION = "exhaustive exploration of regulariser axioms as relations between evaluations of the real losses, with analytic anchors"
ASSUMPTIONS = [
    "CPU, float32 and float64 fields; tolerance = 64 * (eps(dtype) * S + 2^-23 * 4 |expected|), S = (number of terms) x weight x (max|u| 2^o / min(h)^o)^degree "
    "(an upper bound of the loss magnitude; spacings are rounded to float32 by deepali)",
    "point-wise values (reduction='none') are judged in the interior (margin = derivative order) for the finite difference modes, at every output point for "
    "forward_central_backward first order and for bspline mode; 'mean'/'sum' are judged against the analytic value only where every point is exact, "
    "and against the mean / sum of 'none' always",
    "definitions: diffusion 1/2 sum A_ij^2; divergence 1/2 (tr A)^2; elasticity lambda/2 (tr A)^2 + mu/4 sum (A_jk + A_kj)^2; TV sum |A_ij|; "
    "grad (sum |A_ij|^p)^q; bending sum_k ||Hess u_k||_F^2; curvature 1/2 sum_k (laplace u_k)^2 (Fischer & Modersitzki)",
    "elastic constants: materials with mu > 0 and lambda >= 0 (0 <= nu < 1/2, including the boundary nu = lambda = 0); an auxetic material (nu = -0.3, lambda < 0) "
    "is run but not judged where lame_parameters rejects it with its explicit ValueError; pairs that do not determine the material (lambda = 0 with nu = 0; "
    "lambda < 0 with E) are not judged; spacing=None = normalised cube spacing 2/(n-1)",
    "inverse consistency masks: every non-zero mask value is full-weight foreground (docstring: 'errors at points with a zero mask value are ignored')",
    "inverse consistency of exp(v), exp(-v) is interpolation limited and judged as relations: error(A) <= error against the identity / 4 and error(A/2) <= 0.75 error(A) (observed ratios 0.25 .. 0.39: second order)",
    "reduction='none' on 3-D (linear) tensors raises a documented NotImplementedError: not judged",
]
# vacuity guard: about half of what the quick tier measures (59 573 non-trivial cases, 33 217 outcomes); thorough is a superset
MIN_NONTRIVIAL = {"quick": 29000, "thorough": 70000}
MIN_OUTCOMES = {"quick": 16000, "thorough": 40000}
MIN_SUB_TRACES = {"null1": 4500, "analytic": 9700, "null2": 2200, "affine-add": 270, "analytic2": 2400, "scale": 2000, "linear": 960,
                  "reduce": 3600, "lame": 70, "bspline": 570, "ic-zero": 160, "ic-units": 3400, "ic-exp": 6, "reuse": 230, "layout": 280}

LOSS_CLASS = {
    "grad_loss": "GradLoss", "bending_loss": "Bending", "curvature_loss": "Curvature", "diffusion_loss": "Diffusion",
    "divergence_loss": "Divergence", "elasticity_loss": "Elasticity", "total_variation_loss": "TotalVariation",
    "bspline_bending_loss": "BSplineBending",
}
FIRST_ORDER = [
    ("grad_loss", {"p": 2, "q": 1}), ("grad_loss", {"p": 1, "q": 1}), ("grad_loss", {"p": 2, "q": None}), ("grad_loss", {"p": 0, "q": 0}),
    ("grad_loss", {}), ("diffusion_loss", {}), ("divergence_loss", {}), ("total_variation_loss", {}),
    ("elasticity_loss", {"first_parameter": 0.75, "second_parameter": 1.5}),
    ("elasticity_loss", {"first_parameter": 1.25, "shear_modulus": 0.0}),
    ("elasticity_loss", {"first_parameter": 0.0, "second_parameter": 0.5}),
]
SECOND_ORDER = [("bending_loss", {}), ("curvature_loss", {})]


def fn_label(fn, args):
    if fn == "grad_loss":
        return "grad_loss[" + ",".join(f"{k}={args[k]}" for k in sorted(args)) + "]"
    if fn == "elasticity_loss":
        return "elasticity_loss[" + "+".join(sorted(k for k in args)) + "]"
    return fn


# ---------------------------------------------------------------------------
class SmoothField:
    """Fixed smooth (non-polynomial) field; only used in relations between evaluations."""

    def __init__(self, D, variant=0, amp=1.0):
        self.D, self.variant, self.amp = D, variant, amp
        self.A = None

    def values(self, X):
        D = self.D
        out = np.empty_like(X)
        for k in range(D):
            ph = 0.3 * (k + 1) + 0.7 * self.variant
            s = sum((0.35 + 0.15 * ((k + d + self.variant) % 3)) * X[d] for d in range(D))
            out[k] = self.amp * (1.0 + 0.25 * k) * np.sin(s + ph) + 0.125 * (k + 1) * np.cos(0.5 * X[(k + 1) % D] - ph)
        return out


class SumField:
    def __init__(self, a, b, ca=1.0, cb=1.0):
        self.a, self.b, self.ca, self.cb = a, b, ca, cb

    def values(self, X):
        return self.ca * self.a.values(X) + self.cb * self.b.values(X)


def make_field(spec):
    if "smooth" in spec:
        return SmoothField(spec["D"], spec["smooth"], spec.get("amp", 1.0))
    if "sum" in spec:
        return SumField(make_field(spec["sum"][0]), make_field(spec["sum"][1]), spec.get("ca", 1.0), spec.get("cb", 1.0))
    return field_from(spec)


class BuiltF(Built):
    def __init__(self, cfg, specs):
        super().__init__(cfg, [make_field(s) for s in specs])


def hessian(f: P.PolyField):
    return f.Q + np.transpose(f.Q, (0, 2, 1))


def nterms_of(fn, D):
    return {"bending_loss": D * D * D, "curvature_loss": D * D * D, "divergence_loss": D * D, "elasticity_loss": 5 * D * D}.get(fn, D * D)


def weight_of(fn, args):
    if fn == "elasticity_loss":
        lam, mu = lame_of_args(args)
        return max(lam, mu, 1.0)
    return 1.0


def lame_of_args(args):
    lam = args.get("first_parameter", 0.0)
    mu = args.get("second_parameter", args.get("shear_modulus", 0.0))
    return lam, mu


def order_of(fn):
    return 2 if fn in ("bending_loss", "curvature_loss", "bspline_bending_loss") else 1


def tol_loss(B: Built, fn, args, expected_abs, scale=1.0):
    """Absolute tolerance of a loss value (see ASSUMPTIONS)."""
    D = B.D
    o = order_of(fn)
    a, _ = E.homogeneity("bending_loss" if fn == "bspline_bending_loss" else fn, args)
    dmax = max(B.umax * scale, 1e-30) * (2.0 ** o) / (B.hmin ** o)
    eps = EPS[B.cfg["dtype"]]
    if fn == "grad_loss":
        p, q = args.get("p", 2), args.get("q", 1)
        q = (1.0 / p) if q is None else q
        pp = 1 if p == 0 else p
        Sg = D * D * dmax ** pp
        g = expected_abs ** (1.0 / q) if (q not in (0, 1) and expected_abs > 0) else expected_abs
        tg = C * (eps * Sg + EPS["f32"] * 4 * g)
        if q in (0, 1):
            return tg
        cand = [tg ** q]
        if g > 0:
            cand.append(q * g ** (q - 1) * tg)
        return min(cand)
    S = nterms_of(fn, D) * weight_of(fn, args) * dmax ** a
    return C * (eps * S + EPS["f32"] * 4 * expected_abs)


def analytic_value(fn, args, A=None, H=None):
    if fn == "grad_loss":
        return E.grad(A, args.get("p", 2), args.get("q", 1))
    if fn == "diffusion_loss":
        return E.diffusion(A)
    if fn == "divergence_loss":
        return E.divergence(A)
    if fn == "total_variation_loss":
        return E.total_variation(A)
    if fn == "elasticity_loss":
        lam, mu = lame_of_args(args)
        return E.elasticity(A, lam, mu)
    if fn in ("bending_loss", "bspline_bending_loss"):
        return E.bending(H)
    if fn == "curvature_loss":
        return E.curvature(H)
    raise KeyError(fn)


# ---------------------------------------------------------------------------
class Judge:
    def __init__(self, case):
        self.case = case
        self.out = []
        self.trans = 0
        self.outcomes = []
        self.nontrivial = False
        self.undef = []

    def sig(self, kind):
        c = self.case
        parts = [f"C17/{c['sub']}"]
        if "fn" in c:
            parts.append("fn=" + fn_label(c["fn"], c.get("args", {})))
        if "form" in c:
            parts.append("form=" + c["form"])
        cfg = c.get("cfg")
        if cfg:
            parts.append(f"mode={cfg['mode']}/D={cfg['D']}/sp={cfg['sp']}")
        if c["sub"] == "layout":
            if c["target"] == "loss":
                return f"C17/layout/fn={fn_label(c['fn'], c.get('args', {}))}/form={c['form']}/mode={c['cfg']['mode']}/D={c['cfg']['D']}/reduction={c['reduction']}/operand=field/layout={c['layout']}/{kind}"
            return f"C17/layout/fn=inverse_consistency_loss/rep={c['rep']}/D={len(c['grid']['size'])}/ac={c['grid']['ac']}/units={c['units']}/operand={c['operand']}/layout={c['layout']}/{kind}"
        if c["sub"] == "reuse":
            parts.append(f"mode={c['modkw']['mode']}/sp={c['modkw']['sp']}/D0={c['steps'][0]['D']}/reduction={c['reduction']}")
        for k in ("edge", "pair", "units", "ac", "opt", "kind"):
            if k in c:
                parts.append(f"{k}={c[k]}")
        parts.append(kind)
        return "/".join(parts)

    def bad(self, kind, detail):
        s = self.sig(kind)
        if all(s != o[0] for o in self.out):
            self.out.append((s, detail))

    def call(self, label, fn, *a, **kw):
        """-> ('ok', value) | ('raises', exc) with the exception already recorded as a violation unless allowed."""
        self.trans += 1
        st, res = guarded(fn, *a, **kw)
        if st == "raises":
            self.outcomes.append(("raise", label, type(res).__name__))
        return st, res

    def raised(self, label, exc):
        self.bad(f"{label}/raises=" + type(exc).__name__, exc_text(exc))

    def close(self, kind, what, got, exp, tol):
        got = np.asarray(got, dtype=np.float64)
        exp = np.broadcast_to(np.asarray(exp, dtype=np.float64), got.shape)
        if np.any(exp != 0) or np.any(got != 0):
            self.nontrivial = True
        if not np.all(np.isfinite(got)):
            self.bad(kind + "/nonfinite", f"{what}: non-finite loss value")
            return False
        err = float(np.abs(got - exp).max()) if got.size else 0.0
        if not (err <= tol):
            idx = np.unravel_index(int(np.argmax(np.abs(got - exp))), got.shape) if got.ndim else ()
            self.bad(kind, f"{what}: |got - expected| = {err:.3e} > tol {tol:.2e}: got {float(got[idx]):.7g} expected {float(exp[idx]):.7g}")
            return False
        return True


def loss_kwargs(fn, args, B: Built, reduction, spacing_override="__same__"):
    if fn == "bspline_bending_loss":
        kw = {"reduction": reduction}
        if B.stride is not None:
            kw["stride"] = B.stride if isinstance(B.stride, int) else tuple(B.stride)
        return kw
    kw = dict(args)
    kw.update(B.kwargs())
    if spacing_override != "__same__":
        kw["spacing"] = spacing_override
    kw["reduction"] = reduction
    return kw


def eval_loss(J: Judge, fn, args, form, u, kw):
    """One evaluation of the real loss (functional or module form)."""
    from deepali import losses as LM
    from deepali.losses import functional as L

    label = fn_label(fn, args)
    if form == "functional":
        return J.call(label, getattr(L, fn), u, **kw)

    def run():
        # the classes live in losses/flow.py and losses/bspline.py (GradLoss is not re-exported by the package)
        import deepali.losses.bspline as LB
        import deepali.losses.flow as LF

        cls = getattr(LB, LOSS_CLASS[fn]) if fn == "bspline_bending_loss" else getattr(LF, LOSS_CLASS[fn])
        mod = cls(**kw)
        return mod(u)

    return J.call(label, run)


def get_none(J: Judge, B: Built, fn, args, form, u=None, spacing_override="__same__", what=""):
    """reduction='none' evaluation -> float64 array (N, *oshape) or None (violation recorded)."""
    u = B.u if u is None else u
    st, r = eval_loss(J, fn, args, form, u, loss_kwargs(fn, args, B, "none", spacing_override))
    if st == "raises":
        J.raised("none", r)
        return None
    if not isinstance(r, torch.Tensor):
        J.bad("none/type", f"{what} returned {type(r).__name__}")
        return None
    want = (B.N, 1) + tuple(B.oshape)
    if tuple(r.shape) != want:
        J.bad("none/shape", f"{what} reduction='none' shape {tuple(r.shape)} expected {want}")
        return None
    a = r.detach().double().numpy()[:, 0]
    J.outcomes.append(("none", np.round(a, 5).tobytes()))
    if np.all(np.isfinite(a)) and a.min() < 0:
        J.bad("negative", f"{what} loss value {a.min():.3e} < 0")
    return a


def get_scalar(J: Judge, B: Built, fn, args, form, reduction, u=None, spacing_override="__same__"):
    u = B.u if u is None else u
    st, r = eval_loss(J, fn, args, form, u, loss_kwargs(fn, args, B, reduction, spacing_override))
    if st == "raises":
        J.raised(reduction, r)
        return None
    if not isinstance(r, torch.Tensor) or r.ndim != 0:
        J.bad(f"{reduction}/shape", f"reduction={reduction!r} returned {type(r).__name__} of shape {tuple(getattr(r, 'shape', ()))}")
        return None
    v = float(r.detach().double())
    J.outcomes.append((reduction, round(v, 6)))
    return v


# ---------------------------------------------------------------------------
def case_null1(J: Judge, case):
    """Gradient based terms vanish for translations (every point, every reduction)."""
    cfg, fn, args, form = case["cfg"], case["fn"], case["args"], case["form"]
    B = BuiltF(cfg, case["fields"])
    a = get_none(J, B, fn, args, form, what="translation")
    tol = tol_loss(B, fn, args, 0.0)
    if a is not None:
        J.close("none/value", "translation", a, 0.0, tol)
        J.nontrivial = True
    for red in ("mean", "sum"):
        v = get_scalar(J, B, fn, args, form, red)
        if v is not None:
            J.close(f"{red}/value", "translation", v, 0.0, tol * (a.size if (a is not None and red == "sum") else 1))


def case_analytic(J: Judge, case):
    """Analytic values on affine fields."""
    cfg, fn, args, form = case["cfg"], case["fn"], case["args"], case["form"]
    B = BuiltF(cfg, case["fields"])
    exp = np.array([analytic_value(fn, args, A=f.A) for f in B.fields])
    a = get_none(J, B, fn, args, form, what="affine")
    m = margin_of(B.mode, 1)
    reg = P.interior(B.oshape, m)
    # magnitude for the float32-spacing term: the value at |A| (terms of opposite sign cancel in tr A or in sum A_ij)
    tols = [tol_loss(B, fn, args, max(abs(e), abs(analytic_value(fn, args, A=np.abs(f.A))))) for e, f in zip(exp, B.fields)]
    if a is not None:
        for i in range(B.N):
            J.close("none/value", f"item {i} A={B.fields[i].A.tolist()}", a[(i,) + reg], exp[i], tols[i])
    if m == 0:
        npts = int(np.prod(B.oshape))
        v = get_scalar(J, B, fn, args, form, "mean")
        if v is not None:
            J.close("mean/value", "mean over batch and points", v, float(exp.mean()), max(tols))
        v = get_scalar(J, B, fn, args, form, "sum")
        if v is not None:
            J.close("sum/value", "sum over batch and points", v, float(exp.sum()) * npts, max(tols) * npts * B.N)


def case_null2(J: Judge, case):
    """Bending / curvature vanish for affine fields."""
    cfg, fn, args, form = case["cfg"], case["fn"], case["args"], case["form"]
    B = BuiltF(cfg, case["fields"])
    a = get_none(J, B, fn, args, form, what="affine")
    eff_mode = "sobel" if B.mode == "default" else B.mode  # documented default of bending / curvature: sobel
    reg = P.interior(B.oshape, margin_of(eff_mode, 2))
    tol = tol_loss(B, fn, args, 0.0) * EPS[cfg["dtype"]] * 64  # square of a rounding-size second derivative
    tol = max(tol, 1e-300)
    if a is not None:
        J.nontrivial = True
        for i in range(B.N):
            J.close("none/value", f"item {i}", a[(i,) + reg], 0.0, tol)
    if B.mode == "bspline":
        for red in ("mean", "sum"):
            v = get_scalar(J, B, fn, args, form, red)
            if v is not None:
                J.close(f"{red}/value", "affine spline", v, 0.0, tol * (int(np.prod(B.oshape)) * B.N if red == "sum" else 1))


def case_affine_add(J: Judge, case):
    """u -> u + affine leaves bending / curvature unchanged."""
    cfg, fn, args, form = case["cfg"], case["fn"], case["args"], case["form"]
    B0 = BuiltF(cfg, case["fields"])
    B1 = BuiltF(cfg, [{"sum": [s, t]} for s, t in zip(case["fields"], case["fields2"])])
    a0 = get_none(J, B0, fn, args, form, what="u")
    a1 = get_none(J, B1, fn, args, form, what="u+affine")
    if a0 is None or a1 is None:
        return
    eff_mode = "sobel" if B0.mode == "default" else B0.mode
    reg = (slice(None),) + P.interior(B0.oshape, margin_of(eff_mode, 2))
    tol = tol_loss(B1, fn, args, float(np.abs(a0[reg]).max()))
    J.close("relation", "loss(u + affine) vs loss(u)", a1[reg], a0[reg], tol)


def case_analytic2(J: Judge, case):
    """Bending / curvature on quadratic fields: analytic value in the interior (everywhere for bspline coefficients)."""
    cfg, fn, args, form = case["cfg"], case["fn"], case["args"], case["form"]
    B = BuiltF(cfg, case["fields"])
    a = get_none(J, B, fn, args, form, what="quadratic")
    if a is None:
        return
    eff_mode = "sobel" if B.mode == "default" else B.mode
    reg = P.interior(B.oshape, margin_of(eff_mode, 2))
    for i in range(B.N):
        exp = analytic_value(fn, args, H=hessian(B.fields[i]))
        J.close("none/value", f"item {i}", a[(i,) + reg], exp, tol_loss(B, fn, args, abs(exp)))


def case_scale(J: Judge, case):
    """u -> c u and spacing -> k spacing."""
    cfg, fn, args, form = case["cfg"], case["fn"], case["args"], case["form"]
    B = BuiltF(cfg, case["fields"])
    deg_u, deg_h = E.homogeneity(fn, args)
    base = get_none(J, B, fn, args, form, what="u")
    if base is None:
        return
    bmean = get_scalar(J, B, fn, args, form, "mean")
    for c in case["cs"]:
        uc = B.u * c
        a = get_none(J, B, fn, args, form, u=uc, what=f"{c} u")
        if a is None:
            continue
        f = abs(c) ** deg_u
        tol = tol_loss(B, fn, args, float(np.abs(base).max()) * f, scale=abs(c))
        J.close(f"field-scale", f"loss({c} u) vs {f} loss(u)", a, base * f, tol)
        if bmean is not None:
            v = get_scalar(J, B, fn, args, form, "mean", u=uc)
            if v is not None:
                J.close("field-scale/mean", f"mean loss({c} u) vs {f} mean loss(u)", v, bmean * f, tol)
    if B.sp_arg is None:
        return
    for k in case["ks"]:
        sp = B.sp_arg
        if isinstance(sp, torch.Tensor):
            spk = sp * k
        elif isinstance(sp, (list, tuple)):
            spk = type(sp)(_scale_nested(sp, k))
        else:
            spk = sp * k
        a = get_none(J, B, fn, args, form, spacing_override=spk, what=f"{k} spacing")
        if a is None:
            continue
        f = float(k) ** (-deg_h)
        tol = tol_loss(B, fn, args, float(np.abs(base).max())) * max(f, 1.0)  # S and the value both scale by f
        J.close("spacing-scale", f"loss(u, {k} h) vs {f} loss(u, h)", a, base * f, tol)


def _scale_nested(x, k):
    return [(_scale_nested(v, k) if isinstance(v, (list, tuple)) else v * k) for v in x]


def case_linear(J: Judge, case):
    """Linear transformations given as 3-D tensors yield zero."""
    from deepali import losses as LM
    from deepali.losses import functional as L

    fn, args, form = case["fn"], case["args"], case["form"]
    D, N = case["D"], case["N"]
    cols = {"affine": D + 1, "matrix": D, "translation": 1}[case["tensor"]]
    vals = (np.arange(N * D * cols, dtype=np.float64).reshape(N, D, cols) * 0.375 - 1.25)
    t = torch.tensor(vals, dtype=DT[case["dtype"]])
    for red in ("mean", "sum", "none"):
        kw = dict(args, reduction=red)
        if case.get("mode"):
            kw["mode"] = case["mode"]
        if fn == "bspline_bending_loss":
            kw = {"reduction": red}
        st, r = eval_loss(J, fn, args, form, t, kw)
        if st == "raises":
            if red == "none" and isinstance(r, NotImplementedError):
                J.undef.append("reduction='none' for a linear transformation tensor: documented NotImplementedError")
                continue
            J.raised(red, r)
            continue
        if red == "none":
            J.undef.append("reduction='none' for a linear transformation tensor returned a value: not specified")
            continue
        J.nontrivial = True
        if not isinstance(r, torch.Tensor) or r.numel() != 1:
            J.bad(f"{red}/shape", f"returned {type(r).__name__} shape {tuple(getattr(r, 'shape', ()))}")
            continue
        J.outcomes.append((red, float(r)))
        J.close(f"{red}/value", "linear transformation", float(r), 0.0, 0.0)


def case_reduce(J: Judge, case):
    """'mean' and 'sum' are the mean and the sum of 'none'."""
    cfg, fn, args, form = case["cfg"], case["fn"], case["args"], case["form"]
    B = BuiltF(cfg, case["fields"])
    a = get_none(J, B, fn, args, form, what="field")
    if a is None:
        return
    eps = EPS[cfg["dtype"]]
    s = float(np.abs(a).sum())
    for red, exp, tol in (("mean", float(a.mean()), C * eps * s / a.size * 4 + 1e-300), ("sum", float(a.sum()), C * eps * s * 4 + 1e-300)):
        v = get_scalar(J, B, fn, args, form, red)
        if v is not None:
            J.close(f"{red}-of-none", f"{red} vs {red} of 'none'", v, exp, tol)


def case_lame(J: Judge, case):
    """Elastic constant conversion: any two of (lambda, mu, nu, E) -> (lambda, mu); elasticity loss with that pair."""
    from deepali import losses as LM
    from deepali.losses import functional as L

    lam, mu = case["material"]
    kind = case["kind"]
    if kind == "preset":
        kw = {"material_name": "rubber"}
        lam, mu = E.rubber_lame()
    else:
        consts = E.constants(lam, mu)
        kw = {k: consts[k] for k in case["names"]}
        if case.get("ints"):  # the same boundary value given as a Python int (0 instead of 0.0)
            kw = {k: (int(v) if float(v).is_integer() else v) for k, v in kw.items()}
        why = E.undetermined(case["names"], lam, mu)
        if why:
            J.undef.append(why)
            return
    rtol = 1e-9
    st, r = J.call("lame_parameters", L.lame_parameters, **kw)
    if st == "raises" and lam < 0 and isinstance(r, ValueError) and "negative" in str(r):
        # deliberate input validation of the implementation (lambda >= 0 only); whether an auxetic material is a "valid pair" is left open
        J.undef.append("auxetic material (nu < 0, lambda < 0): rejected by an explicit ValueError of lame_parameters")
        return
    if st == "raises":
        J.raised("lame_parameters", r)
    else:
        J.nontrivial = True
        try:
            got = (float(r[0]), float(r[1]))
            ok = len(r) == 2
        except Exception:  # noqa: BLE001
            ok, got = False, None
        if not ok:
            J.bad("lame_parameters/type", f"returned {r!r}")
        else:
            J.outcomes.append(("lame", round(got[0], 9), round(got[1], 9)))
            J.close("lame_parameters/lambda", f"{kw} -> lambda", got[0], lam, rtol * max(lam, mu) * 100)
            J.close("lame_parameters/mu", f"{kw} -> mu", got[1], mu, rtol * max(lam, mu) * 100)
    # elasticity loss evaluated with the same pair on an affine field (every point exact: forward_central_backward)
    D = case["D"]
    cfg = {"D": D, "shape": [5, 6, 7][-D:], "sp": "vec", "mode": "forward_central_backward", "N": 1, "dtype": "f64", "seed": case.get("seed", 0)}
    f = P.generic_field(D, case.get("seed", 0), 1, 0)
    B = Built(cfg, [f])
    exp = E.elasticity(f.A, lam, mu)
    for form in ("functional", "module"):
        kw2 = dict(kw)
        kw2.update(B.kwargs())
        kw2["reduction"] = "mean"
        st, r = eval_loss(J, "elasticity_loss", {}, form, B.u, kw2)
        if st == "raises":
            J.raised(f"elasticity/{form}", r)
            continue
        v = float(r.detach().double())
        J.outcomes.append(("elasticity", form, round(v, 6)))
        J.close(f"elasticity/{form}/value", f"elasticity_loss({kw})", v, exp, 1e-6 * abs(exp) * max(1.0, lam / mu))


def spline_energy(coef, st, h):
    """sum_k sum_ab (d2 s_k / dx_a dx_b)^2 on the (n-3)*stride lattice; coef (D, *shape)."""
    D = coef.shape[0]
    out = 0.0
    for k in range(D):
        for a in range(D):
            for b in range(D):
                d = P.spline_derivative(coef[k], P.LETTERS[a] + P.LETTERS[b], st, h)
                out = out + d ** 2
    return out


def case_bspline(J: Judge, case):
    """B-spline bending energy equals the energy of the analytic spline second derivatives."""
    from checks.c12_derivatives import coef_lattice

    cfg, fn, form = case["cfg"], case["fn"], case["form"]
    D, shape, N = cfg["D"], tuple(cfg["shape"]), cfg["N"]
    sp_name = cfg["sp"]
    sp_arg, H = spacing_form(sp_name, D, N, shape, cfg.get("seed", 0))
    coef = coef_lattice(case["coef"], N, D, shape, cfg.get("seed", 0))
    u = torch.tensor(coef, dtype=DT[cfg["dtype"]])
    stride = cfg.get("stride")
    st_t = stride_tuple(stride, D)
    oshape = tuple((shape[D - 1 - d] - 3) * st_t[d] for d in range(D))[::-1]
    exp = np.stack([spline_energy(coef[i], st_t, H[i]) for i in range(N)])
    skw = {}
    if stride is not None:
        skw["stride"] = stride if isinstance(stride, int) else tuple(stride)
    if fn == "bspline_bending_loss":
        base_kw = dict(skw)
    else:
        base_kw = dict(skw, mode="bspline", spacing=sp_arg)
    eps = EPS[cfg["dtype"]]
    cmax = float(np.abs(coef).max())
    S = D ** 3 * (cmax * 8.0 / H.min() ** 2) ** 2
    tol = C * (eps * S + EPS["f32"] * 4 * float(exp.max()))
    st, r = eval_loss(J, fn, {}, form, u, dict(base_kw, reduction="none"))
    a = None
    if st == "raises":
        J.raised("none", r)
    elif not isinstance(r, torch.Tensor) or tuple(r.shape) != (N, 1) + oshape:
        J.bad("none/shape", f"shape {tuple(getattr(r, 'shape', ()))} expected {(N, 1) + oshape}")
    else:
        a = r.detach().double().numpy()[:, 0]
        J.outcomes.append(("none", np.round(a, 4).tobytes()))
        if a.min() < 0:
            J.bad("negative", f"loss value {a.min():.3e} < 0")
        J.close("none/value", f"stride {st_t}", a, exp, tol)
    for red, ev, tv in (("mean", float(exp.mean()), tol), ("sum", float(exp.sum()), tol * exp.size)):
        st, r = eval_loss(J, fn, {}, form, u, dict(base_kw, reduction=red))
        if st == "raises":
            J.raised(red, r)
            continue
        v = float(r.detach().double())
        J.outcomes.append((red, round(v, 5)))
        J.close(f"{red}/value", f"stride {st_t}", v, ev, tv)


# ---------------------------------------------------------------------------
# inverse consistency
def ic_grid(spec):
    from deepali.core.grid import Grid

    return Grid(size=tuple(spec["size"]), spacing=tuple(spec["spacing"]), align_corners=spec["ac"])


def ic_coords(size, ac):
    """Normalised coordinates (*shape, D) of the grid points (x first in the last axis)."""
    D = len(size)
    shape = tuple(size[::-1])
    ax = []
    for d in range(D):
        n = size[d]
        i = np.arange(n, dtype=np.float64)
        ax.append(2 * i / (n - 1) - 1 if ac else (2 * i + 1) / n - 1)
    mesh = np.meshgrid(*[ax[D - 1 - j] for j in range(D)], indexing="ij")  # array axes (z, y, x)
    return np.stack([mesh[D - 1 - d] for d in range(D)], axis=-1)


def unit_factors(size, spacing, ac, units):
    D = len(size)
    k = np.ones(D)
    if units in ("voxel", "world"):
        k = np.array([(n - 1) / 2.0 if ac else n / 2.0 for n in size])
    if units == "world":
        k = k * np.array(spacing, float)
    return k


def ic_call(J: Judge, label, fwd, inv, **kw):
    from deepali.losses import functional as L

    return J.call(label, L.inverse_consistency_loss, fwd, inv, **kw)


def affine_tensor(M, t, dtype):
    return torch.tensor(np.concatenate([M, np.asarray(t).reshape(-1, 1)], axis=1)[None], dtype=dtype)


def flow_of_affine(M, t, X, dtype):
    """Dense flow u(x) = M x + t - x sampled at the normalised coordinates X (*shape, D) -> (1, D, *shape)."""
    Y = X @ np.asarray(M).T + np.asarray(t)
    U = np.moveaxis(Y - X, -1, 0)
    return torch.tensor(U[None], dtype=dtype)


IC_MAPS = {
    2: [
        ("translation", [[1, 0], [0, 1]], [0.25, -0.125]),
        ("scaling", [[0.75, 0], [0, 0.5]], [0.0, 0.0]),
        ("rotation", [[math.cos(0.5), -math.sin(0.5)], [math.sin(0.5), math.cos(0.5)]], [0.0, 0.0]),
        ("affine", [[0.75, 0.125], [-0.25, 0.625]], [0.0625, -0.03125]),
    ],
    3: [
        ("translation", np.eye(3).tolist(), [0.25, -0.125, 0.0625]),
        ("scaling", np.diag([0.75, 0.5, 0.625]).tolist(), [0.0, 0.0, 0.0]),
        ("rotation", [[math.cos(0.4), -math.sin(0.4), 0], [math.sin(0.4), math.cos(0.4), 0], [0, 0, 1]], [0.0, 0.0, 0.0]),
        ("affine", [[0.75, 0.125, 0.0], [-0.25, 0.625, 0.0625], [0.03125, -0.125, 0.5]], [0.0625, -0.03125, 0.015625]),
    ],
}


def case_ic_zero(J: Judge, case):
    """The error of an exact inverse pair is zero in every unit."""
    g = case["grid"]
    size, ac = g["size"], g["ac"]
    D = len(size)
    dtype = DT[case["dtype"]]
    name, M, t = [m for m in IC_MAPS[D] if m[0] == case["map"]][0]
    M, t = np.array(M, float), np.array(t, float)
    Mi = np.linalg.inv(M)
    ti = -Mi @ t
    X = ic_coords(size, ac)
    rep = case["rep"]
    lim = np.abs(X.reshape(-1, D)).max(axis=0)  # the inverse flow is defined (without extrapolation) on the sample positions only
    contraction = bool(np.all(np.abs((X @ M.T + t).reshape(-1, D)) <= lim + 1e-12))
    if rep == "affine-affine":
        fwd, inv = affine_tensor(M, t, dtype), affine_tensor(Mi, ti, dtype)
    elif rep == "flow-affine":
        fwd, inv = flow_of_affine(M, t, X, dtype), affine_tensor(Mi, ti, dtype)
    elif rep == "affine-flow":
        if not contraction:
            J.undef.append("inverse flow sampled outside its domain (border extrapolation): not an exact inverse pair")
            return
        fwd, inv = affine_tensor(M, t, dtype), flow_of_affine(Mi, ti, X, dtype)
    elif rep == "flow-flow":
        if name != "translation" and not contraction:
            J.undef.append("inverse flow sampled outside its domain (border extrapolation): not an exact inverse pair")
            return
        fwd, inv = flow_of_affine(M, t, X, dtype), flow_of_affine(Mi, ti, X, dtype)
    else:
        raise KeyError(rep)
    grid = ic_grid(g)
    eps = EPS[case["dtype"]]
    cond = float(np.linalg.cond(M))
    for units in ("cube", "voxel", "world"):
        k = unit_factors(size, g["spacing"], ac, units)
        tol = C * eps * 4.0 * cond * float(np.linalg.norm(k)) * (max(size) if "flow" in rep else 1)
        for red in ("none", "mean"):
            st, r = ic_call(J, "ic", fwd, inv, grid=grid, units=units, reduction=red)
            if st == "raises":
                J.raised(f"units={units}/{red}", r)
                continue
            a = r.detach().double().numpy()
            J.outcomes.append((units, red, np.round(a, 6).tobytes()))
            J.nontrivial = True
            if a.min() < 0:
                J.bad("negative", f"error {a.min():.3e} < 0")
            J.close(f"units={units}/{red}/value", f"{name} as {rep}", a, 0.0, tol)


def ic_mask(shape, N, kind):
    m = np.ones((N, 1) + tuple(shape))
    if kind == "half":
        m[..., : shape[-1] // 2] = 0
    elif kind == "center":
        m[:] = 0
        m[(slice(None), slice(None)) + tuple(slice(1, n - 1) for n in shape)] = 1
    elif kind == "per-item":
        for i in range(N):
            m[i, ..., : 1 + i] = 0
    elif kind in ("label", "label-int", "soft", "neg", "uint8"):
        # three vertical bands along x: background | value a | value b ; every NON-ZERO value is foreground (docstring)
        a, b = {"label": (2, 3), "label-int": (2, 3), "soft": (0.5, 1), "neg": (-1, -1), "uint8": (1, 2)}[kind]
        n = shape[-1]
        m[..., : n // 3] = 0
        m[..., n // 3: (2 * n) // 3] = a
        m[..., (2 * n) // 3:] = b
        for i in range(1, N):  # items differ: second item has one more background column
            m[i, ..., : n // 3 + 1] = 0
    return m


MASK_DTYPE = {"label-int": torch.int64, "uint8": torch.uint8}


def case_ic_units(J: Judge, case):
    """forward = translation t, inverse = identity: the error is |t| everywhere, in the requested unit."""
    g = case["grid"]
    D = len(case["t"][0])
    N = len(case["t"])
    dtype = DT[case["dtype"]]
    T = np.array(case["t"], float)  # (N, D), normalised units
    Ms = np.array(case["M"], float) if "M" in case else None  # (N, D, D): forward x -> M x + t (non-constant error (M - I) x + t)
    if g is None:
        size, spacing, ac = list(case["size"]), [1.0] * D, True
        grid = None
    else:
        size, spacing, ac = g["size"], g["spacing"], g["ac"]
        grid = ic_grid(g)
    shape = tuple(size[::-1])
    rep = case["rep"]
    if rep == "tensor":
        fwd = torch.tensor(T[:, :, None], dtype=dtype)
        inv = torch.tensor(np.tile(np.eye(D, D + 1)[None], (N, 1, 1)), dtype=dtype)
    elif rep == "flow":
        fwd = torch.tensor(np.broadcast_to(T.reshape((N, D) + (1,) * D), (N, D) + shape).copy(), dtype=dtype)
        inv = torch.zeros((N, D) + shape, dtype=dtype)
    elif rep == "tensor-flow":
        fwd = torch.tensor(T[:, :, None], dtype=dtype)
        inv = torch.zeros((N, D) + shape, dtype=dtype)
    else:  # flow-tensor
        fwd = torch.tensor(np.broadcast_to(T.reshape((N, D) + (1,) * D), (N, D) + shape).copy(), dtype=dtype)
        inv = torch.tensor(np.tile(np.eye(D, D + 1)[None], (N, 1, 1)), dtype=dtype)
    units = case["units"]
    k = unit_factors(size, spacing, ac, units)
    mag = np.sqrt(((T * k) ** 2).sum(1))  # (N,)
    errmap = None
    if Ms is not None:
        X = ic_coords(size, ac)  # (*shape, D)
        if rep in ("tensor", "tensor-flow"):
            fwd = torch.tensor(np.concatenate([Ms, T[:, :, None]], axis=2), dtype=dtype)
        else:
            fwd = torch.cat([flow_of_affine(Ms[i], T[i], X, dtype) for i in range(N)], dim=0)
        errmap = np.stack([np.sqrt(((((X @ (Ms[i] - np.eye(D)).T) + T[i]) * k) ** 2).sum(-1)) for i in range(N)])
    opt = case["opt"]
    kw = {"units": units}
    if grid is not None:
        kw["grid"] = grid
    margin = case.get("margin", 0)
    if margin:
        kw["margin"] = margin
    mask = None
    if case.get("mask"):
        mask = ic_mask(shape, 1 if case["mask"].endswith("@1") else N, case["mask"].split("@")[0])
        mkind = case["mask"].split("@")[0]
        mdt = MASK_DTYPE.get(mkind, dtype if case.get("mask_dtype", "float") == "float" else torch.bool)
        kw["mask"] = torch.tensor(mask, dtype=mdt)
    # reference: per-point error and which points count
    if isinstance(margin, float):
        m = [int(margin * n) for n in size]
    else:
        m = [int(margin)] * D
    sub = tuple(slice(mm, n - mm) for mm, n in zip(m[::-1], shape))
    exp = np.stack([np.full(shape, mag[i]) for i in range(N)]) if errmap is None else errmap
    fg = np.ones((N,) + shape, bool)
    if mask is not None:
        fg = np.broadcast_to(mask[:, 0] != 0, (N,) + shape).copy()
        exp = exp * fg
    exp = exp[(slice(None),) + sub]
    fg = fg[(slice(None),) + sub]
    eps = EPS[case["dtype"]]
    tol = C * eps * 4.0 * float(np.linalg.norm(k)) * (1.0 + float(np.abs(T).max()) + (float(np.abs(Ms).max()) * D * (max(size) if "flow" in rep else 1) if Ms is not None else 0.0))
    count = int(fg.sum())
    for red in ("none", "mean", "sum"):
        st, r = ic_call(J, "ic", fwd, inv, reduction=red, **kw)
        if st == "raises":
            J.raised(red, r)
            continue
        a = r.detach().double().numpy()
        J.outcomes.append((red, np.round(a, 6).tobytes()))
        if red == "none":
            if a.shape != exp.shape:
                J.bad("none/shape", f"shape {a.shape} expected {exp.shape}")
                continue
            J.close("none/value", f"point-wise error in {units} units", a, exp, tol)
        elif red == "mean":
            if count == 0:
                continue
            J.close("mean/value", f"mean error over the {count} counted (foreground, inside margin) points", float(a), float(exp.sum()) / count, tol)
        else:
            J.close("sum/value", f"sum over {count} counted points", float(a), float(exp.sum()), tol * max(count, 1))


def case_ic_exp(J: Judge, case):
    """exp(v), exp(-v): error small relative to the displacement and shrinking with the amplitude (relations)."""
    from deepali.core.flow import expv

    shape = tuple(case["shape"])
    D = len(shape)
    ac = case["ac"]
    size = list(shape[::-1])
    X = np.moveaxis(ic_coords(size, ac), -1, 0)
    base = SmoothField(D, case["variant"], 1.0).values(2.0 * X)
    base = base / np.abs(base).max()
    from deepali.core.grid import Grid

    grid = Grid(size=tuple(size), align_corners=ac)
    errs, ids = [], []
    for A in case["amps"]:
        v = torch.tensor((A * base)[None], dtype=torch.float32)
        st, f = J.call("expv", expv, v, align_corners=ac)
        st2, b = J.call("expv", expv, -v, align_corners=ac)
        if st == "raises" or st2 == "raises":
            J.undef.append("expv raised (property C11)")
            return
        st, e = ic_call(J, "ic", f, b, grid=grid, units="cube", margin=case["margin"], reduction="mean")
        st2, e0 = ic_call(J, "ic", f, torch.zeros_like(f), grid=grid, units="cube", margin=case["margin"], reduction="mean")
        if st == "raises":
            J.raised("mean", e)
            return
        if st2 == "raises":
            J.raised("mean", e0)
            return
        errs.append(float(e))
        ids.append(float(e0))
    J.outcomes.append(("exp", tuple(round(x, 6) for x in errs)))
    J.nontrivial = True
    for A, e, e0 in zip(case["amps"], errs, ids):
        if not (e <= 0.25 * e0):
            J.bad("not-small", f"amplitude {A}: error of (exp v, exp -v) {e:.4e} > 1/4 of the error against the identity {e0:.4e}")
    for i in range(1, len(errs)):
        if not (errs[i] <= 0.75 * errs[i - 1] + 1e-6):
            J.bad("not-shrinking", f"error {errs[i]:.4e} at amplitude {case['amps'][i]} vs {errs[i - 1]:.4e} at {case['amps'][i - 1]}")


def module_class(fn):
    import deepali.losses.bspline as LB
    import deepali.losses.flow as LF

    return getattr(LB, LOSS_CLASS[fn]) if fn == "bspline_bending_loss" else getattr(LF, LOSS_CLASS[fn])


def snapshot(mod):
    return {k: repr(v) for k, v in sorted(vars(mod).items())}


def case_reuse(J: Judge, case):
    """ONE module object called on a sequence of fields of different shape / dtype / dimension: every call must give
    the value of a fresh module (and the analytic value where one is defined), and must leave vars(module) unchanged."""
    from checks.c12_derivatives import coef_lattice

    fn, args, red = case["fn"], case["args"], case["reduction"]
    mk = case["modkw"]
    first = case["steps"][0]
    D0 = first["D"]
    sp_arg, _ = spacing_form(mk["sp"], D0, 1, tuple(first["shape"]), case.get("seed", 0))
    if fn == "bspline_bending_loss":
        kw = {"reduction": red}
        if mk.get("stride") is not None:
            kw["stride"] = mk["stride"]
    else:
        kw = dict(args, mode=mode_arg(mk["mode"]), spacing=sp_arg, reduction=red)
        if mk.get("stride") is not None:
            kw["stride"] = mk["stride"]
    cls = module_class(fn)
    st, mod = J.call("construct", lambda: cls(**kw))
    if st == "raises":
        J.raised("construct", mod)
        return
    snap0 = snapshot(mod)
    for n, step in enumerate(case["steps"]):
        D, shape = step["D"], tuple(step["shape"])
        cfg = {"D": D, "shape": list(shape), "sp": mk["sp"], "mode": "bspline" if fn == "bspline_bending_loss" else mk["mode"], "N": 1,
               "dtype": step["dtype"], "seed": case.get("seed", 0), "stride": mk.get("stride")}
        tag = f"call {n + 1} ({D}-D {list(shape)} {step['dtype']})"
        if fn == "bspline_bending_loss":
            coef = coef_lattice("generic", 1, D, shape, case.get("seed", 0) + n)
            u = torch.tensor(coef, dtype=DT[step["dtype"]])
            B = None
        else:
            spec = field_spec(P.generic_field(D, case.get("seed", 0), 2 if order_of(fn) == 2 else 1, n % 3), f"gen{n}")
            B = BuiltF(cfg, [spec])
            u = B.u
        st, got = J.call(f"step{n}", mod, u)
        if st == "raises":
            J.raised(f"call{n + 1}", got)
            continue
        st, want = J.call(f"fresh{n}", lambda: cls(**kw)(u))
        snap = snapshot(mod)
        if snap != snap0:
            changed = sorted(k for k in set(snap) | set(snap0) if snap.get(k) != snap0.get(k))
            J.bad(f"call{n + 1}/attributes-changed", f"{tag}: vars(module) changed by the call: " + ", ".join(f"{k}: {snap0.get(k)} -> {snap.get(k)}" for k in changed)[:300])
        if not isinstance(got, torch.Tensor):
            J.bad(f"call{n + 1}/type", f"{tag}: returned {type(got).__name__}")
            continue
        g = got.detach().double().numpy()
        J.outcomes.append((n, np.round(g, 5).tobytes()))
        eps = EPS[step["dtype"]]
        if st == "ok" and isinstance(want, torch.Tensor):
            w = want.detach().double().numpy()
            if w.shape != g.shape:
                J.bad(f"call{n + 1}/vs-fresh/shape", f"{tag}: shape {g.shape}, fresh module {w.shape}")
            else:
                J.close(f"call{n + 1}/vs-fresh", f"{tag}: reused module vs fresh module", g, w, C * eps * float(np.abs(w).max()) + 1e-300)
        # analytic anchor
        if fn == "bspline_bending_loss":
            stt = stride_tuple(mk.get("stride"), D)
            h = [2.0 / (shape[D - 1 - d] - 1) for d in range(D)]
            exp = spline_energy(coef[0], stt, np.array(h))
            cmax = float(np.abs(coef).max())
            tol = C * (eps * D ** 3 * (cmax * 8.0 / min(h) ** 2) ** 2 + EPS["f32"] * 4 * float(exp.max()))
            if red == "none" and g.shape == (1, 1) + exp.shape:
                J.close(f"call{n + 1}/value", f"{tag}: spline energy", g[0, 0], exp, tol)
            elif red == "mean" and g.ndim == 0:
                J.close(f"call{n + 1}/value", f"{tag}: mean spline energy", float(g), float(exp.mean()), tol)
            continue
        f = B.fields[0]
        o = order_of(fn)
        eff_mode = "sobel" if (o == 2 and B.mode == "default") else B.mode
        m = margin_of(eff_mode, o)
        if o == 1:
            e = analytic_value(fn, args, A=f.A)
            mag = max(abs(e), abs(analytic_value(fn, args, A=np.abs(f.A))))
        else:
            e = analytic_value(fn, args, H=hessian(f))
            mag = abs(e)
        tol = tol_loss(B, fn, args, mag)
        if red == "none":
            if g.shape != (1, 1) + tuple(B.oshape):
                J.bad(f"call{n + 1}/shape", f"{tag}: shape {g.shape} expected {(1, 1) + tuple(B.oshape)}")
            else:
                J.close(f"call{n + 1}/value", f"{tag}: analytic value", g[(0, 0) + P.interior(B.oshape, m)], e, tol)
        elif m == 0 and g.ndim == 0:
            J.close(f"call{n + 1}/value", f"{tag}: analytic mean", float(g), e, tol)


LAYOUT_LOSSES = [("grad_loss", {}), ("diffusion_loss", {}), ("divergence_loss", {}), ("total_variation_loss", {}),
                 ("elasticity_loss", {"first_parameter": 0.75, "second_parameter": 1.5}), ("bending_loss", {}), ("curvature_loss", {})]
LAYOUT_FORMS = ["transposed", "sliced", "expanded"]


def fingerprint(t):
    return (t._version, tuple(t.shape), tuple(t.stride()), t.detach().clone().contiguous().to(torch.float64).numpy().tobytes())


def layout_pair(t, form, N):
    """(contiguous reference, same values in the other layout) or None; 'expanded' makes a stride-0 batch of item 0."""
    from ref.layout import applicable, relayout

    if form == "expanded":
        return relayout(t[0], "repeat", N), relayout(t[0], "expanded", N)
    if not applicable(t, form):
        return None
    v = relayout(t, form)
    if v.is_contiguous():
        return None
    return relayout(t, "contig"), v


def case_layout(J: Judge, case):
    """Same values, other memory layout of a user tensor (field / coefficients, forward / inverse map, mask): no exception,
    result equal to the result with contiguous arguments, arguments unchanged (bits and _version)."""
    form, N = case["layout"], 2
    if case["target"] == "loss":
        cfg, fn, args, cform, red = case["cfg"], case["fn"], case["args"], case["form"], case["reduction"]
        D = cfg["D"]
        if fn == "bspline_bending_loss":
            from checks.c12_derivatives import coef_lattice

            u0 = torch.tensor(coef_lattice("generic", N, D, tuple(cfg["shape"]), cfg.get("seed", 0)), dtype=DT[cfg["dtype"]])
            B = None
            kw = {"reduction": red, "stride": 2}
            scale = None
        else:
            B = BuiltF(cfg, [{"smooth": v, "D": D} for v in range(N)])
            u0 = B.u
            kw = loss_kwargs(fn, args, B, red)
        pair = layout_pair(u0, form, N)
        if pair is None:
            J.undef.append("layout variant not applicable / contiguous for this shape")
            return
        u_ref, u_tst = pair
        st, ref = eval_loss(J, fn, args, cform, u_ref, kw)
        if st == "raises":
            J.raised("contig", ref)
            return
        before = fingerprint(u_tst)
        st, res = eval_loss(J, fn, args, cform, u_tst, kw)
        if st == "raises":
            J.bad("raises=" + type(res).__name__, exc_text(res))
            return
        if fingerprint(u_tst) != before:
            J.bad("operand-mutated", "the field (bits / _version) was changed by the call")
        if tuple(res.shape) != tuple(ref.shape):
            J.bad("shape", f"shape {tuple(res.shape)} vs contiguous {tuple(ref.shape)}")
            return
        x, y = res.detach().double().numpy(), ref.detach().double().numpy()
        J.outcomes.append((form, np.round(x, 5).tobytes()))
        if B is not None:
            tol = tol_loss(B, fn, args, float(np.abs(y).max()))
        else:
            tol = C * EPS[cfg["dtype"]] * D ** 3 * (2.0 * 8.0 / (2.0 / (max(cfg["shape"]) - 1)) ** 2) ** 2
        J.close("value", f"layout {form} vs contiguous", x, y, tol)
        return
    # inverse consistency: forward / inverse map / mask
    g = case["grid"]
    size, ac = g["size"], g["ac"]
    D = len(size)
    shape = tuple(size[::-1])
    dtype = torch.float32
    X = ic_coords(size, ac)
    maps = IC_MAPS[D]
    Mf, tf = np.array(maps[3][1], float), np.array(maps[3][2], float)
    Mb, tb = np.array(maps[1][1], float), np.array(IC_T[D][1], float)  # not the inverse: non-zero, non-constant error
    if case["rep"] == "flow":
        fwd = torch.cat([flow_of_affine(Mf, tf * (1 + i), X, dtype) for i in range(N)])
        inv = torch.cat([flow_of_affine(Mb, tb * (1 + i), X, dtype) for i in range(N)])
    else:
        fwd = torch.cat([affine_tensor(Mf, tf * (1 + i), dtype) for i in range(N)])
        inv = torch.cat([affine_tensor(Mb, tb * (1 + i), dtype) for i in range(N)])
    mask = torch.tensor(ic_mask(shape, N, "label"), dtype=dtype)
    ops = {"forward": fwd, "inverse": inv, "mask": mask}
    pair = layout_pair(ops[case["operand"]], form, N)
    if pair is None:
        J.undef.append("layout variant not applicable / contiguous for this shape")
        return
    ref_ops, tst_ops = dict(ops), dict(ops)
    ref_ops[case["operand"]], tst_ops[case["operand"]] = pair
    grid = ic_grid(g)
    k = unit_factors(size, g["spacing"], ac, case["units"])
    tol = C * EPS["f32"] * 4.0 * float(np.linalg.norm(k)) * 4.0 * max(size)
    for red in ("none", "mean"):
        st, ref = ic_call(J, "ic", ref_ops["forward"], ref_ops["inverse"], grid=grid, mask=ref_ops["mask"], units=case["units"], reduction=red)
        if st == "raises":
            J.raised(f"contig/{red}", ref)
            return
        before = [fingerprint(t) for t in tst_ops.values()]
        st, res = ic_call(J, "ic", tst_ops["forward"], tst_ops["inverse"], grid=grid, mask=tst_ops["mask"], units=case["units"], reduction=red)
        if st == "raises":
            J.bad("raises=" + type(res).__name__, exc_text(res))
            return
        if [fingerprint(t) for t in tst_ops.values()] != before:
            J.bad("operand-mutated", "an argument tensor (bits / _version) was changed by the call")
        if tuple(res.shape) != tuple(ref.shape):
            J.bad("shape", f"{red}: shape {tuple(res.shape)} vs contiguous {tuple(ref.shape)}")
            continue
        x, y = res.detach().double().numpy(), ref.detach().double().numpy()
        J.outcomes.append((form, red, np.round(x, 5).tobytes()))
        J.close("value", f"{red}: layout {form} vs contiguous", x, y, tol)


DISPATCH = {
    "layout": case_layout,
    "reuse": case_reuse,
    "null1": case_null1, "analytic": case_analytic, "null2": case_null2, "affine-add": case_affine_add, "analytic2": case_analytic2,
    "scale": case_scale, "linear": case_linear, "reduce": case_reduce, "lame": case_lame, "bspline": case_bspline,
    "ic-zero": case_ic_zero, "ic-units": case_ic_units, "ic-exp": case_ic_exp,
}


def exec_case(case) -> Judge:
    J = Judge(case)
    st, res = guarded(DISPATCH[case["sub"]], J, case)
    if st == "raises":
        # every deepali call above is guarded, so this is the judge failing on a returned object it cannot read
        # (wrong type / rank / dtype): reported as a malformed result, never as a crashed shard
        J.bad("malformed-result/" + type(res).__name__, "judge could not read the returned object: " + exc_text(res))
    return J


# ---------------------------------------------------------------------------
# enumeration
def shapes(D, tier):
    if D == 2:
        s = [(5, 7), (6, 5), (8, 6)]
        return s[:2] if tier == "quick" else s + [(7, 7), (5, 5), (9, 6)]
    s = [(5, 6, 7), (6, 5, 5)]
    return s[:1] if tier == "quick" else s + [(7, 5, 6), (5, 5, 5)]


def analytic_matrices(D, seed):
    """E_a, E_a + E_b, E_a - E_b (all a < b), two generic: decides quadratic forms (polarisation) and the sign handling of |.|."""
    idx = list(itertools.product(range(D), repeat=2))

    def Em(ij):
        A = np.zeros((D, D))
        A[ij] = 1.0
        return A

    mats = [("E%d%d" % ij, Em(ij)) for ij in idx]
    for a, b in itertools.combinations(idx, 2):
        mats.append(("E%d%d+E%d%d" % (a + b), Em(a) + Em(b)))
        mats.append(("E%d%d-E%d%d" % (a + b), Em(a) - Em(b)))
    mats.append(("gen", P.generic_field(D, seed, 1, 0).A))
    mats.append(("-gen", -P.generic_field(D, seed, 1, 1).A))
    t = P.generic_field(D, seed, 1, 2).t
    return [field_spec(P.PolyField(D, t=t if n % 2 else None, A=A), name) for n, (name, A) in enumerate(mats)]


def const_specs(D, seed):
    out = []
    for i in range(D):
        t = np.zeros(D)
        t[i] = 1.0
        out.append(field_spec(P.PolyField(D, t=t), f"e{i}"))
    out.append(field_spec(P.PolyField(D, t=P.generic_field(D, seed, 1, 0).t), "tgen"))
    return out


def strides(D, tier):
    return [None, 2, [2, 1, 3][:D]] if tier == "quick" else [None, 1, 2, 3, [2, 1, 3][:D], [1, 3, 2][:D]]


IC_GRIDS = {
    2: [{"size": [6, 5], "spacing": [0.5, 2.0]}, {"size": [7, 9], "spacing": [1.0, 1.0]}, {"size": [5, 8], "spacing": [1.25, 0.75]}],
    3: [{"size": [6, 5, 7], "spacing": [0.5, 2.0, 1.25]}, {"size": [5, 5, 6], "spacing": [1.0, 1.0, 1.0]}],
}
IC_T = {
    2: [[0.25, -0.125], [-0.0625, 0.1875], [0.125, 0.0], [0.0, -0.3125]],
    3: [[0.25, -0.125, 0.0625], [-0.0625, 0.1875, -0.25], [0.0, 0.0, 0.125], [0.125, -0.3125, 0.0]],
}


def cases_of(shard):
    tier, seed, kind = shard["tier"], shard["seed"], shard["kind"]
    out = []
    dts = ["f64", "f32"]
    if kind == "deriv":
        D, mode, shape, part, full = shard["D"], shard["mode"], list(shard["shape"]), shard["part"], shard["full"]
        sps = SP_QUICK
        if not full:
            combos, combos6 = [("ND", 2, "f64"), ("none", 1, "f32")], [("ND", "f64"), ("none", "f32")]
        elif tier == "quick" and D == 3:
            # quick, 3-D: every spacing form with N=2 in float64, plus (vec, N=1, f64) and (None, N=1, f32)
            combos = [(sp, 2, "f64") for sp in sps] + [("vec", 1, "f64"), ("none", 1, "f32")]
            if mode in ("forward", "backward", "prewitt"):  # same code path as central / sobel up to the stencil (C12 covers the stencils)
                combos = [("ND", 2, "f64"), ("vec", 1, "f64"), ("none", 1, "f32")]
            combos6 = [("ND", "f64"), ("none", "f64"), ("vec", "f64")]
        elif tier == "quick":
            # quick, 2-D: complete spacing form x N product in float64, float32 on the two extreme elements
            combos = list(itertools.product(sps, (1, 2), ["f64"])) + [("vec", 2, "f32"), ("none", 1, "f32")]
            combos6 = list(itertools.product(sps, ["f64"])) + [("vec", "f32")]
        else:
            combos, combos6 = list(itertools.product(sps, (1, 2), dts)), list(itertools.product(sps, dts))
        st_all = strides(D, tier) if mode == "bspline" else [None]

        def forms_for(dt, stride):
            # the module form is a thin wrapper: exercised in float64 and (spline mode) for the default stride and stride 2
            if dt == "f64" and (mode != "bspline" or stride in (None, 2)):
                return ("functional", "module")
            return ("functional",)

        def st_for(sp):
            return st_all if (mode != "bspline" or sp in ("vec", "ND") or tier == "thorough") else st_all[:2]

        def cfg(sp, N, dt, stride=None):
            c = {"D": D, "shape": shape, "sp": sp, "mode": mode, "N": N, "dtype": dt, "seed": seed}
            if mode == "bspline":
                c["stride"] = stride
            return c

        consts = const_specs(D, seed)
        mats = analytic_matrices(D, seed)
        basis = mats[: D * D]
        gen1 = field_spec(P.generic_field(D, seed, 1, 1), "gen1b")
        gen2 = [field_spec(P.generic_field(D, seed, 2, v), f"gen2v{v}") for v in range(6)]
        quad = [field_spec(f, n) for n, f in P.basis_quadratic(D)]
        smooth = [{"smooth": v, "D": D} for v in range(6)]
        forms = ("functional", "module")
        if part == "first":
            for sp, N, dt in combos:
                for stride in st_for(sp):
                    c = cfg(sp, N, dt, stride)
                    for fn, args in FIRST_ORDER:
                        for form in forms_for(dt, stride):
                            for grp in pack(list(consts), N, consts[-1]):
                                out.append({"sub": "null1", "cfg": c, "fn": fn, "args": args, "form": form, "fields": grp})
                            for grp in pack(list(basis), N, gen1):
                                out.append({"sub": "analytic", "cfg": c, "fn": fn, "args": args, "form": form, "fields": grp})
            for sp, dt in combos6:
                for stride in st_for(sp)[:1]:
                    c = cfg(sp, 6, dt, stride)
                    for fn, args in FIRST_ORDER:
                        for grp in pack(list(mats[D * D:]), 6, gen1):
                            out.append({"sub": "analytic", "cfg": c, "fn": fn, "args": args, "form": "functional", "fields": grp})
        elif part == "second":
            for sp, N, dt in combos:
                for stride in st_for(sp):
                    c = cfg(sp, N, dt, stride)
                    for fn, args in SECOND_ORDER:
                        for form in forms_for(dt, stride):
                            for grp in pack(list(basis) + list(consts) + [gen1], N, gen1):
                                out.append({"sub": "null2", "cfg": c, "fn": fn, "args": args, "form": form, "fields": grp})
                            for grp in pack(list(quad) + gen2[:1], N, gen2[1]):
                                out.append({"sub": "analytic2", "cfg": c, "fn": fn, "args": args, "form": form, "fields": grp})
                        if mode != "bspline":
                            for v, base in enumerate([gen2[:N], smooth[:N]]):
                                out.append({"sub": "affine-add", "cfg": c, "fn": fn, "args": args, "form": "functional", "edge": "add-affine",
                                            "fields": base, "fields2": [mats[-1 - (i % 2)] for i in range(N)]})
        elif part == "relations":
            for sp, N, dt in combos:
                for stride in st_for(sp)[:2]:
                    c = cfg(sp, N, dt, stride)
                    for fn, args in FIRST_ORDER + SECOND_ORDER:
                        flds = [gen2[:N], smooth[:N]] if mode != "bspline" else [smooth[:N]]
                        for fl in flds:
                            for form in forms_for(dt, stride):
                                out.append({"sub": "reduce", "cfg": c, "fn": fn, "args": args, "form": form, "fields": fl})
                            out.append({"sub": "scale", "cfg": c, "fn": fn, "args": args, "form": "functional", "fields": fl, "cs": [-1.0, 2.0, -0.5, 3.0] if tier == "thorough" else [-0.5, 3.0], "ks": [2.0, 0.5] if tier == "thorough" else [2.0]})
    elif kind == "layout":
        D = shard["D"]
        shp = [6, 7] if D == 2 else [5, 6, 7]
        for fn, args in LAYOUT_LOSSES:
            for form in ("functional", "module"):
                for mode in ("default", "central", "bspline"):
                    for lay in LAYOUT_FORMS:
                        for red in ("mean", "none"):
                            c = {"D": D, "shape": shp, "sp": "vec", "mode": mode, "N": 2, "dtype": "f32", "seed": seed}
                            if mode == "bspline":
                                c["stride"] = 2
                            out.append({"sub": "layout", "target": "loss", "fn": fn, "args": args, "form": form, "cfg": c, "reduction": red, "layout": lay})
        for form in ("functional", "module"):
            for lay in LAYOUT_FORMS:
                for red in ("mean", "none"):
                    c = {"D": D, "shape": shp, "sp": "none", "mode": "bspline", "N": 2, "dtype": "f32", "seed": seed, "stride": 2}
                    out.append({"sub": "layout", "target": "loss", "fn": "bspline_bending_loss", "args": {}, "form": form, "cfg": c, "reduction": red, "layout": lay})
        for ac in (True, False):
            g = dict(IC_GRIDS[D][0], ac=ac)
            for rep in ("flow", "tensor"):
                for operand in ("forward", "inverse", "mask"):
                    for lay in LAYOUT_FORMS:
                        out.append({"sub": "layout", "target": "ic", "grid": g, "rep": rep, "operand": operand, "layout": lay, "units": "voxel" if ac else "world"})
    elif kind == "reuse":
        D, mode = shard["D"], shard["mode"]
        A = {2: [5, 7], 3: [5, 6, 7]}
        Bf = {2: [9, 12], 3: [8, 7, 9]}
        oD = 5 - D
        for fn, args in FIRST_ORDER + SECOND_ORDER + ([("bspline_bending_loss", {})] if mode == "bspline" else []):
            for sp in ("none", "scalar", "vec"):
                if fn == "bspline_bending_loss" and sp != "none":
                    continue
                steps = [{"D": D, "shape": A[D], "dtype": "f32"}, {"D": D, "shape": Bf[D], "dtype": "f32"}, {"D": D, "shape": A[D], "dtype": "f32"},
                         {"D": D, "shape": Bf[D], "dtype": "f64"}]
                if sp != "vec":  # a per-axis spacing fixes the dimension; None / scalar allow a field of the other dimension
                    steps = steps + [{"D": oD, "shape": A[oD], "dtype": "f32"}, {"D": D, "shape": A[D], "dtype": "f64"}]
                for red in ("none", "mean"):
                    out.append({"sub": "reuse", "fn": fn, "args": args, "form": "module", "reduction": red, "seed": seed,
                                "modkw": {"mode": mode, "sp": sp, "stride": 2 if mode == "bspline" else None}, "steps": steps})
    elif kind == "bspline":
        D, shape = shard["D"], list(shard["shape"])
        for sp, N, dt in itertools.product(SP_QUICK, (1, 2), dts):
            for stride in strides(D, tier):
                c = {"D": D, "shape": shape, "sp": sp, "mode": "bspline", "N": N, "dtype": dt, "seed": seed, "stride": stride}
                for coef in ("generic", "impulses"):
                    for form in ("functional", "module"):
                        out.append({"sub": "bspline", "cfg": c, "fn": "bending_loss", "form": form, "coef": coef})
                    if sp == "none":
                        for form in ("functional", "module"):
                            out.append({"sub": "bspline", "cfg": c, "fn": "bspline_bending_loss", "form": form, "coef": coef})
    elif kind == "linear":
        for D in (2, 3):
            for fn, args in FIRST_ORDER + SECOND_ORDER + [("bspline_bending_loss", {})]:
                for form in ("functional", "module"):
                    for tensor in ("affine", "matrix", "translation"):
                        for N in (1, 2):
                            for dt in dts:
                                for mode in (None, "bspline", "central"):
                                    if fn == "bspline_bending_loss" and mode:
                                        continue
                                    out.append({"sub": "linear", "fn": fn, "args": args, "form": form, "tensor": tensor, "D": D, "N": N, "dtype": dt, "mode": mode, "kind": tensor})
    elif kind == "lame":
        for D in (2, 3):
            for mat in E.MATERIALS[seed % 4] + E.BOUNDARY_MATERIALS:
                for a, b in E.pairs():
                    out.append({"sub": "lame", "kind": "pair", "pair": E.pair_kind(a, b), "names": [a, b], "material": list(mat), "D": D, "seed": seed})
                    out.append({"sub": "lame", "kind": "pair", "pair": E.pair_kind(b, a), "names": [b, a], "material": list(mat), "D": D, "seed": seed})
                    if mat in E.BOUNDARY_MATERIALS:
                        out.append({"sub": "lame", "kind": "pair-int", "pair": E.pair_kind(a, b), "names": [a, b], "material": list(mat), "D": D, "seed": seed, "ints": True})
            out.append({"sub": "lame", "kind": "preset", "pair": "rubber", "material": [0, 0], "D": D, "seed": seed})
    elif kind == "ic-zero":
        D = shard["D"]
        for g0 in IC_GRIDS[D]:
            for ac in (True, False):
                g = dict(g0, ac=ac)
                for name, _, _ in IC_MAPS[D]:
                    for rep in ("affine-affine", "flow-affine", "affine-flow", "flow-flow"):
                        for dt in dts:
                            out.append({"sub": "ic-zero", "grid": g, "map": name, "rep": rep, "dtype": dt, "ac": ac, "kind": rep})
    elif kind == "ic-units":
        D, units = shard["D"], shard["units"]
        T = IC_T[D]
        opts = [("plain", {}), ("margin-int1", {"margin": 1}), ("margin-int2", {"margin": 2}), ("margin-float", {"margin": 0.25}),
                ("mask-half", {"mask": "half"}), ("mask-center", {"mask": "center"}), ("mask-per-item", {"mask": "per-item"}),
                ("mask-bool", {"mask": "half", "mask_dtype": "bool"}), ("mask-batch1", {"mask": "half@1"}),
                ("mask+margin", {"mask": "half", "margin": 1})]
        for g0 in IC_GRIDS[D] + [None]:
            for ac in ((True, False) if g0 is not None else (True,)):
                g = dict(g0, ac=ac) if g0 is not None else None
                for rep in ("tensor", "flow", "tensor-flow", "flow-tensor"):
                    if g is None and rep == "tensor":
                        continue  # documented: grid required when both maps are linear
                    for N in (1, 2):
                        for oname, okw in opts:
                            for dt in (dts if oname == "plain" else ["f32"]):
                                for ti in range(2 if tier == "quick" and oname != "plain" else len(T) - N + 1):
                                    c = {"sub": "ic-units", "grid": g, "units": units, "ac": ac if g is not None else "default", "rep": rep,
                                         "opt": oname, "t": T[ti: ti + N], "dtype": dt, "kind": rep}
                                    if g is None:
                                        c["size"] = IC_GRIDS[D][0]["size"]
                                    c.update(okw)
                                    out.append(c)
    elif kind == "ic-mask":
        # NON-constant error (affine forward, identity inverse) so that a mask-weighted mean differs from the foreground mean
        D, units = shard["D"], shard["units"]
        Mgen = {2: [[[0.75, 0.125], [-0.25, 0.625]], [[1.25, -0.125], [0.0625, 0.875]]],
                3: [[[0.75, 0.125, 0.0], [-0.25, 0.625, 0.0625], [0.03125, -0.125, 0.5]], [[1.25, 0.0, -0.125], [0.0625, 0.875, 0.0], [0.0, 0.125, 1.125]]]}[D]
        T = IC_T[D]
        g0 = IC_GRIDS[D][0]
        for ac in (True, False):
            g = dict(g0, ac=ac)
            for rep in ("tensor", "flow"):
                for mk in (None, "label", "label-int", "soft", "neg", "uint8", "bool"):
                    for margin in (0, 1):
                        for N, suffix in ((1, ""), (2, ""), (2, "@1")):
                            if mk is None and suffix:
                                continue
                            c = {"sub": "ic-units", "grid": g, "units": units, "ac": ac, "rep": rep, "kind": rep, "dtype": "f32",
                                 "opt": "affine/" + (f"mask-{mk}" if mk else "nomask") + ("+margin" if margin else "") + ("-batch1" if suffix else ""),
                                 "t": T[:N], "M": Mgen[:N]}
                            if mk == "bool":
                                c["mask"], c["mask_dtype"] = "half" + suffix, "bool"
                            elif mk:
                                c["mask"] = mk + suffix
                            if margin:
                                c["margin"] = margin
                            out.append(c)
    elif kind == "ic-exp":
        for shape in ([17, 17], [9, 10], [9, 8, 9]):
            for ac in (True, False):
                for variant in (0, 1):
                    out.append({"sub": "ic-exp", "shape": shape, "ac": ac, "variant": variant + (seed % 4), "amps": [0.2, 0.1, 0.05], "margin": 0})
    return out


PARTS = ["first", "second", "relations"]


def full_shapes(D, tier):
    if tier == "thorough":
        return shapes(D, tier)[:3]
    return shapes(D, tier)[:1]


def shards(tier: str, seed: int):
    out = []
    for D in (2, 3):
        fs = full_shapes(D, tier)
        for mode in ALL_MODES:
            for shape in shapes(D, tier):
                for part in PARTS:
                    out.append({"tier": tier, "seed": seed, "kind": "deriv", "D": D, "mode": mode, "shape": list(shape), "part": part, "full": tuple(shape) in fs})
        for shape in (shapes(D, "thorough")[:2] if tier == "quick" else shapes(D, tier)[:4]):
            out.append({"tier": tier, "seed": seed, "kind": "bspline", "D": D, "shape": list(shape)})
        for mode in (("default", "central", "bspline") if tier == "quick" else ALL_MODES):
            out.append({"tier": tier, "seed": seed, "kind": "reuse", "D": D, "mode": mode})
        out.append({"tier": tier, "seed": seed, "kind": "layout", "D": D})
        out.append({"tier": tier, "seed": seed, "kind": "ic-zero", "D": D})
        for units in ("cube", "voxel", "world"):
            out.append({"tier": tier, "seed": seed, "kind": "ic-units", "D": D, "units": units})
            out.append({"tier": tier, "seed": seed, "kind": "ic-mask", "D": D, "units": units})
    out.append({"tier": tier, "seed": seed, "kind": "linear"})
    out.append({"tier": tier, "seed": seed, "kind": "lame"})
    out.append({"tier": tier, "seed": seed, "kind": "ic-exp"})
    return out


def bounds(tier):
    return {
        "D": [2, 3],
        "shapes": {"D2": [list(s) for s in shapes(2, tier)], "D3": [list(s) for s in shapes(3, tier)]},
        "shapes_with_complete_spacing_x_N_x_dtype_product": {"D2": [list(s) for s in full_shapes(2, tier)], "D3": [list(s) for s in full_shapes(3, tier)]},
        "other_shapes_run": "(per-item per-axis spacing, N=2, float64) and (spacing=None, N=1, float32)",
        "spacing_forms": SP_QUICK,
        "modes": ALL_MODES,
        "spline_strides": [repr(s) for s in strides(3, tier)],
        "losses": [fn_label(f, a) for f, a in FIRST_ORDER + SECOND_ORDER] + ["bspline_bending_loss"],
        "call_forms": ["functional", "module"],
        "affine_menu": {"D2": len(analytic_matrices(2, 0)), "D3": len(analytic_matrices(3, 0))},
        "field_scales": [-1.0, 2.0, -0.5, 3.0] if tier == "thorough" else [-0.5, 3.0],
        "spacing_scales": [2.0, 0.5] if tier == "thorough" else [2.0],
        "elastic_materials": "4 generic (by seed) + boundary: (lambda=0, nu=0) x 2, near-incompressible nu=0.49, auxetic nu=-0.3",
        "elastic_pairs": len(E.pairs()) * 2,
        "ic_grids": {"D2": len(IC_GRIDS[2]), "D3": len(IC_GRIDS[3])},
        "ic_units": ["cube", "voxel", "world"],
        "ic_options": 10,
        "layout": {"losses": [fn_label(f, a) for f, a in LAYOUT_LOSSES] + ["bspline_bending_loss"], "call_forms": ["functional", "module"], "modes": ["default", "central", "bspline"],
                   "forms": LAYOUT_FORMS, "reductions": ["mean", "none"], "inverse_consistency_operands": ["forward", "inverse", "mask"], "representations": ["flow", "tensor"], "D": [2, 3]},
        "module_reuse": {"depth": "4 calls (6 where the spacing form allows a change of dimension) on ONE module object", "modes": ["default", "central", "bspline"] if tier == "quick" else ALL_MODES,
                         "spacing": ["none", "scalar", "vec"], "reductions": ["none", "mean"], "sequence": "shape A f32, finer shape B f32, A f32, B f64, (other D f32, A f64)"},
        "shards": len(shards(tier, 0)),
    }


def state_key(case):
    return h64(repr(sorted((k, repr(v)) for k, v in case.items())))


def case_size(case):
    cfg = case.get("cfg")
    if cfg:
        return cfg["D"] * 100 + cfg["N"] * 10 + int(np.prod(cfg["shape"])) // 50
    return 10 * len(repr(case)) // 100


def run_shard(shard) -> Acc:
    acc = Acc()
    for case in cases_of(shard):
        J = exec_case(case)
        key = state_key(case)
        acc.state(key)
        acc.trans(J.trans)
        acc.trace(case["sub"], depth=1)
        for o in J.outcomes:
            acc.outcome(case["sub"], case.get("fn", ""), *o)
        if J.nontrivial:
            acc.nontriv(key)
        for r in J.undef:
            acc.undef(r)
        for sig, detail in J.out:
            acc.violation(sig, case, detail, size=case_size(case))
        if len(acc.samples) < 2 and case["sub"] in ("scale", "ic-units", "lame", "affine-add"):
            acc.sample({"case": {k: v for k, v in case.items() if k not in ("fields", "fields2")}, "violations": [s for s, _ in J.out]})
    return acc


def replay(case):
    return list(exec_case(case).out)
